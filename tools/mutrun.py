#!/usr/bin/env python3
"""Apply one textual mutant to a scratch worktree, run checks against it, restore.
usage: mutrun.py <worktree> <file> <old> <new> -- <ID> [<ID> ...]   (python-escaped strings)"""
import subprocess, sys, os
wt, f, old, new = sys.argv[1:5]
ids = sys.argv[6:]
p = os.path.join(wt, f)
s = open(p).read()
old = old.encode().decode('unicode_escape'); new = new.encode().decode('unicode_escape')
assert s.count(old) >= 1, "pattern not found"
open(p, 'w').write(s.replace(old, new, 1))
try:
    for i in ids:
        r = subprocess.run(['./check', i, '--tier', os.environ.get('TIER', 'quick')], cwd='/verif', capture_output=True, text=True,
                           env=dict(os.environ, PMC_REPO=wt, PMC_NO_RECHECK='1', PMC_OUT='/tmp/pmc_out'))
        lines = r.stdout.strip().splitlines()
        nv = sum(1 for l in lines if l.startswith('VIOLATION'))
        sigs = [l.strip() for l in lines if l.strip().startswith('signature=')][:3]
        print(f"  {i}: exit={r.returncode} violations_listed={nv}", *sigs, sep='\n      ')
finally:
    subprocess.run(['git', '-C', wt, 'checkout', '--', '.'])
