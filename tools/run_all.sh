#!/bin/bash
# usage: run_all.sh <tier> "<seeds>" [IDs...]   -- runs the checks one after another, prints one line per run
tier=${1:-quick}; seeds=${2:-0}; shift; shift
ids=${@:-C01 C02 C03 C04 C05 C06 C07 C08 C09 C10 C11 C12 C13 C14 C15 C16 C17 C18 C19 C20}
cd "$(dirname "$0")/.."
for s in $seeds; do
  for id in $ids; do
    [ -f pmc/props/$(echo $id | tr A-Z a-z).py ] || continue
    start=$(date +%s)
    out=$(VERIF_SEED=$s ./check $id --tier $tier 2>&1)
    rc=$?
    echo "seed=$s $id exit=$rc $(( $(date +%s) - start ))s | $(echo "$out" | grep "^\[$id\]" | cut -c1-260)"
    [ $rc -ne 0 ] && echo "$out" | grep -v "^\[$id\]" | head -8
  done
done
