#!/usr/bin/env python3
"""Markdown table of the seeded changes and which checks catch them (from seeded/*/meta.json)."""
import glob, json, os
here = os.path.dirname(os.path.dirname(os.path.abspath(__file__)))
desc = json.load(open(os.path.join(here, 'seeded', 'descriptions.json')))
print('| seed | change (written by an independent agent from the property text only) | needs | suite | demo 0→1 | caught by (quick tier) |')
print('|---|---|---|---|---|---|')
for f in sorted(glob.glob(os.path.join(here, 'seeded', '*', 'meta.json'))):
    m = json.load(open(f))
    sid = os.path.basename(os.path.dirname(f))
    d = desc.get(sid, {})
    caught = ', '.join(f"{c} ({m['checks'][c]['violations']} sig.)" for c in m['caught_by']) or '**missed**'
    tried = [c for c in m['checks'] if c not in m['caught_by']]
    if tried:
        caught += f" — not by {', '.join(tried)}"
    print(f"| {sid} | {d.get('what', '')} | {d.get('needs', '')} | {'159/159' if m.get('suite_ok') else '?'} | "
          f"{m.get('demo_unmodified_exit')}→{m.get('demo_patched_exit')} | {caught} |")
