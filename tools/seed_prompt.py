#!/usr/bin/env python3
"""Print the prompt for an independent seeding agent: property text only + its scratch worktree."""
import json, sys
pid, wt = sys.argv[1], sys.argv[2]
round2 = len(sys.argv) > 3 and sys.argv[3] == "2"
p = next(json.loads(l) for l in open('/verif/properties.jsonl') if json.loads(l)['id'] == pid)
EXTRA = ("ROUND 2: an earlier round already produced the obvious candidates (a cache not cleared on update, a wrong axis/stride, a dropped transpose/conjugate, a stale flag, an off-by-one layer). Be more subtle this time: prefer defects that only manifest for unusual-but-legitimate VALUES (very large/small magnitudes, exact zeros, ties, integer or float32 dtypes, Fortran-ordered or non-contiguous arrays, negative steps, empty or length-1 inputs), for rarely used OPTIONS or option COMBINATIONS, or only after THREE OR MORE calls on the same object (e.g. state that leaks across response/sensitivity/reset cycles, or between two objects that share something). Avoid repeating the mechanisms listed above." if round2 else "")
print(f"""You are testing how well a verification harness (which you cannot see) detects regressions in the open-source Python library pyMOTO (a modular topology-optimization framework: Signals, Modules, Networks, FE assembly, filters, linear solvers, optimizers). You work ONLY inside your own scratch git worktree of the repository at {wt} (already created, HEAD = current state). Never read or write anything under /verif or /repo, and do not look for other people's checks: your changes must be independent of them.

PROPERTY {pid} — "{p['title']}":
{p['statement']}
It is meant to hold {p['quantifier']['text']}.
Code it is anchored in: {', '.join(p['anchors']['files'])}.

YOUR TASK: produce TWO different, realistic source changes ("seeded defects") to the library code under {wt}/pymoto, each of which
  (a) BREAKS the property above (for some input / option combination / call sequence the statement covers),
  (b) still lets the repository's existing test suite pass exactly as before (the tests that pass on the unmodified tree must still pass; some tests fail already on the unmodified tree for environment reasons such as missing sympy — ignore those), and
  (c) needs something SPECIFIC to manifest: a particular option combination, an unusual but legitimate input (e.g. one-element-wide grid, complex data, block right-hand side, zero entry), a multi-step call sequence (second call on the same object, call after reset/update), or two cooperating sites that each look harmless alone. Do NOT make changes that ordinary use or the simplest call would expose at once, and do not make changes that merely crash on import. Prefer the kind of slip a maintainer could really make in a refactoring (wrong index/axis, stale cache not cleared, in-place mutation of an argument, wrong branch for one mode, dropped conjugate/transpose, off-by-one at a boundary, dtype promotion lost).
The two changes should use different mechanisms / code sites.
{EXTRA}

HOW TO WORK:
- Read the relevant code under {wt}/pymoto and the tests under {wt}/tests to see what the suite does NOT exercise.
- Run tests from inside the worktree so that the worktree's package is imported: `cd {wt} && OMP_NUM_THREADS=2 /venv/bin/python -m pytest -q -p no:cacheprovider --timeout=900 tests/<relevant files>`; before finishing run the whole suite once for each change (`tests/` takes ~2 min) and compare with the unmodified tree (record the set of failing tests before and after; they must be identical). The machine is shared and busy: be patient, do not run more than one pytest at a time.
- For each change write a small self-contained demonstration script {wt}/demo_<k>.py (k = 1, 2) that imports pymoto from the worktree (run it as `cd {wt} && /venv/bin/python demo_<k>.py`), exercises the specific situation, checks the property against an independent expectation computed in the script (plain numpy, not pymoto), prints what it observed, and exits with status 1 when the property is violated and 0 when it holds. It must exit 0 on the unmodified tree and 1 with your change applied.
- Save each change as a patch against HEAD containing ONLY library files (not the demo): with only change k applied in the worktree run `git -C {wt} diff -- pymoto > {wt}/patch_<k>.diff`, then `git -C {wt} checkout -- pymoto` before starting the next one. Leave the worktree with no change applied to pymoto/, and with the files patch_1.diff, patch_2.diff, demo_1.py, demo_2.py present in {wt}.
- Never `git commit`, never touch /repo or /verif, never `pkill -f`.

FINAL MESSAGE: for each change k: the file(s)/function(s) changed and the diff in a code block; what exactly it needs to manifest (inputs, options, call sequence); the output of the demo with and without the change; and the before/after lists of failing tests proving the suite is unchanged. If you could only produce one valid change, say so.""")
