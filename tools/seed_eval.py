#!/usr/bin/env python3
"""Confirm one seeded defect and run the checks against it.

usage: seed_eval.py <PROPERTY> <k> [--src /tmp/seed_<PROPERTY>] [--checks C01,C04,...] [--name label]

1. fresh scratch worktree of /repo HEAD (outside /repo and /verif); the demonstration must exit 0 there;
2. apply the patch; the demonstration must exit 1; the pinned suite must still pass all stable_pass tests;
3. run the quick check of the property (and any extra checks) with PMC_REPO pointing at the patched worktree;
4. keep patch.diff, demo.py and meta.json under /verif/seeded/<PROPERTY>-<k>/ ; remove the worktree.
"""
import argparse
import json
import os
import shutil
import subprocess
import sys
import time

ap = argparse.ArgumentParser()
ap.add_argument('prop')
ap.add_argument('k')
ap.add_argument('--src', default=None)
ap.add_argument('--checks', default=None)
ap.add_argument('--tier', default='quick')
ap.add_argument('--skip-suite', action='store_true')
ap.add_argument('--tag', default='', help='prefix of the seed number in the output directory, e.g. r2- for round 2')
a = ap.parse_args()
src = a.src or f'/tmp/seed_{a.prop}'
patch = os.path.join(src, f'patch_{a.k}.diff')
demo = os.path.join(src, f'demo_{a.k}.py')
assert os.path.exists(patch) and os.path.exists(demo), (patch, demo)
wt = f'/tmp/ev_{a.prop}_{a.tag}{a.k}'
subprocess.run(['git', '-C', '/repo', 'worktree', 'remove', '--force', wt], capture_output=True)
subprocess.run(['git', '-C', '/repo', 'worktree', 'add', '--detach', wt, 'HEAD', '-q'], check=True)
head = subprocess.check_output(['git', '-C', '/repo', 'rev-parse', '--short', 'HEAD'], text=True).strip()
env = dict(os.environ, OMP_NUM_THREADS='2', PYTHONDONTWRITEBYTECODE='1', MPLBACKEND='Agg')
env.pop('PYTHONPATH', None)
meta = {'property': a.prop, 'k': a.k, 'repo_head': head, 'when': time.strftime('%Y-%m-%d %H:%M')}
try:
    # demonstrations must import pymoto from the directory they are run in: a hard-coded path to the seeding worktree is
    # replaced by the script's own directory
    txt = open(demo).read()
    if src in txt:
        txt = 'import os as _os\n' + txt.replace(f"'{src}'", "_os.path.dirname(_os.path.abspath(__file__))").replace(
            f'"{src}"', "_os.path.dirname(_os.path.abspath(__file__))")
    demo_txt = txt
    open(os.path.join(wt, 'demo.py'), 'w').write(txt)

    def run_demo():
        r = subprocess.run(['/venv/bin/python', 'demo.py'], cwd=wt, env=env, capture_output=True, text=True, timeout=1800)
        return r.returncode, (r.stdout + r.stderr)[-1500:]
    rc0, out0 = run_demo()
    meta['demo_unmodified_exit'] = rc0
    r = subprocess.run(['git', '-C', wt, 'apply', patch], capture_output=True, text=True)
    if r.returncode != 0:
        print('PATCH DOES NOT APPLY', r.stderr)
        meta['applies'] = False
        sys.exit(2)
    meta['applies'] = True
    meta['files'] = subprocess.check_output(['git', '-C', wt, 'diff', '--stat', '--', 'pymoto'], text=True).strip().splitlines()
    rc1, out1 = run_demo()
    meta['demo_patched_exit'] = rc1
    meta['demo_patched_output_tail'] = out1[-600:]
    print(f'demo: unmodified exit={rc0}, patched exit={rc1}')
    if not a.skip_suite:
        r = subprocess.run(['/verif/tools/baseline.py', wt], capture_output=True, text=True)
        meta['suite'] = r.stdout.strip().splitlines()[-3:]
        meta['suite_ok'] = r.returncode == 0
        print('suite:', meta['suite'])
    checks = (a.checks.split(',') if a.checks else [a.prop])
    meta['checks'] = {}
    for cid in checks:
        t0 = time.time()
        r = subprocess.run(['./check', cid, '--tier', a.tier], cwd='/verif', capture_output=True, text=True,
                           env=dict(os.environ, PMC_REPO=wt, PMC_OUT='/tmp/pmc_out'))
        lines = r.stdout.strip().splitlines()
        sigs = [ln.strip()[len('signature='):] for ln in lines if ln.strip().startswith('signature=')]
        meta['checks'][cid] = {'exit': r.returncode, 'tier': a.tier, 'violations': sum(ln.startswith('VIOLATION') for ln in lines),
                               'signatures': sigs[:6], 'wall_s': round(time.time() - t0, 1),
                               'summary': lines[0][:300] if lines else ''}
        print(f'check {cid}: exit={r.returncode} violations={meta["checks"][cid]["violations"]}', *sigs[:3], sep='\n    ')
    valid = rc0 == 0 and rc1 != 0 and meta.get('suite_ok', True)
    meta['valid_seed'] = valid
    meta['caught_by'] = [c for c, v in meta['checks'].items() if v['exit'] == 1]
    out = f'/verif/seeded/{a.prop}-{a.tag}{a.k}'
    os.makedirs(out, exist_ok=True)
    shutil.copy(patch, os.path.join(out, 'patch.diff'))
    open(os.path.join(out, 'demo.py'), 'w').write(demo_txt)
    prev = {}
    mp = os.path.join(out, 'meta.json')
    if os.path.exists(mp):
        prev = json.load(open(mp))
    for k_ in ('breaks', 'needs', 'source') + (('suite', 'suite_ok') if a.skip_suite else ()):
        if k_ in prev:
            meta[k_] = prev[k_]
    if 'checks' in prev:
        merged = dict(prev['checks'])
        merged.update(meta['checks'])
        meta['checks'] = merged
        meta['caught_by'] = [c for c, v in merged.items() if v['exit'] == 1]
    json.dump(meta, open(mp, 'w'), indent=1)
    print('valid seed:', valid, '| caught by:', meta['caught_by'])
finally:
    subprocess.run(['git', '-C', '/repo', 'worktree', 'remove', '--force', wt], capture_output=True)
