#!/usr/bin/env python3
"""Offline tool (never run by a check): list the inputs at which a known finding occurs on the current tree, for the
'inputs_file' of its entry in known_findings.json.

usage: kf_inputs.py <PROPERTY> <key=value of the signature> <out.json> [--tier quick|thorough] [--seeds 0,1,2]
The result is MERGED into out.json (sorted, unique).  Review the diff before committing: every new input has to be the
same defect as the entry describes."""
import argparse
import json
import os
import subprocess

ap = argparse.ArgumentParser()
ap.add_argument('prop')
ap.add_argument('match')
ap.add_argument('out')
ap.add_argument('--tier', default='quick')
ap.add_argument('--seeds', default='0,1,2')
a = ap.parse_args()
k, v = a.match.split('=', 1)
found = set()
if os.path.exists(a.out):
    found = set(json.load(open(a.out)))
n0 = len(found)
for seed in a.seeds.split(','):
    env = dict(os.environ, PMC_NO_KNOWN='1', PMC_LIST_SIGS='1', PMC_NO_RECHECK='1', PMC_OUT='/tmp/pmc_out',
               VERIF_SEED=seed)
    r = subprocess.run(['./check', a.prop, '--tier', a.tier], cwd='/verif', env=env, capture_output=True, text=True)
    for ln in r.stdout.splitlines():
        if ln.startswith('SIG '):
            sig = json.loads(ln[4:])
            if str(sig.get(k)) == v and 'input' in sig:
                found.add(sig['input'])
    print(f'seed {seed}: exit {r.returncode}, total inputs {len(found)}', flush=True)
json.dump(sorted(found), open(a.out, 'w'), indent=0)
print(f'{a.out}: {n0} -> {len(found)} inputs')
