#!/usr/bin/env python3
"""Run the pinned suite in <repo dir> (default /repo) and compare with BASELINE.json stable_pass.
usage: baseline.py [repo_dir] [pytest args...]   exit 0 iff every stable_pass test passed."""
import json, os, subprocess, sys, tempfile
import xml.etree.ElementTree as ET
repo = sys.argv[1] if len(sys.argv) > 1 else '/repo'
extra = sys.argv[2:]
base = json.load(open('/root/.vp/BASELINE.json'))
want = set(base['stable_pass'])
with tempfile.TemporaryDirectory() as td:
    xml = os.path.join(td, 'r.xml')
    env = dict(os.environ, OMP_NUM_THREADS='2', OPENBLAS_NUM_THREADS='2', PYTHONDONTWRITEBYTECODE='1')
    env.pop('PYTHONPATH', None)
    r = subprocess.run(['/venv/bin/python', '-m', 'pytest', '-q', '-p', 'no:cacheprovider', '--timeout=900',
                        '--continue-on-collection-errors', f'--junitxml={xml}'] + extra, cwd=repo, env=env,
                       capture_output=True, text=True)
    passed = set()
    for tc in ET.parse(xml).getroot().iter('testcase'):
        ok = not any(ch.tag in ('failure', 'error', 'skipped') for ch in tc)
        if ok:
            passed.add(f"{tc.get('classname')}::{tc.get('name')}")
missing = sorted(want - passed)
if extra:
    sel = {t for t in want if any(t.startswith(os.path.splitext(a)[0].replace('/', '.')) for a in extra)}
    missing = sorted(sel - passed)
    print(f"stable_pass selected={len(sel)} passed={len(sel)-len(missing)}")
else:
    print(f"stable_pass={len(want)} passed={len(want)-len(missing)} (all passing tests: {len(passed)})")
for m in missing:
    print("  NOT PASSING:", m)
sys.exit(1 if missing else 0)
