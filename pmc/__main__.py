import os
import sys
import argparse


def main():
    ap = argparse.ArgumentParser(prog='check')
    ap.add_argument('property')
    ap.add_argument('--tier', choices=['quick', 'thorough'], default=None)
    ap.add_argument('--replay', default=None)
    ap.add_argument('--quiet', action='store_true')
    ap.add_argument('--nproc', type=int, default=None)
    a = ap.parse_args()
    pid = a.property.upper()
    tier = a.tier or os.environ.get('VERIF_TIER', 'quick')
    if tier not in ('quick', 'thorough'):
        tier = 'quick'
    try:
        seed = int(os.environ.get('VERIF_SEED', '0'))
    except ValueError:
        seed = 0
    from pmc.engine import run
    if a.replay:
        sys.exit(run.replay(pid, a.replay, quiet=a.quiet))
    mod, col, info = run.run_property(pid, tier, seed, nproc=a.nproc)
    sys.exit(run.finish(pid, tier, seed, mod, col, info))


if __name__ == '__main__':
    main()
