"""The module lattice shared by C01 and C04: every entry is a JSON descriptor {'fam': ..., options...} from which
`build(desc, seed)` makes a Spec: how to construct a fresh module with its input signals at admissible base states,
which class-preserving perturbation directions each input has, which seeds each output gets, and whether the module is
linear (exact differences) or needs Richardson differences.  DESIGN.md section 4 (C01) lists the axes."""
import itertools
import numpy as np
import scipy.sparse as sps
from pmc.engine import values as val


# ---------------------------------------------------------------------------------------------------------------------
# generic helpers on states / sensitivities
# ---------------------------------------------------------------------------------------------------------------------
def is_pyscalar(x):
    return isinstance(x, (int, float, complex)) and not isinstance(x, (bool, np.generic))


def dense(x):
    """complex ndarray view of a state / sensitivity (None -> None)"""
    if x is None:
        return None
    if sps.issparse(x):
        return np.asarray(x.todense()).astype(complex)
    if hasattr(x, 'todense') and not isinstance(x, np.ndarray):
        return np.asarray(x.todense()).astype(complex)
    return np.asarray(x).astype(complex)


def snapshot(x):
    """(type name, shape, dtype kind, bytes) -- EXACT comparison of states"""
    if x is None:
        return ('None',)
    if sps.issparse(x):
        c = x.tocoo()
        order = np.lexsort((c.col, c.row))
        return ('sparse', x.format, x.shape, str(x.dtype), c.row[order].tobytes(), c.col[order].tobytes(),
                c.data[order].tobytes())
    if hasattr(x, 'u') and hasattr(x, 'v'):
        return ('dyad', tuple(x.shape), tuple(u.tobytes() for u in x.u), tuple(v.tobytes() for v in x.v))
    if is_pyscalar(x):
        return (type(x).__name__, repr(x))
    a = np.asarray(x)
    return (type(x).__name__, a.shape, str(a.dtype), a.tobytes())


def copy_obj(x):
    if x is None or is_pyscalar(x):
        return x
    if hasattr(x, 'copy'):
        return x.copy()
    return x


class Inp:
    """One input signal: base state and admissible directions (dense arrays / python numbers)."""

    def __init__(self, base, dirs=None, cplx_dirs=None, tag='x'):
        self.base = base
        self.tag = tag
        self.sparse = sps.issparse(base)
        self.pyscalar = is_pyscalar(base)
        self.iscomplex = np.iscomplexobj(base) if not self.sparse else np.iscomplexobj(base.data)
        if dirs is None:
            dirs = self.basis_dirs()
        self.dirs = dirs

    def basis_dirs(self):
        if self.pyscalar or np.ndim(self.base) == 0:
            d = [('re', 1.0)]
            if self.iscomplex:
                d.append(('im', 1j))
            return d
        shape = np.shape(self.base)
        out = []
        for idx in np.ndindex(*shape):
            e = np.zeros(shape)
            e[idx] = 1.0
            out.append((f're{list(idx)}', e))
            if self.iscomplex:
                out.append((f'im{list(idx)}', 1j * e))
        return out

    def fresh(self):
        return copy_obj(self.base)

    def perturbed(self, V, t):
        b = self.base
        if self.sparse:
            out = (b + t * sps.csr_matrix(V).astype(np.result_type(b.dtype, np.asarray(V).dtype))).asformat(b.format)
            return out
        if self.pyscalar:
            r = b + t * V
            if isinstance(b, float) and not isinstance(r, float):
                r = float(np.real(r))
            return r
        if isinstance(b, np.generic):
            return type(b)(b + t * V)
        return (b + t * np.asarray(V)).astype(np.asarray(b).dtype) if not np.iscomplexobj(V) or np.iscomplexobj(b) \
            else b + t * V

    @staticmethod
    def inner(g, V):
        """Re sum(g*V); g may be None, scalar, ndarray, sparse or dyadic"""
        if g is None:
            return 0.0
        G = dense(g)
        Vd = np.asarray(V).astype(complex)
        if G.shape != Vd.shape:
            if G.size == Vd.size:
                G = G.reshape(Vd.shape)
            else:
                raise ValueError(f'sensitivity shape {G.shape} does not match input shape {Vd.shape}')
        return float(np.real(np.sum(G * Vd)))


class Spec:
    def __init__(self, fam, make, inputs, linear=False, h=1e-3, freeze=None, iterative=False, extra_seeds=None,
                 seed_cap=48, note=None):
        self.fam = fam
        self.make = make              # () -> (module, [input signals], [output signals]); inputs at base state
        self.inputs = inputs          # [Inp]
        self.linear = linear
        self.h = h
        self.freeze = freeze
        self.iterative = iterative
        self.extra_seeds = extra_seeds  # (out_states) -> [(label, [seed obj|None per output], [dense equiv|None])]
        self.seed_cap = seed_cap
        self.note = note


def basis_seeds(out_states, cap):
    """every basis seed of every output (real and imaginary unit for complex outputs); one output at a time, the
    others stay None.  Outputs with more than `cap` entries get the first cap//2, the last cap//2 (declared cap)."""
    seeds = []
    nout = len(out_states)
    for k, y in enumerate(out_states):
        cplx = np.iscomplexobj(y) if not sps.issparse(y) else np.iscomplexobj(y.data)
        if sps.issparse(y):
            Y = np.asarray(y.todense())
            pos = [tuple(p) for p in np.argwhere(Y != 0)]
            zero = [tuple(p) for p in np.argwhere(Y == 0)][:2]
            if len(pos) > cap:
                pos = pos[:cap // 2] + pos[-cap // 2:]
            for p in pos + zero:
                for unit, nm in ((1.0, 're'), (1j, 'im')):
                    if nm == 'im' and not cplx:
                        continue
                    e = np.zeros(Y.shape, dtype=complex if nm == 'im' else float)
                    e[p] = unit
                    objs = [None] * nout
                    dens = [None] * nout
                    objs[k], dens[k] = e, e
                    seeds.append((f'out{k}:{nm}{list(p)}', objs, dens))
            continue
        if is_pyscalar(y) or np.ndim(y) == 0:
            for unit, nm in ((1.0, 're'), (1j, 'im')):
                if nm == 'im' and not cplx:
                    continue
                objs = [None] * nout
                dens = [None] * nout
                objs[k], dens[k] = unit, np.asarray(unit)
                seeds.append((f'out{k}:{nm}', objs, dens))
            continue
        shape = np.shape(y)
        idxs = list(np.ndindex(*shape))
        if len(idxs) > cap:
            idxs = idxs[:cap // 2] + idxs[-cap // 2:]
        for idx in idxs:
            for unit, nm in ((1.0, 're'), (1j, 'im')):
                if nm == 'im' and not cplx:
                    continue
                e = np.zeros(shape, dtype=complex if nm == 'im' else float)
                e[idx] = unit
                objs = [None] * nout
                dens = [None] * nout
                objs[k], dens[k] = e, e
                seeds.append((f'out{k}:{nm}{list(idx)}', objs, dens))
    # one dense generic seed on all outputs together
    objs, dens = [], []
    for k, y in enumerate(out_states):
        cplx = np.iscomplexobj(y) if not sps.issparse(y) else np.iscomplexobj(y.data)
        if is_pyscalar(y) or np.ndim(y) == 0:
            w = 0.7 + (0.4j if cplx else 0.0)
            objs.append(w if cplx else 0.7)
            dens.append(np.asarray(w if cplx else 0.7))
        else:
            shape = y.shape
            w = val.mat(int(np.prod(shape)), 1, 50 + k, 0, cplx).reshape(shape)
            objs.append(w)
            dens.append(w)
    seeds.append(('generic_all_outputs', objs, dens))
    return seeds


# ---------------------------------------------------------------------------------------------------------------------
# families
# ---------------------------------------------------------------------------------------------------------------------
def _pym():
    import pymoto as pym
    import pymoto.core_objects as co
    co.get_init_str = lambda: 'pmc'
    own_arpack()
    return pym


_ARPACK_OWNED = False


def own_arpack():
    """ARPACK draws its start vector from an internal random stream whose state depends on all earlier calls in the
    process; results then differ in the last bits from run to run.  The harness owns this nondeterminism by supplying a
    fixed generic start vector whenever the code under test does not pass one (patched from outside)."""
    global _ARPACK_OWNED
    if _ARPACK_OWNED:
        return
    import scipy.sparse.linalg as spsla
    for name in ('eigsh', 'eigs'):
        orig = getattr(spsla, name)

        def wrapped(A, *a, _orig=orig, **kw):
            if kw.get('v0') is None:
                n = A.shape[0]
                kw['v0'] = 0.5 + val.pos(n, 97, 0)
            return _orig(A, *a, **kw)
        setattr(spsla, name, wrapped)
    _ARPACK_OWNED = True


def _domain(d):
    pym = _pym()
    g = d['grid']
    s = d.get('size', [1.0, 1.0, 1.0])
    return pym.DomainDefinition(g[0], g[1], g[2], unitx=s[0], unity=s[1], unitz=s[2])


def _bc(dom, ndof, kind):
    if kind == 'none':
        return None
    if kind == 'one':
        return np.array([0])
    if kind == 'edge':
        nodes = dom.nodes[0, :, :].flatten()
        return np.sort(np.concatenate([nodes * ndof + k for k in range(ndof)]))
    raise KeyError(kind)


def _elmat(kind, en, seed):
    if kind == 'sym1':
        M = val.mat(en, en, 3, seed)
        return M + M.T + 2 * np.eye(en)
    if kind == 'nonsym2':
        return val.mat(2 * en, 2 * en, 4, seed) + 1.5 * np.eye(2 * en)
    if kind == 'cplx1':
        return val.mat(en, en, 5, seed, True) + 1.5 * np.eye(en)
    raise KeyError(kind)


def _dyad_seeds_for_matrix(n, cplx_out):
    def mk(out_states):
        from pymoto import DyadCarrier
        seeds = []
        e0 = np.zeros(n)
        e0[0] = 1.0
        e1 = np.zeros(n)
        e1[min(1, n - 1)] = 1.0
        el = np.zeros(n)
        el[n - 1] = 1.0
        cases = [('dyad_e0_e1', [e0], [e1]), ('dyad_el_e0', [el], [e0]),
                 ('dyad_generic2', [val.tab(n, 60), val.tab(n, 61)], [val.tab(n, 62), val.tab(n, 63)]),
                 ('dyad_complex', [val.ctab(n, 64)], [val.ctab(n, 65)]),
                 ('dyad_mixed', [val.tab(n, 66), val.ctab(n, 67)], [val.ctab(n, 68), val.tab(n, 69)])]
        for nm, us, vs in cases:
            d = DyadCarrier([u.copy() for u in us], [v.copy() for v in vs])
            dn = sum(np.outer(u, v) for u, v in zip(us, vs))
            seeds.append((nm, [d], [dn]))
        return seeds
    return mk


def fam_assemble(d, seed):
    pym = _pym()
    dom = _domain(d)
    fam = d['fam']
    mtype = {'csc': sps.csc_matrix, 'csr': sps.csr_matrix}[d.get('mtype', 'csc')]
    kw = dict(matrix_type=mtype)
    if fam == 'AssembleGeneral':
        em = _elmat(d['elmat'], dom.elemnodes, seed)
        ndof = em.shape[0] // dom.elemnodes
    elif fam == 'AssembleStiffness':
        ndof = dom.dim
        kw.update(e_modulus=d.get('E', 1.0), poisson_ratio=d.get('nu', 0.3), plane=d.get('plane', 'strain'))
    elif fam == 'AssembleMass':
        ndof = d.get('ndof', 1)
        kw.update(material_property=d.get('rho', 1.0), ndof=ndof)
    elif fam == 'AssemblePoisson':
        ndof = 1
        kw.update(material_property=d.get('kappa', 1.0))
    n = ndof * dom.nnodes
    bc = _bc(dom, ndof, d.get('bc', 'none'))
    if bc is not None:
        kw['bc'] = bc
    if d.get('bcdiag', 'default') != 'default':
        kw['bcdiagval'] = d['bcdiag']
    if d.get('const', 'none') == 'sparse':
        C = sps.csc_matrix(np.diag(val.pos(n, 7, seed)))
        C[0, n - 1] = 0.3
        kw['add_constant'] = mtype(C)
    x0 = val.pos(dom.nel, 8, seed)

    def make():
        sx = pym.Signal('x', x0.copy())
        if fam == 'AssembleGeneral':
            m = pym.AssembleGeneral(sx, pym.Signal('A'), dom, em, **kw)
        else:
            m = getattr(pym, fam)(sx, pym.Signal('A'), dom, **kw)
        return m, [sx], m.sig_out
    cplx = fam == 'AssembleGeneral' and d['elmat'] == 'cplx1'
    return Spec(fam, make, [Inp(x0)], linear=True, extra_seeds=_dyad_seeds_for_matrix(n, cplx), seed_cap=40)


def _opmat(shape, en, ndof, seed):
    k = en * ndof
    if shape == 'k':
        return val.tab(k, 9, seed)
    if shape == '2k':
        return val.mat(2, k, 10, seed)
    if shape == '22k':
        return val.tab(4 * k, 11, seed).reshape(2, 2, k)
    if shape == 'node':
        return val.tab(en, 12, seed)
    if shape == 'node2':
        return val.mat(2, en, 13, seed)
    raise KeyError(shape)


def fam_elemop(d, seed):
    pym = _pym()
    dom = _domain(d)
    fam = d['fam']
    ndof = d.get('ndof', dom.dim)
    if fam in ('Strain', 'Stress'):
        ndof = dom.dim
    u0 = val.tab(ndof * dom.nnodes, 14, seed)

    def make():
        su = pym.Signal('u', u0.copy())
        if fam == 'ElementOperation':
            shp = d['opshape']
            B = _opmat(shp, dom.elemnodes, 1 if shp.startswith('node') else ndof, seed)
            m = pym.ElementOperation(su, pym.Signal('y'), dom, B)
        elif fam == 'Strain':
            m = pym.Strain(su, pym.Signal('e'), dom, voigt=d.get('voigt', True))
        elif fam == 'Stress':
            m = pym.Stress(su, pym.Signal('s'), dom, e_modulus=d.get('E', 1.0), poisson_ratio=d.get('nu', 0.3),
                           plane=d.get('plane', 'strain'))
        elif fam == 'ElementAverage':
            m = pym.ElementAverage(su, pym.Signal('a'), dom)
        return m, [su], m.sig_out
    return Spec(fam, make, [Inp(u0)], linear=True)


def fam_nodalop(d, seed):
    pym = _pym()
    dom = _domain(d)
    fam = d['fam']
    if fam == 'NodalOperation':
        shp = d['opshape']
        ndof = d.get('ndof', 1)
        A = _opmat(shp, dom.elemnodes, ndof, seed)
        x0 = val.tab(dom.nel, 15, seed) if shp == 'k' else val.mat(2, dom.nel, 15, seed)
    else:
        x0 = val.tab(dom.nel, 15, seed)

    def make():
        sx = pym.Signal('x', x0.copy())
        if fam == 'NodalOperation':
            m = pym.NodalOperation(sx, pym.Signal('u'), dom, A)
        else:
            m = pym.ThermoMechanical(sx, pym.Signal('f'), dom, e_modulus=d.get('E', 1.0),
                                     poisson_ratio=d.get('nu', 0.3), alpha=d.get('alpha', 0.01),
                                     plane=d.get('plane', 'strain'))
        return m, [sx], m.sig_out
    return Spec(fam, make, [Inp(x0)], linear=True)


KERNELS = {
    'asym3x3': lambda: np.array([[0.05, 0.1, 0.0], [0.2, 0.3, 0.1], [0.0, 0.15, 0.1]]),
    'row3': lambda: np.array([[0.25], [0.5], [0.25]]),
    'asym3x1x3': lambda: np.array([[[0.1, 0.2, 0.0]], [[0.05, 0.3, 0.1]], [[0.0, 0.15, 0.1]]]),
    'col5': lambda: np.array([[0.1, 0.2, 0.4, 0.2, 0.1]]),
}
MODES = ['symmetric', 'edge', 'wrap', 0.0, 0.7]


def fam_filterconv(d, seed):
    pym = _pym()
    dom = _domain(d)
    kw = {}
    for nm, mode in zip(['xmin_bc', 'xmax_bc', 'ymin_bc', 'ymax_bc', 'zmin_bc', 'zmax_bc'], d['modes']):
        kw[nm] = mode
    if 'radius' in d:
        kw['radius'] = d['radius']
        kw['relative_units'] = d.get('relative', True)
    else:
        kw['weights'] = KERNELS[d['kernel']]()
    x0 = val.pos(dom.nel, 16, seed)

    def make():
        sx = pym.Signal('x', x0.copy())
        m = pym.FilterConv(sx, pym.Signal('y'), dom, **kw)
        return m, [sx], m.sig_out
    return Spec('FilterConv', make, [Inp(x0)], linear=True)


def fam_densityfilter(d, seed):
    pym = _pym()
    dom = _domain(d)
    kw = dict(radius=d['radius'])
    if d.get('nonpadding') == 'some':
        kw['nonpadding'] = np.arange(0, dom.nel, 2)
    x0 = val.pos(dom.nel, 17, seed)

    def make():
        sx = pym.Signal('x', x0.copy())
        m = pym.DensityFilter(sx, pym.Signal('y'), dom, **kw)
        return m, [sx], m.sig_out
    return Spec('DensityFilter', make, [Inp(x0)], linear=True)


def fam_overhang(d, seed):
    pym = _pym()
    dom = _domain(d)
    kw = dict(direction=d['direction'], xi_0=d.get('xi0', 0.5), p=d.get('p', 40.0), eps=d.get('eps', 1e-4))
    if 'nsampling' in d:
        kw['nsampling'] = d['nsampling']
    x0 = val.pos(dom.nel, 18, seed, 0.15, 0.9)

    def make():
        sx = pym.Signal('x', x0.copy())
        m = pym.OverhangFilter(sx, pym.Signal('y'), dom, **kw)
        return m, [sx], m.sig_out
    return Spec('OverhangFilter', make, [Inp(x0)], linear=False, h=2e-4)


def _shaped(kind, k, seed, cplx=False, positive=False):
    """values of kind 'py' (python scalar), 'np0' (numpy scalar), 'vec', 'mat'"""
    if kind in ('py', 'np0'):
        v = val.tab(1, k, seed)[0]
        if positive:
            v = abs(v) + 0.3
        if cplx:
            v = complex(v, val.tab(1, k + 3, seed)[0])
            return v if kind == 'py' else np.complex128(v)
        return float(v) if kind == 'py' else np.float64(v)
    n = 3 if kind == 'vec' else None
    if kind == 'vec':
        v = val.ctab(n, k, seed) if cplx else val.tab(n, k, seed)
    else:
        v = val.mat(2, 3, k, seed, cplx)
    if positive:
        v = np.abs(v.real) + 0.3 + (1j * v.imag if cplx else 0)
    return v


def fam_complex(d, seed):
    pym = _pym()
    fam, kind = d['fam'], d['shape']
    if fam == 'MakeComplex':
        a, b = _shaped(kind, 20, seed), _shaped(kind, 21, seed)
        ins = [Inp(a), Inp(b)]

        def make():
            s = [pym.Signal('x', copy_obj(a)), pym.Signal('y', copy_obj(b))]
            m = pym.MakeComplex(s, pym.Signal('z'))
            return m, s, m.sig_out
        return Spec(fam, make, ins, linear=True)
    z = _shaped(kind, 22, seed, cplx=True)
    if fam == 'ComplexNorm':
        # keep |z| >= 0.2 (differentiability margin)
        z = z + (0.5 + 0.5j) * np.sign(np.real(z) + 1e-9) if not is_pyscalar(z) else z + (0.6 + 0.6j)
        if is_pyscalar(z):
            z = complex(z)

    def make():
        s = [pym.Signal('z', copy_obj(z))]
        m = getattr(pym, fam)(s, pym.Signal('o'))
        return m, s, m.sig_out
    return Spec(fam, make, [Inp(z)], linear=(fam != 'ComplexNorm'), h=1e-3)


MATH_EXPR = {
    'mul': ('inp0*inp1', 2, False), 'sinmul': ('sin(inp0)*inp1', 2, False), 'sqadd': ('inp0^2+inp1', 2, False),
    'expdiv': ('exp(inp0)/inp1', 2, True), 'single': ('inp0^3', 1, False),
}


def fam_mathgeneral(d, seed):
    pym = _pym()
    expr, nin, pos2 = MATH_EXPR[d['expr']]
    cplx = d.get('complex', False)
    shapes = d['shapes']
    vals_ = []
    for i in range(nin):
        if shapes[i] == 'col':
            v = val.mat(3, 1, 25 + i, seed, cplx)
        elif shapes[i] == 'vec2d':
            v = val.mat(2, 3, 25 + i, seed, cplx)
        else:
            v = _shaped(shapes[i], 25 + i, seed, cplx, positive=(pos2 and i == 1))
        vals_.append(v)

    def make():
        s = [pym.Signal(f'q{i}', copy_obj(v)) for i, v in enumerate(vals_)]
        m = pym.MathGeneral(s, pym.Signal('o'), expression=expr)
        return m, s, m.sig_out
    return Spec('MathGeneral', make, [Inp(v) for v in vals_], linear=False, h=1e-3)


EINSUM = {
    'sum': ('i->', ['v']), 'elemmul': ('i,i->i', ['v', 'v']), 'dot': ('i,i->', ['v', 'v']),
    'outer': ('i,j->ij', ['v', 'w']), 'trace': ('ii->', ['S']), 'matvec': ('ij,j->i', ['A', 'v']),
    'quad': ('i,ij,j->', ['v', 'S', 'v2']), 'matmul_el': ('ij,ij->ij', ['A', 'B']),
    'transmul': ('ji,ij->ij', ['At', 'B']), 'proj': ('ji,jk,kl->il', ['V', 'S', 'V2']),
    'matmat': ('ij,jk->ik', ['A', 'V']), 'transpose': ('ij->ji', ['A']), 'sumall': ('ij->', ['A']),
}


def _ein_operand(code, k, seed, cplx):
    if code in ('v', 'v2'):
        return val.ctab(3, k, seed) if cplx else val.tab(3, k, seed)
    if code == 'w':
        return val.ctab(2, k, seed) if cplx else val.tab(2, k, seed)
    if code == 'S':
        return val.mat(3, 3, k, seed, cplx)
    if code in ('A', 'B'):
        return val.mat(2, 3, k, seed, cplx)
    if code == 'At':
        return val.mat(3, 2, k, seed, cplx)
    if code in ('V', 'V2'):
        return val.mat(3, 2, k, seed, cplx)
    raise KeyError(code)


def fam_einsum(d, seed):
    pym = _pym()
    expr, ops = EINSUM[d['expr']]
    kinds = d['kinds']    # per operand 'r' or 'c'
    vals_ = [_ein_operand(c, 30 + i, seed, kinds[i] == 'c') for i, c in enumerate(ops)]

    same = d.get('same')     # the same Signal object used for the first and the last operand (b^T A b, v.v)

    def make():
        s = [pym.Signal(f'a{i}', v.copy()) for i, v in enumerate(vals_)]
        if same:
            m = pym.EinSum(s[:-1] + [s[0]], pym.Signal('o'), expression=expr)
            return m, s[:-1], m.sig_out
        m = pym.EinSum(s, pym.Signal('o'), expression=expr)
        return m, s, m.sig_out
    return Spec('EinSum', make, [Inp(v) for v in (vals_[:-1] if same else vals_)], linear=False, h=1e-3)


def fam_concat(d, seed):
    pym = _pym()
    vals_ = [_shaped(k, 35 + i, seed) for i, k in enumerate(d['shapes'])]

    def make():
        s = [pym.Signal(f'c{i}', copy_obj(v)) for i, v in enumerate(vals_)]
        m = pym.ConcatSignal(s, pym.Signal('o'))
        return m, s, m.sig_out
    return Spec('ConcatSignal', make, [Inp(v) for v in vals_], linear=True)


def fam_aggregation(d, seed):
    pym = _pym()
    fam = d['fam']
    n = d.get('n', 5)
    x0 = val.pos(n, 40, seed, 0.3, 1.7)
    if d.get('shape') == 'mat':          # a matrix-shaped input (e.g. the (#components x #elements) output of Stress)
        x0 = x0.reshape(2, n // 2)
    par = d['param']

    def mk_as():
        a = d.get('active', 'none')
        if a == 'none':
            return None
        if a == 'band':
            return pym.AggActiveSet(lower_rel=0.2, upper_rel=0.9)
        if a == 'counts':
            return pym.AggActiveSet(lower_amt=0.25, upper_amt=0.75)
        raise KeyError(a)

    def mk_sc():
        s = d.get('scaling', 'none')
        if s == 'none':
            return None
        return pym.AggScaling(s, damping=d.get('damping', 0.0))

    def make():
        sx = pym.Signal('x', x0.copy())
        kw = dict(scaling=mk_sc(), active_set=mk_as())
        if fam == 'PNorm':
            m = pym.PNorm(sx, pym.Signal('y'), p=par, **kw)
        elif fam == 'SoftMinMax':
            m = pym.SoftMinMax(sx, pym.Signal('y'), alpha=par, **kw)
        else:
            m = pym.KSFunction(sx, pym.Signal('y'), rho=par, **kw)
        if d.get('warm'):
            # damped scaling has a memory: the module has already seen another input, so its scaling factor differs from
            # the ratio at the input it is evaluated at afterwards
            sx.state = val.pos(n, 41, seed, 0.5, 2.5).reshape(x0.shape)
            m.response()
            sx.state = x0.copy()
        return m, [sx], m.sig_out

    def freeze(m):
        if m.scaling is not None:
            sf = m.sf
            m.scaling = lambda x, fx: sf
    # admissibility of the active set under the difference step is checked by the caller through `margin`
    sp = Spec(fam, make, [Inp(x0)], linear=False, h=1e-3, freeze=freeze)
    sp.active = d.get('active', 'none')
    sp.response_has_memory = bool(d.get('damping'))    # a repeated response() changes the output (documented damping)
    return sp


def fam_scaling(d, seed):
    pym = _pym()
    kind = d['shape']
    x0 = _shaped(kind, 45, seed, positive=True)
    kw = dict(scaling=d.get('scaling', 10.0))
    if d['mode'] == 'minval':
        kw['minval'] = 0.7
    elif d['mode'] == 'maxval':
        kw['maxval'] = 1.3

    def make():
        sx = pym.Signal('x', copy_obj(x0))
        m = pym.Scaling(sx, pym.Signal('y'), **kw)
        return m, [sx], m.sig_out
    # the first-value normalisation is by design not differentiated: numerics run on the module after its first response
    return Spec('Scaling', make, [Inp(x0)], linear=False, h=1e-3)


FAMILIES = {
    'AssembleGeneral': fam_assemble, 'AssembleStiffness': fam_assemble, 'AssembleMass': fam_assemble,
    'AssemblePoisson': fam_assemble,
    'ElementOperation': fam_elemop, 'Strain': fam_elemop, 'Stress': fam_elemop, 'ElementAverage': fam_elemop,
    'NodalOperation': fam_nodalop, 'ThermoMechanical': fam_nodalop,
    'FilterConv': fam_filterconv, 'DensityFilter': fam_densityfilter, 'OverhangFilter': fam_overhang,
    'MakeComplex': fam_complex, 'RealPart': fam_complex, 'ImagPart': fam_complex, 'ComplexNorm': fam_complex,
    'MathGeneral': fam_mathgeneral, 'EinSum': fam_einsum, 'ConcatSignal': fam_concat,
    'PNorm': fam_aggregation, 'SoftMinMax': fam_aggregation, 'KSFunction': fam_aggregation, 'Scaling': fam_scaling,
}


def build(desc, seed=0):
    fam = desc['fam']
    if fam in FAMILIES:
        return FAMILIES[fam](desc, seed)
    from pmc import modspecs_linalg
    return modspecs_linalg.FAMILIES[fam](desc, seed)


# ---------------------------------------------------------------------------------------------------------------------
# the lattice
# ---------------------------------------------------------------------------------------------------------------------
def lattice(tier, seed):
    """yields descriptors, simplest first"""
    q = tier == 'quick'
    grids2 = [[1, 1, 0], [2, 1, 0]] + ([] if q else [[2, 2, 0], [3, 2, 0]])
    grids3 = [[1, 1, 1]] + ([] if q else [[2, 1, 2], [2, 2, 1]])
    sizes = [[1.0, 1.0, 1.0], [0.5, 1.5, 0.8]]
    # --- assembly
    for g in grids2 + grids3:
        for elmat in ('sym1', 'nonsym2', 'cplx1'):
            for bc, bcdiag in (('none', 'default'), ('one', 'default'), ('edge', 1.0), ('one', 0.0)):
                for const in ('none', 'sparse'):
                    for mt in ('csc', 'csr'):
                        if q and (mt == 'csr') != (const == 'sparse'):
                            continue
                        yield dict(fam='AssembleGeneral', grid=g, size=sizes[1], elmat=elmat, bc=bc, bcdiag=bcdiag,
                                   const=const, mtype=mt)
    for g in grids2 + grids3:
        for sz in sizes:
            for bc in ('none', 'edge'):
                if g[2] == 0:
                    for plane in ('strain', 'stress'):
                        yield dict(fam='AssembleStiffness', grid=g, size=sz, plane=plane, E=2.5, nu=0.3, bc=bc)
                else:
                    yield dict(fam='AssembleStiffness', grid=g, size=sz, E=2.5, nu=0.3, bc=bc)
                for ndof in (1, 3 if g[2] else 2):
                    yield dict(fam='AssembleMass', grid=g, size=sz, ndof=ndof, rho=1.7, bc=bc,
                               bcdiag=1.0 if bc != 'none' else 'default')
                yield dict(fam='AssemblePoisson', grid=g, size=sz, kappa=0.8, bc=bc)
    # --- element / nodal operations
    for g in grids2 + grids3:
        dim = 3 if g[2] else 2
        for sz in sizes[:1] if q else sizes:
            for ndof in (1, 2, 3):
                for shp in ('k', '2k', '22k', 'node', 'node2'):
                    yield dict(fam='ElementOperation', grid=g, size=sz, ndof=ndof, opshape=shp)
                yield dict(fam='ElementAverage', grid=g, size=sz, ndof=ndof)
            for voigt in (True, False):
                yield dict(fam='Strain', grid=g, size=sz, voigt=voigt)
            for plane in (('strain', 'stress') if dim == 2 else ('strain',)):
                yield dict(fam='Stress', grid=g, size=sz, plane=plane, E=2.0, nu=0.25)
                yield dict(fam='ThermoMechanical', grid=g, size=sz, plane=plane, E=2.0, nu=0.25, alpha=0.01)
            for ndof in (1, 2):
                for shp in ('k', '2k'):
                    yield dict(fam='NodalOperation', grid=g, size=sz, ndof=ndof, opshape=shp)
    # --- filters
    fgrids = [[2, 2, 0], [3, 2, 0]] + ([] if q else [[4, 3, 0], [1, 3, 0]])
    for g in fgrids:
        tuples = list(itertools.product(MODES, repeat=4)) if (g == [2, 2, 0] or not q) else \
            [(a, a, b, b) for a in MODES for b in MODES]
        if not q and g != [2, 2, 0]:
            tuples = [(a, b, c, d_) for (a, b, c, d_) in tuples if (MODES.index(a) + 2 * MODES.index(b) +
                                                                     3 * MODES.index(c) + 4 * MODES.index(d_)) % 5 == 0]
        for t in tuples:
            if isinstance(t[0], float) and isinstance(t[2], float) and t[0] != t[2]:
                pass
            yield dict(fam='FilterConv', grid=g, kernel='asym3x3', modes=list(t) + ['symmetric', 'symmetric'])
        for r in (1.5, 2.5):
            for modes in (['symmetric'] * 6, ['edge', 'wrap', 0.0, 'symmetric', 'symmetric', 'symmetric']):
                yield dict(fam='FilterConv', grid=g, size=sizes[1], radius=r, relative=(r == 1.5), modes=modes)
    for g in ([[2, 1, 2]] if q else [[2, 1, 2], [2, 2, 2]]):
        for t in ([(a, b, 'symmetric', 'symmetric', c, d_) for a in MODES for b in MODES for c in MODES for d_ in MODES]
                  if not q else [(a, b, 'edge', 0.7, b, a) for a in MODES for b in MODES]):
            yield dict(fam='FilterConv', grid=g, kernel='asym3x1x3', modes=list(t))
        yield dict(fam='FilterConv', grid=g, radius=1.5, modes=['symmetric'] * 6)
    for g in fgrids + [[2, 1, 2]]:
        for r in (0.5, 1.5, 2.5):
            for npad in ('none', 'some'):
                yield dict(fam='DensityFilter', grid=g, radius=r, nonpadding=npad)
    ogrids2 = [[2, 2, 0], [3, 2, 0], [1, 3, 0], [3, 1, 0]] + ([] if q else [[3, 3, 0]])
    ogrids3 = [[2, 2, 2]] + ([] if q else [[3, 2, 2], [1, 2, 2], [2, 2, 1]])
    params = [(0.5, 40.0, 1e-4), (0.3, 20.0, 1e-3)]
    for g in ogrids2:
        for dr in ([1, 0], [-1, 0], [0, 1], [0, -1]):
            for (xi0, p, eps) in params:
                yield dict(fam='OverhangFilter', grid=g, direction=dr, xi0=xi0, p=p, eps=eps)
    for g in ogrids3:
        for dr in ([1, 0, 0], [-1, 0, 0], [0, 1, 0], [0, -1, 0], [0, 0, 1], [0, 0, -1]):
            for ns in (5, 9):
                for (xi0, p, eps) in params[:1] if q else params:
                    yield dict(fam='OverhangFilter', grid=g, direction=dr, nsampling=ns, xi0=xi0, p=p, eps=eps)
    # --- complex
    for fam in ('MakeComplex', 'RealPart', 'ImagPart', 'ComplexNorm'):
        for shp in ('py', 'np0', 'vec', 'mat'):
            yield dict(fam=fam, shape=shp)
    # --- generic
    for ex, (_, nin, _) in MATH_EXPR.items():
        shape_sets = [['py'] * nin, ['np0'] * nin, ['vec'] * nin, (['vec', 'py'] if nin == 2 else ['vec2d']),
                      (['py', 'vec'] if nin == 2 else ['col'])]
        if nin == 2:
            shape_sets.append(['col', 'vec'])
        for ss in shape_sets:
            for cplx in (False, True):
                yield dict(fam='MathGeneral', expr=ex, shapes=ss[:nin], complex=cplx)
    for ex, (_, ops) in EINSUM.items():
        for kinds in itertools.product('rc', repeat=len(ops)):
            yield dict(fam='EinSum', expr=ex, kinds=list(kinds))
    for ex in ('quad', 'dot', 'elemmul'):
        for kinds in itertools.product('rc', repeat=len(EINSUM[ex][1]) - 1):
            yield dict(fam='EinSum', expr=ex, kinds=list(kinds) + [kinds[0]], same=True)
    for shapes in (['py', 'py'], ['vec', 'py'], ['py', 'vec', 'np0'], ['vec', 'vec'], ['np0', 'vec']):
        yield dict(fam='ConcatSignal', shapes=shapes)
    # --- aggregation / scaling
    for fam, pars in (('PNorm', (2, 3, 8, -2)), ('SoftMinMax', (2.0, -3.0)), ('KSFunction', (2.0, -3.0))):
        for par in pars:
            for sc in ('none', 'min', 'max'):
                for act in ('none', 'band', 'counts'):
                    yield dict(fam=fam, param=par, scaling=sc, active=act, n=6)
    for fam, pars in (('PNorm', (3, -2)), ('SoftMinMax', (2.0, -3.0)), ('KSFunction', (2.0, -3.0))):
        for par in pars:
            yield dict(fam=fam, param=par, scaling='max' if par > 0 else 'min', active='none', n=6, damping=0.5, warm=True)
            for act in ('none', 'band'):
                for sc in ('none', 'max' if par > 0 else 'min'):
                    yield dict(fam=fam, param=par, scaling=sc, active=act, n=6, shape='mat')
    for mode in ('objective', 'minval', 'maxval'):
        for shp in ('py', 'np0', 'vec'):
            yield dict(fam='Scaling', mode=mode, shape=shp)
    # --- linear algebra
    from pmc import modspecs_linalg
    yield from modspecs_linalg.lattice(tier, seed)
