"""Linear-algebra part of the module lattice (Inverse, LinSolve, SystemOfEquations, StaticCondensation, EigenSolve).
Matrix inputs are perturbed only inside the class the module has detected / was told (DESIGN.md 3.1)."""
import itertools
import numpy as np
import scipy.sparse as sps
from pmc.engine import values as val
from pmc.modspecs import Spec, Inp, _pym, copy_obj


# ---- matrix classes --------------------------------------------------------------------------------------------------
def matrix(cls, n, seed, k=0):
    R = val.mat(n, n, 70 + k, seed)
    C = val.mat(n, n, 71 + k, seed, True)
    alt = np.where(np.arange(n) % 2 == 0, 2.0, -2.0)
    if cls == 'gen_r':
        return R + 0.9 * n * np.eye(n)
    if cls == 'gen_c':
        return C + 0.9 * n * np.eye(n)
    if cls == 'spd':
        return R @ R.T + n * np.eye(n)
    if cls == 'sym_indef':
        return R + R.T + np.diag(alt)
    if cls == 'hpd':
        return C @ C.conj().T + n * np.eye(n)
    if cls == 'herm_indef':
        return C + C.conj().T + np.diag(alt)
    if cls == 'csym':
        return C + C.T + (2 + 0.5j) * np.eye(n)
    if cls == 'tri_lower':
        return np.tril(R) + 2 * np.eye(n)
    if cls == 'tri_upper_c':
        return np.triu(C) + 2 * np.eye(n)
    if cls == 'decoupled':
        A = R + 0.9 * n * np.eye(n)
        A[0, 1:] = 0
        A[1:, 0] = 0
        return A
    if cls == 'decoupled_c':      # complex, neither symmetric nor Hermitian, one uncoupled dof with a non-real diagonal entry
        A = C + (0.9 * n + 0.7j) * np.eye(n)
        A[0, 1:] = 0
        A[1:, 0] = 0
        return A
    if cls == 'decoupled_sym':
        A = R @ R.T + n * np.eye(n)
        A[n - 1, :n - 1] = 0
        A[:n - 1, n - 1] = 0
        return A
    raise KeyError(cls)


def class_dirs(cls, n, pattern=None):
    """class-preserving basis directions (dense arrays); pattern: boolean mask restricting to stored entries"""
    def allowed(i, j):
        return pattern is None or (pattern[i, j] and pattern[j, i])
    out = []

    def E(i, j, v=1.0):
        e = np.zeros((n, n), dtype=complex if isinstance(v, complex) else float)
        e[i, j] = v
        return e
    sym = cls in ('spd', 'sym_indef', 'decoupled_sym')
    herm = cls in ('hpd', 'herm_indef')
    if sym:
        for i in range(n):
            for j in range(i, n):
                if allowed(i, j):
                    out.append((f's{i}{j}', E(i, j) + (E(j, i) if i != j else 0)))
    elif herm:
        for i in range(n):
            for j in range(i, n):
                if not allowed(i, j):
                    continue
                out.append((f'hr{i}{j}', (E(i, j) + (E(j, i) if i != j else 0)).astype(complex)))
                if i != j:
                    out.append((f'hi{i}{j}', E(i, j, 1j) + E(j, i, -1j)))
    elif cls == 'csym':
        for i in range(n):
            for j in range(i, n):
                if not allowed(i, j):
                    continue
                S = E(i, j) + (E(j, i) if i != j else 0)
                out.append((f'cr{i}{j}', S.astype(complex)))
                out.append((f'ci{i}{j}', 1j * S))
    else:
        cplx = cls in ('gen_c', 'tri_upper_c', 'decoupled_c')
        for i in range(n):
            for j in range(n):
                if pattern is not None and not pattern[i, j]:
                    continue
                out.append((f'g{i}{j}', E(i, j).astype(complex) if cplx else E(i, j)))
                if cplx:
                    out.append((f'gi{i}{j}', E(i, j, 1j)))
    return out


def rhs(shape, n, seed, cplx):
    if shape == 'vec':
        return val.ctab(n, 80, seed) if cplx else val.tab(n, 80, seed)
    if shape == 'col':
        return val.mat(n, 1, 81, seed, cplx)
    if shape == 'blk':
        return val.mat(n, 2, 82, seed, cplx)
    raise KeyError(shape)


def solver_obj(name):
    import pymoto.solvers as ps
    if name == 'auto':
        return None
    if name == 'lu':
        return ps.SolverDenseLU()
    if name == 'qr':
        return ps.SolverDenseQR()
    if name == 'splu':
        return ps.SolverSparseLU()
    if name == 'cg_sor':
        return ps.CG(preconditioner=ps.SOR(w=1.0), tol=1e-12)
    if name == 'cg':
        return ps.CG(tol=1e-12)
    raise KeyError(name)


def fam_inverse(d, seed):
    pym = _pym()
    n = d.get('n', 3)
    A = matrix(d['cls'], n, seed)

    def make():
        s = pym.Signal('A', A.copy())
        m = pym.Inverse(s, pym.Signal('B'))
        return m, [s], m.sig_out
    # Inverse uses np.linalg.inv (no class detection): all directions are admissible
    cplx = np.iscomplexobj(A)
    return Spec('Inverse', make, [Inp(A, class_dirs('gen_c' if cplx else 'gen_r', n))], linear=False, h=1e-3)


def fam_linsolve(d, seed):
    pym = _pym()
    n = d.get('n', 3)
    cls = d['cls']
    A = matrix(cls, n, seed)
    sparse = d.get('storage', 'dense') != 'dense'
    if sparse:
        A_in = {'csc': sps.csc_matrix, 'csr': sps.csr_matrix}[d['storage']](A)
        pattern = A != 0
    else:
        A_in = A
        pattern = None
    b = rhs(d.get('rhs', 'vec'), n, seed, d.get('rhs_complex', False) is True)
    if d.get('rhs_complex') == 'dtype_only':
        b = b.astype(complex)       # a complex-typed load that (currently) holds real values only
    kw = {}
    if d.get('flags') == 'given':
        herm = bool(np.allclose(A, A.conj().T))
        symm = bool(np.allclose(A, A.T))
        kw.update(hermitian=herm, symmetric=symm)
    lda = d.get('lda', True)

    def make():
        sA = pym.Signal('A', A_in.copy())
        sb = pym.Signal('b', b.copy())
        slv = solver_obj(d.get('solver', 'auto'))
        m = pym.LinSolve([sA, sb], pym.Signal('x'), solver=slv, **kw)
        m.use_lda_solver = lda
        return m, [sA, sb], m.sig_out
    dirs = class_dirs(cls, n, pattern)
    if d.get('solver', 'auto') in ('lu', 'qr', 'splu') and d.get('flags') != 'given':
        pass
    iterative = d.get('solver', 'auto').startswith('cg')
    return Spec('LinSolve', make, [Inp(A_in, dirs), Inp(b)], linear=False, h=1e-3, iterative=iterative)


def partitions(n):
    """every split of range(n) into non-empty free / prescribed"""
    for r in range(1, n):
        for free in itertools.combinations(range(n), r):
            yield list(free), [i for i in range(n) if i not in free]


def fam_soe(d, seed):
    pym = _pym()
    n = d.get('n', 4)
    cls = d['cls']
    A = matrix(cls, n, seed)
    A_in = sps.csc_matrix(A)
    free, pres = np.array(d['free']), np.array(d['prescribed'])
    blk = d.get('rhs', 'vec')
    bf = rhs(blk, len(free), seed, False)
    xp = rhs(blk, len(pres), seed + 1, False) if True else None
    given = d.get('given', 'both')
    kw = {}
    if given in ('both', 'free'):
        kw['free'] = free
    if given in ('both', 'prescribed'):
        kw['prescribed'] = pres

    def make():
        s = [pym.Signal('A', A_in.copy()), pym.Signal('bf', bf.copy()), pym.Signal('xp', xp.copy())]
        m = pym.SystemOfEquations(s, [pym.Signal('x'), pym.Signal('b')], **kw)
        return m, s, m.sig_out
    return Spec('SystemOfEquations', make, [Inp(A_in, class_dirs(cls, n, A != 0)), Inp(bf), Inp(xp)], linear=False,
                h=1e-3)


def fam_statcond(d, seed):
    pym = _pym()
    n = d.get('n', 4)
    cls = d['cls']
    A = matrix(cls, n, seed)
    A_in = sps.csc_matrix(A)
    main, free = np.array(d['main']), np.array(d['free'])

    def make():
        s = [pym.Signal('A', A_in.copy())]
        m = pym.StaticCondensation(s, pym.Signal('Ared'), main=main, free=free)
        return m, s, m.sig_out

    def extra(out_states):
        from pymoto import DyadCarrier
        k = len(main)
        us, vs = [val.tab(k, 90), val.tab(k, 91)], [val.tab(k, 92), val.tab(k, 93)]
        dn = sum(np.outer(u, v) for u, v in zip(us, vs))
        return [('dyad_generic2', [DyadCarrier([u.copy() for u in us], [v.copy() for v in vs])], [dn])]
    return Spec('StaticCondensation', make, [Inp(A_in, class_dirs(cls, n, A != 0))], linear=False, h=1e-3,
                extra_seeds=extra)


def eig_matrix(cls, n, seed):
    """matrices with well separated simple spectrum"""
    lam = np.arange(1, n + 1) * 1.0 + val.tab(n, 95, seed) * 0.2
    if cls in ('sym', 'herm'):
        C = val.mat(n, n, 96, seed, cls == 'herm')
        Q, _ = np.linalg.qr(C)
        A = Q @ np.diag(lam) @ Q.conj().T
        return (A + A.conj().T) / 2
    if cls == 'gen_real_spec':
        V = val.mat(n, n, 97, seed) + 1.5 * np.eye(n)
        return V @ np.diag(lam) @ np.linalg.inv(V)
    if cls == 'gen_c':
        V = val.mat(n, n, 98, seed, True) + 1.5 * np.eye(n)
        lamc = lam + 1j * val.tab(n, 99, seed)
        return V @ np.diag(lamc) @ np.linalg.inv(V)
    raise KeyError(cls)


def fam_eig_dense(d, seed):
    pym = _pym()
    n = d.get('n', 3)
    cls = d['cls']
    A = eig_matrix(cls, n, seed)
    gen = d.get('generalized', False)
    ins = []
    dcls = {'sym': 'spd', 'herm': 'hpd', 'gen_real_spec': 'gen_r', 'gen_c': 'gen_c'}[cls]
    if gen and cls == 'gen_real_spec':
        # the class promises a REAL simple spectrum of the pencil (A, B): eig(B^-1 A) of a non-symmetric A with real
        # spectrum may contain a complex-conjugate pair (value table 3 did: 442 unconverged derivatives, order inside
        # the pair is not defined), so A := B (V diag(lam) V^-1) whose pencil has exactly the spectrum lam
        Rb = val.mat(n, n, 100, seed)
        A = (Rb @ Rb.T / n + np.eye(n)) @ A
    ins.append(Inp(A, class_dirs(dcls, n)))
    if gen:
        if cls == 'herm':
            Cb = val.mat(n, n, 100, seed, True)
            B = Cb @ Cb.conj().T / n + np.eye(n)
            bcls = 'hpd'
        else:
            Rb = val.mat(n, n, 100, seed)
            B = Rb @ Rb.T / n + np.eye(n)
            bcls = 'spd'
            if cls == 'gen_c':
                B = B.astype(complex)
                bcls = 'hpd'
        # for a general (non-Hermitian) problem scipy.linalg.eig reads all of B: any direction is admissible; for the
        # Hermitian path eigh reads one triangle: class-preserving directions only
        ins.append(Inp(B, class_dirs(bcls if cls in ('sym', 'herm') else ('gen_c' if np.iscomplexobj(B) else 'gen_r'), n)))

    def make():
        s = [pym.Signal('A', A.copy())] + ([pym.Signal('B', ins[1].base.copy())] if gen else [])
        m = pym.EigenSolve(s, [pym.Signal('lam'), pym.Signal('Q')])
        return m, s, m.sig_out
    sp = Spec('EigenSolve', make, ins, linear=False, h=1e-3)
    sp.margin = 'eig'
    return sp


def fam_eig_sparse(d, seed):
    pym = _pym()
    g = d['grid']
    dom = pym.DomainDefinition(g[0], g[1], g[2])
    ndof = dom.dim
    bc = np.sort(np.concatenate([dom.nodes[0, :, :].flatten() * ndof + k for k in range(ndof)]))
    x0 = val.pos(dom.nel, 101, seed, 0.5, 1.0)
    if d.get('xtab') == 'frac37':
        x0 = 0.3 + 0.7 * ((np.arange(dom.nel) * 0.37 + d.get('xshift', 0.0)) % 1.0)
    sK = pym.Signal('K')
    sM = pym.Signal('M')
    kbc = {} if d.get('kbc') == 'default' else dict(bcdiagval=1e3)
    pym.AssembleStiffness(pym.Signal('x', x0), sK, dom, bc=bc, **kbc).response()
    pym.AssembleMass(pym.Signal('x', x0), sM, dom, ndof=ndof, bc=bc, bcdiagval=1.0, material_property=1.0).response()
    K, M = sK.state, sM.state
    gen = d.get('generalized', True)
    nmodes = d.get('nmodes', 3)
    Kd = np.asarray(K.todense())
    Md = np.asarray(M.todense())
    ins = [Inp(K, class_dirs('spd', Kd.shape[0], Kd != 0))]
    if gen:
        ins.append(Inp(M, class_dirs('spd', Md.shape[0], Md != 0)))
    # too many directions for large patterns: declared cap -- every 5th class direction plus the first 10
    for inp in ins:
        if len(inp.dirs) > 40:
            inp.dirs = inp.dirs[:10] + inp.dirs[10::7]

    def make():
        s = [pym.Signal('K', K.copy())] + ([pym.Signal('M', M.copy())] if gen else [])
        m = pym.EigenSolve(s, [pym.Signal('lam'), pym.Signal('Q')], nmodes=nmodes, sigma=d.get('sigma', 0.0),
                           hermitian=True)
        return m, s, m.sig_out

    def extra(out_states):
        # sparse seeds on Q (one mode only)
        Q = out_states[1]
        w = np.zeros_like(Q)
        w[:, 0] = val.tab(Q.shape[0], 102)
        out = [('Q_one_mode', [None, w], [None, w])]
        # both outputs seeded in one call: eigenvalue of one mode together with the eigenvector of ANOTHER mode (the
        # eigenvector seed column of the first mode is exactly zero), and eigenvalues of all modes with one eigenvector
        lam = np.asarray(out_states[0])
        if lam.size >= 2:
            wl = np.zeros(lam.shape)
            wl[0] = 0.8
            wq = np.zeros_like(Q)
            wq[:, 1] = val.tab(Q.shape[0], 103)
            out.append(('lam0_and_Q_mode1', [wl, wq], [wl, wq]))
            wl2 = 0.3 + 0.5 * np.arange(lam.size)
            out.append(('all_lam_and_Q_mode1', [wl2, wq.copy()], [wl2, wq.copy()]))
        return out
    sp = Spec('EigenSolveSparse', make, ins, linear=False, h=1e-3, extra_seeds=extra, seed_cap=12)
    sp.margin = 'eig'
    return sp


FAMILIES = {'Inverse': fam_inverse, 'LinSolve': fam_linsolve, 'SystemOfEquations': fam_soe,
            'StaticCondensation': fam_statcond, 'EigenSolve': fam_eig_dense, 'EigenSolveSparse': fam_eig_sparse}

DENSE_CLASSES = ['gen_r', 'sym_indef', 'spd', 'gen_c', 'hpd', 'herm_indef', 'csym', 'tri_lower', 'tri_upper_c',
                 'decoupled', 'decoupled_sym', 'decoupled_c']


def lattice(tier, seed):
    q = tier == 'quick'
    for cls in DENSE_CLASSES:
        yield dict(fam='Inverse', cls=cls, n=3)
    for cls in DENSE_CLASSES:
        cplxA = cls in ('gen_c', 'hpd', 'herm_indef', 'csym', 'tri_upper_c', 'decoupled_c')
        for storage in ('dense', 'csc') + (() if q else ('csr',)):
            for shape in ('vec', 'col', 'blk'):
                for rc in (False, True):
                    if storage != 'dense' and rc and not cplxA:
                        continue   # documented TypeError: real sparse matrix with complex rhs
                    for flags in ('none', 'given'):
                        if q and flags == 'given' and shape != 'vec':
                            continue
                        yield dict(fam='LinSolve', cls=cls, n=3, storage=storage, rhs=shape, rhs_complex=rc,
                                   flags=flags)
        if cplxA:
            for storage in ('dense', 'csc'):
                for shape in ('vec', 'blk'):
                    yield dict(fam='LinSolve', cls=cls, n=3, storage=storage, rhs=shape, rhs_complex='dtype_only',
                               flags='none')
        for solver in ('lu', 'qr'):
            yield dict(fam='LinSolve', cls=cls, n=3, storage='dense', rhs='vec', rhs_complex=False, solver=solver)
        yield dict(fam='LinSolve', cls=cls, n=3, storage='csc', rhs='blk', rhs_complex=cplxA, solver='splu')
        yield dict(fam='LinSolve', cls=cls, n=4, storage='dense', rhs='blk', rhs_complex=cplxA, lda=False)
    for cls in ('spd', 'hpd'):
        for storage in ('dense', 'csc'):
            for solver in ('cg', 'cg_sor'):
                if solver == 'cg_sor' and storage == 'dense':
                    continue
                yield dict(fam='LinSolve', cls=cls, n=4, storage=storage, rhs='vec', rhs_complex=(cls == 'hpd'),
                           solver=solver)
    # SystemOfEquations / StaticCondensation (symmetric classes; unsymmetric A is the open finding KF-C07-2)
    for cls in ('spd', 'sym_indef'):
        for n in ((3,) if q else (3, 4)):
            for free, pres in partitions(n):
                for given in ('both',) if q else ('both', 'free', 'prescribed'):
                    for shape in ('vec', 'blk'):
                        yield dict(fam='SystemOfEquations', cls=cls, n=n, free=free, prescribed=pres, given=given,
                                   rhs=shape)
    for cls in ('spd', 'sym_indef'):
        n = 4
        for r in range(1, n):
            for main in itertools.combinations(range(n), r):
                rest = [i for i in range(n) if i not in main]
                for rf in range(1, len(rest) + 1):
                    for free in itertools.combinations(rest, rf):
                        if q and (len(free) != len(rest)) and r != 1:
                            continue
                        yield dict(fam='StaticCondensation', cls=cls, n=n, main=list(main), free=list(free))
    # unsymmetric A: every matrix class is in the quantifier of C01/C07
    for free, pres in [([0, 1], [2]), ([1], [0, 2])]:
        yield dict(fam='SystemOfEquations', cls='gen_r', n=3, free=free, prescribed=pres, given='both', rhs='vec')
    yield dict(fam='StaticCondensation', cls='gen_r', n=4, main=[0, 2], free=[1, 3])
    yield dict(fam='StaticCondensation', cls='gen_r', n=4, main=[1], free=[0, 3])
    for cls in ('sym', 'herm', 'gen_real_spec', 'gen_c'):
        for gen in (False, True):
            for n in ((3,) if q else (3, 4)):
                yield dict(fam='EigenSolve', cls=cls, n=n, generalized=gen)
    for g in ([[2, 2, 0]] if q else [[2, 2, 0], [3, 2, 0], [1, 1, 2]]):
        for gen in (True, False):
            yield dict(fam='EigenSolveSparse', grid=g, generalized=gen, nmodes=3, sigma=0.0)
    # inputs on which the singular adjoint system (A - lam B) hits an exactly singular LU factor
    for sh in (0.0, 23 * 0.113, 30 * 0.113):
        yield dict(fam='EigenSolveSparse', grid=[3, 2, 0], generalized=True, nmodes=3, sigma=0.0, xtab='frac37',
                   xshift=sh, kbc='default')
