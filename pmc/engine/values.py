"""Deterministic 'generic' value tables (no RNG): fractional parts of scaled square roots of primes."""
import numpy as np

_P = np.sqrt(np.array([2, 3, 5, 7, 11, 13, 17, 19, 23, 29, 31, 37, 41, 43, 47, 53, 59, 61, 67, 71, 73, 79, 83, 89, 97,
                       101, 103, 107, 109, 113, 127, 131, 137, 139, 149, 151, 157, 163, 167, 173, 179, 181, 191, 193,
                       197, 199, 211, 223, 227, 229, 233, 239, 241, 251, 257, 263, 269, 271, 277, 281.]))


def tab(n, k=0, seed=0):
    """n numbers in (-1, 1), deterministic in (k, seed); successive entries are unrelated."""
    idx = (np.arange(n) * 7 + k * 13 + seed * 29) % len(_P)
    mult = 1.0 + 0.618 * ((np.arange(n) // len(_P)) + k % 5)
    v = _P[idx] * mult
    return (v - np.floor(v)) * 2 - 1


def pos(n, k=0, seed=0, lo=0.2, hi=1.0):
    """n numbers in [lo, hi]"""
    return lo + (hi - lo) * (tab(n, k, seed) + 1) / 2


def ctab(n, k=0, seed=0):
    return tab(n, k, seed) + 1j * tab(n, k + 31, seed)


def mat(r, c, k=0, seed=0, cplx=False):
    m = tab(r * c, k, seed).reshape(r, c)
    if cplx:
        m = m + 1j * tab(r * c, k + 37, seed).reshape(r, c)
    return m
