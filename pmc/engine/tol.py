"""Tolerance classes of DESIGN.md section 3.2 (EXACT, ALG, SOLVER, DERIV)."""
import numpy as np
import scipy.sparse as sps


def dense(a):
    """Plain ndarray view of whatever a signal may hold (scalar, ndarray, sparse, DyadCarrier-like)."""
    if a is None:
        return None
    if sps.issparse(a):
        return np.asarray(a.todense())
    if hasattr(a, 'todense') and not isinstance(a, np.ndarray):
        return np.asarray(a.todense())
    return np.asarray(a)


def maxabs(*arrs):
    m = 0.0
    for a in arrs:
        if a is None:
            continue
        a = np.asarray(a)
        if a.size:
            v = np.max(np.abs(a))
            if not np.isfinite(v):
                return float('inf')
            m = max(m, float(v))
    return m


def exact_equal(a, b):
    """EXACT: same shape and bitwise equal values (NaN == NaN)."""
    a, b = np.asarray(a), np.asarray(b)
    if a.shape != b.shape:
        return False
    return bool(np.array_equal(a, b, equal_nan=True)) if a.dtype.kind in 'fc' and b.dtype.kind in 'fc' \
        else bool(np.array_equal(a, b))


def alg_err(a, b, scale=None):
    """Returns (err, bound) under the ALG class: |a-b| <= 1e-9*scale + 1e-12."""
    a, b = np.asarray(a), np.asarray(b)
    if a.shape != b.shape:
        try:
            a, b = np.broadcast_arrays(a, b)
        except ValueError:
            return float('inf'), 0.0
    if scale is None:
        scale = maxabs(a, b)
    if a.size == 0:
        return 0.0, 1e-12
    d = np.abs(a - b)
    err = float(np.max(d)) if np.all(np.isfinite(d)) else float('inf')
    return err, 1e-9 * scale + 1e-12


def alg_close(a, b, scale=None, factor=1.0):
    err, bound = alg_err(a, b, scale)
    return err <= factor * bound


def rel_residual(A, x, b, trans='N'):
    """max over columns of |op(A)x-b| / |b| with dense reference algebra; zero columns judged absolutely."""
    A = dense(A)
    op = {'N': A, 'T': A.T, 'H': A.conj().T}[trans]
    x = np.asarray(x)
    b = np.asarray(b)
    r = op @ x - b
    if r.ndim == 1:
        r = r[:, None]
        bb = b[:, None]
    else:
        bb = b
    rn = np.linalg.norm(r, axis=0)
    bn = np.linalg.norm(bb, axis=0)
    scale = np.where(bn == 0, 1.0, bn)
    v = rn / scale
    if not np.all(np.isfinite(v)):
        return float('inf')
    return float(np.max(v)) if v.size else 0.0


def kind(a):
    """'c' for complex-typed data, 'r' otherwise."""
    return 'c' if np.iscomplexobj(a) else 'r'


def q(x, digits=2):
    """Quantise a number for a signature (stable across value tables)."""
    try:
        x = float(x)
    except Exception:
        return str(x)
    if not np.isfinite(x):
        return 'inf'
    if x == 0:
        return '0'
    return f"{x:.{digits}g}"


def mag(x):
    """Order-of-magnitude bucket for signatures."""
    try:
        x = abs(float(x))
    except Exception:
        return 'na'
    if not np.isfinite(x):
        return 'inf'
    if x == 0:
        return '0'
    return f"1e{int(np.floor(np.log10(x)))}"
