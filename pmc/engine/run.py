"""Runner: shards case descriptors over long-lived workers, collects outcomes, matches known findings,
writes replay artefacts and the evidence file.  See DESIGN.md sections 2, 3.4, 3.5 and 7."""
import os
import sys
import json
import time
import hashlib
import signal
import traceback
import importlib
import subprocess
import multiprocessing as mp

VERIF = os.path.dirname(os.path.dirname(os.path.dirname(os.path.abspath(__file__))))
REPO_ROOT = os.path.realpath(os.environ.get('PMC_REPO', '/repo'))
REPO_PKG = os.path.join(REPO_ROOT, 'pymoto')
# PMC_OUT: where evidence/ and replays/ are written (mutant trials against a scratch worktree set it to a scratch dir,
# registered commands never set it)
OUT = os.environ.get('PMC_OUT', VERIF)
CASE_TIMEOUT_S = int(os.environ.get('PMC_CASE_TIMEOUT_S', '300'))


class CaseTimeout(BaseException):
    """not an Exception: a harness 'except Exception' around the code under test must not swallow it"""

    def __init__(self, where=None):
        super().__init__(where)
        self.where = where


def _alarm(signum, frame):
    # which code was running when the limit was reached: the innermost frame that belongs to the code under test
    where = None
    for f in [frame] + list(sys._current_frames().values()):   # some harnesses run the case in a helper thread
        while f is not None and where is None:
            fn = os.path.realpath(f.f_code.co_filename)
            if fn.startswith(REPO_PKG):
                where = f"{os.path.relpath(fn, REPO_PKG)}:{f.f_code.co_name}"
            f = f.f_back
    raise CaseTimeout(where)


def jdefault(o):
    import numpy as np
    if isinstance(o, np.ndarray):
        if o.dtype.kind == 'c':
            return {'re': o.real.tolist(), 'im': o.imag.tolist()}
        return o.tolist()
    if isinstance(o, (np.integer,)):
        return int(o)
    if isinstance(o, (np.floating,)):
        return float(o)
    if isinstance(o, (np.complexfloating, complex)):
        return {'re': float(o.real), 'im': float(o.imag)}
    if isinstance(o, (np.bool_,)):
        return bool(o)
    if isinstance(o, (set, frozenset)):
        return sorted(o)
    if isinstance(o, bytes):
        return o.hex()
    return repr(o)


def jdump(o, **kw):
    return json.dumps(o, default=jdefault, sort_keys=True, **kw)


def case_hash(case):
    return hashlib.sha1(jdump(case).encode()).hexdigest()[:16]


def classify_exception(exc):
    """Exception with a frame inside the code under test -> the code raised (a violation where the property
    promises completion); otherwise it is a harness error."""
    tb = traceback.extract_tb(exc.__traceback__)
    in_repo = [f for f in tb if f.filename.startswith(REPO_PKG)]
    if in_repo:
        f = in_repo[-1]
        return True, f"{os.path.relpath(f.filename, REPO_ROOT)}:{f.name}"
    return False, None


_MOD = None


def own_diagnostics():
    """pyMOTO walks inspect.stack() in every Signal/Module constructor to build a source-location string for error
    messages (0.3-6 ms per object, depending on stack depth). The string takes no part in any behaviour a property talks
    about; the harness replaces the helper by a constant (patched from outside, DESIGN.md 2.3)."""
    import pymoto.core_objects as co
    co.get_init_str = lambda: 'pmc'


def limit_memory():
    """a runaway allocation in the code under test becomes a MemoryError there (reported like any other exception raised
    by it) instead of exhausting the machine"""
    try:
        import resource
        lim = int(os.environ.get('PMC_MEM_GB', '12')) << 30
        resource.setrlimit(resource.RLIMIT_AS, (lim, lim))
    except Exception:  # noqa
        pass


def _init_worker(modname):
    global _MOD
    import warnings
    warnings.simplefilter('ignore')
    _MOD = importlib.import_module(modname)
    limit_memory()
    import pymoto
    assert os.path.realpath(pymoto.__file__).startswith(REPO_PKG), pymoto.__file__
    own_diagnostics()
    signal.signal(signal.SIGALRM, _alarm)


def normalise_outcome(out, case):
    out = dict(out or {})
    out.setdefault('states', 1)
    out.setdefault('transitions', 1)
    out.setdefault('checks', out['transitions'])
    out.setdefault('nontrivial', True)
    out.setdefault('key', None)
    out.setdefault('outcome', '')
    out.setdefault('skipped', None)
    out.setdefault('inconclusive', 0)
    out.setdefault('violations', [])
    out.setdefault('observed_only', [])
    for v in out['violations']:
        v.setdefault('case', case)
        v.setdefault('signature', {'check': v.get('check', '?')})
        v['signature'].setdefault('check', v.get('check', '?'))
        v.setdefault('detail', {})
    return out


def execute_guarded(mod, case):
    """Run mod.execute(case); uncaught exceptions are classified (code under test raised vs harness error)."""
    try:
        signal.setitimer(signal.ITIMER_REAL, CASE_TIMEOUT_S)
        try:
            out = mod.execute(case)
        finally:
            signal.setitimer(signal.ITIMER_REAL, 0)
        return normalise_outcome(out, case)
    except CaseTimeout as e:
        if e.where:
            # the code under test had not returned from one call after CASE_TIMEOUT_S seconds (cases take seconds at most)
            return normalise_outcome({'violations': [{
                'check': 'no_return', 'signature': {'check': 'no_return', 'where': e.where},
                'detail': {'limit_s': CASE_TIMEOUT_S, 'note': 'a call into the code under test did not return'}}]}, case)
        return normalise_outcome({'harness_error': f'case exceeded {CASE_TIMEOUT_S}s', 'violations': []}, case)
    except Exception as e:  # noqa
        in_repo, where = classify_exception(e)
        txt = ''.join(traceback.format_exception(type(e), e, e.__traceback__))[-3000:]
        if in_repo:
            return normalise_outcome({'violations': [{
                'check': 'raised', 'signature': {'check': 'raised', 'exc': type(e).__name__, 'where': where},
                'detail': {'traceback': txt}}]}, case)
        return normalise_outcome({'harness_error': txt, 'violations': []}, case)


def _work(item):
    idx, case = item
    t0 = time.perf_counter()
    out = execute_guarded(_MOD, case)
    out['_idx'] = idx
    out['_t'] = time.perf_counter() - t0
    # keep IPC small
    for v in out['violations'][3:]:
        v['detail'] = {'note': 'detail dropped (more than 3 violations in this case)'}
    return out


def load_known_findings(pid):
    path = os.path.join(VERIF, 'known_findings.json')
    if not os.path.exists(path) or os.environ.get('PMC_NO_KNOWN') == '1':   # knob of tools/kf_inputs.py only
        return []
    with open(path) as f:
        data = json.load(f)
    return [e for e in data.get('findings', []) if e.get('property') == pid and e.get('status') == 'open']


_INPUTS = {}


def entry_matches(entry, sig):
    """a known finding is identified by its signature (all listed keys equal) and, where the entry lists the failing
    inputs one by one ('inputs' or 'inputs_file', a committed JSON list), by the violation's 'input' being one of them:
    the same kind of failure at any other input is reported as a violation"""
    if not sig_matches(entry['signature'], sig):
        return False
    if 'inputs' in entry or 'inputs_file' in entry:
        key = entry['id']
        if key not in _INPUTS:
            vals = list(entry.get('inputs', []))
            if 'inputs_file' in entry:
                with open(os.path.join(VERIF, entry['inputs_file'])) as f:
                    vals += json.load(f)
            _INPUTS[key] = set(vals)
        return sig.get('input') in _INPUTS[key]
    return True


def sig_matches(entry_sig, sig):
    return all(str(sig.get(k)) == str(v) for k, v in entry_sig.items())


class Collector:
    def __init__(self, pid):
        self.pid = pid
        self.evaluations = 0
        self.states = 0
        self.traces = 0
        self.transitions = 0
        self.checks = 0
        self.keys = set()
        self.nontrivial_keys = set()
        self.outcomes = {}
        self.skipped = {}
        self.inconclusive = 0
        self.harness_errors = []
        self.violations = {}   # sigkey -> (idx, violation)
        self.nviol = 0
        self.samples = []
        self.observed_only = {}
        self.tsum = 0.0
        self.metrics = {}

    def add(self, out, case):
        self.evaluations += 1
        self.tsum += out.get('_t', 0.0)
        if 'harness_error' in out:
            if len(self.harness_errors) < 5:
                self.harness_errors.append({'case': case, 'error': out['harness_error']})
            else:
                self.harness_errors.append(None)
            return
        if out['skipped']:
            self.skipped[out['skipped']] = self.skipped.get(out['skipped'], 0) + 1
            return
        self.states += out['states']
        self.traces += out.get('traces', out['states'])
        self.transitions += out['transitions']
        self.checks += out['checks']
        self.inconclusive += out['inconclusive']
        key = out['key'] or case_hash(case)
        keys = key if isinstance(key, (list, tuple)) else [key]
        for k in keys:
            self.keys.add(k)
            if out['nontrivial']:
                self.nontrivial_keys.add(k)
        oc = out['outcome']
        for o in (oc if isinstance(oc, (list, tuple)) else [oc]):
            if len(self.outcomes) < 100000:
                self.outcomes[o] = self.outcomes.get(o, 0) + 1
        for mk, mv in (out.get('metrics') or {}).items():
            self.metrics[mk] = max(self.metrics.get(mk, mv), mv)
        for o in out['observed_only']:
            self.observed_only[o] = self.observed_only.get(o, 0) + 1
        for v in out['violations']:
            self.nviol += 1
            sk = jdump(v['signature'])
            idx = out.get('_idx', 0)
            if sk not in self.violations or idx < self.violations[sk][0]:
                self.violations[sk] = (idx, v)


def iter_levels(gen):
    """Split the descriptor stream into levels at {'__level__': name, 'count': n} markers."""
    level = {'name': 'all', 'count': None}
    buf = []
    for c in gen:
        if isinstance(c, dict) and '__level__' in c:
            if buf:
                yield level, buf
            level = {'name': c['__level__'], 'count': c.get('count')}
            buf = []
        else:
            buf.append(c)
    if buf:
        yield level, buf


def run_property(pid, tier, seed, nproc=None):
    modname = f'pmc.props.{pid.lower()}'
    mod = importlib.import_module(modname)
    import pymoto
    assert os.path.realpath(pymoto.__file__).startswith(REPO_PKG), f"pymoto imported from {pymoto.__file__}"
    nproc = nproc or int(os.environ.get('PMC_NPROC', str(min(16, os.cpu_count() or 1))))
    budget = float(os.environ.get('PMC_BUDGET_S', '600')) if tier == 'thorough' else float('inf')
    t0 = time.time()
    rdir = os.path.join(OUT, 'replays', pid)
    if os.path.isdir(rdir):
        for fn in os.listdir(rdir):
            if fn.endswith('.json'):
                os.remove(os.path.join(rdir, fn))
    col = Collector(pid)
    levels_done, levels_skipped = [], []
    sample_cases = []
    ctx = mp.get_context('fork')
    pool = ctx.Pool(nproc, initializer=_init_worker, initargs=(modname,)) if nproc > 1 else None
    if pool is None:
        _init_worker(modname)
    try:
        stop = False
        for level, cases in iter_levels(mod.generate(tier, seed)):
            if stop:
                levels_skipped.append({'level': level['name'], 'cases': len(cases)})
                continue
            n = len(cases)
            elapsed = time.time() - t0
            if levels_done and col.evaluations > 0:
                rate = col.tsum / col.evaluations  # cpu-seconds per case
                pred = n * rate / nproc
                if elapsed + pred > budget:
                    stop = True
                    levels_skipped.append({'level': level['name'], 'cases': n, 'predicted_s': round(pred, 1)})
                    continue
            tl = time.time()
            items = list(enumerate(cases, start=col.evaluations))
            if pool is not None:
                cs = max(1, min(32, n // (nproc * 8)))
                results = pool.imap_unordered(_work, items, chunksize=cs)
            else:
                results = map(_work, items)
            base = col.evaluations
            for out in results:
                col.add(out, cases[out['_idx'] - base])
            if cases:
                sample_cases.append(cases[0])
                if len(cases) > 1:
                    sample_cases.append(cases[-1])
            levels_done.append({'level': level['name'], 'cases': n, 'wall_s': round(time.time() - tl, 2)})
    finally:
        if pool is not None:
            pool.terminate()
            pool.join()
    wall = time.time() - t0
    return mod, col, dict(levels_done=levels_done, levels_skipped=levels_skipped, samples=sample_cases, wall=wall,
                          nproc=nproc)


def write_replay(pid, v):
    d = os.path.join(OUT, 'replays', pid)
    os.makedirs(d, exist_ok=True)
    body = {'property': pid, 'check': v.get('check'), 'signature': v['signature'], 'case': v['case'],
            'detail': v.get('detail', {})}
    h = hashlib.sha1(jdump({'s': v['signature'], 'c': v['case']}).encode()).hexdigest()[:16]
    path = os.path.join(d, h + '.json')
    with open(path, 'w') as f:
        f.write(jdump(body, indent=1))
    return path


def reproduce_in_fresh_process(pid, path):
    """Re-execute a replay file from a fresh interpreter; True if the same signature is reported again."""
    try:
        r = subprocess.run([sys.executable, '-m', 'pmc', pid, '--replay', path, '--quiet'], cwd=VERIF,
                           capture_output=True, text=True, timeout=CASE_TIMEOUT_S + 60)
        return r.returncode == 1
    except Exception:
        return False


def finish(pid, tier, seed, mod, col, info):
    known = load_known_findings(pid)
    hit = {}
    fresh = []
    for sk, (idx, v) in sorted(col.violations.items(), key=lambda kv: kv[1][0]):
        entry = next((e for e in known if entry_matches(e, v['signature'])), None)
        if entry is not None:
            hit.setdefault(entry['id'], (entry, v))
        else:
            fresh.append(v)
    lines = []
    for eid, (entry, v) in hit.items():
        lines.append(f"KNOWN-FINDING: property={pid} {entry['id']}: {entry['what']}")
    nondeterministic = 0
    replay_paths = []
    for v in fresh[:20]:
        path = write_replay(pid, v)
        replay_paths.append(path)
        if os.environ.get('PMC_NO_RECHECK') != '1' and len(replay_paths) <= 3:
            if not reproduce_in_fresh_process(pid, path):
                nondeterministic += 1
                lines.append(f"NONDETERMINISTIC: property={pid} replay={path} did not reproduce in a fresh process")
        lines.append(f"VIOLATION property={pid} replay={path}")
        lines.append(f"  signature={jdump(v['signature'])}")
    if len(fresh) > 20:
        lines.append(f"... {len(fresh) - 20} further distinct violation signatures not written as replay files")
    if os.environ.get('PMC_LIST_SIGS') == '1':
        for v in fresh:
            lines.append('SIG ' + jdump(v['signature']))
    for he in [h for h in col.harness_errors if h][:3]:
        lines.append(f"HARNESS-ERROR: property={pid} case={jdump(he['case'])[:400]}\n{he['error']}")

    bounds = mod.bounds(tier, seed) if hasattr(mod, 'bounds') else {}
    samples = [s for s in info['samples'][:6]]
    distinct_nontrivial = len(col.nontrivial_keys)
    coverage = {
        'states': max(col.states, 0),
        'transitions': max(col.transitions, 0),
        # every explored trace IS an execution of the implementation compared step by step with the reference
        'traces_validated_against_impl': col.traces,
        'samples': samples,
        'evaluations': col.evaluations,
        'distinct_nontrivial': distinct_nontrivial,
        'distinct_states_by_key': len(col.keys),
        'oracle_evaluations': col.checks,
        'rule': getattr(mod, 'RULE', ''),
        'exhaustive': not info['levels_skipped'],
        'bounds': bounds,
        'levels_completed': info['levels_done'],
        'levels_not_attempted': info['levels_skipped'],
        'capped': bool(info['levels_skipped']),
        'skipped_inadmissible': col.skipped,
        'inconclusive': col.inconclusive,
        'distinct_outcomes': len(col.outcomes),
        'observed_only': col.observed_only,
        'max_metrics': col.metrics,
        'known_findings_hit': sorted(hit.keys()),
        'violation_signatures': [v['signature'] for v in fresh[:20]],
        'harness_errors': len(col.harness_errors),
        'workers': info['nproc'],
    }
    ev = {
        'property_id': pid, 'tier': tier, 'seed': int(seed), 'level': 'model_checking',
        'coverage': coverage, 'assumptions': list(getattr(mod, 'ASSUMPTIONS', [])),
        'wall_s': round(info['wall'], 2), 'violations': len(fresh),
    }
    os.makedirs(os.path.join(OUT, 'evidence'), exist_ok=True)
    evpath = os.path.join(OUT, 'evidence', f'{pid}.json')
    txt = json.loads(jdump(ev))
    schema_error = None
    try:
        import jsonschema
        with open('/root/.vp/EVIDENCE.schema.json') as f:
            jsonschema.validate(txt, json.load(f))
    except (ImportError, FileNotFoundError):
        pass
    except Exception as e:  # noqa
        schema_error = str(e)[:500]
    with open(evpath, 'w') as f:
        json.dump(txt, f, indent=1, sort_keys=True)
        f.write('\n')

    print(f"[{pid}] tier={tier} seed={seed} evaluations={col.evaluations} states={col.states} "
          f"transitions={col.transitions} distinct_nontrivial={distinct_nontrivial} "
          f"distinct_outcomes={len(col.outcomes)} skipped={sum(col.skipped.values())} "
          f"inconclusive={col.inconclusive} violations={len(fresh)} known={len(hit)} "
          f"wall={info['wall']:.1f}s" + (f" CAPPED(levels not attempted: "
                                          f"{[l['level'] for l in info['levels_skipped']]})" if info['levels_skipped'] else ''))
    for ln in lines:
        print(ln)
    sys.stdout.flush()
    if schema_error:
        print(f"HARNESS-ERROR: property={pid} evidence does not validate: {schema_error}")
    if fresh or nondeterministic:
        return 1
    if schema_error:
        return 2
    if col.harness_errors:
        return 2
    if col.evaluations == 0 or col.states == 0:
        print(f"HARNESS-ERROR: property={pid} explored nothing")
        return 2
    max_inconclusive = 0.01 * max(col.checks, 1)
    if col.inconclusive > max_inconclusive:
        print(f"HARNESS-ERROR: property={pid} inconclusive={col.inconclusive} exceeds 1% of {col.checks}")
        return 2
    return 0


def replay(pid, path, quiet=False):
    mod = importlib.import_module(f'pmc.props.{pid.lower()}')
    _init_worker(f'pmc.props.{pid.lower()}')
    with open(path) as f:
        body = json.load(f)
    case = body['case'] if 'case' in body else body
    out = execute_guarded(mod, case)
    if 'harness_error' in out:
        print('HARNESS-ERROR during replay:\n' + out['harness_error'])
        return 2
    want = body.get('signature')
    vs = out['violations']
    same = [v for v in vs if want is None or jdump(v['signature']) == jdump(want)]
    if not quiet:
        print(f"replay {path}: {len(vs)} violation(s), {len(same)} with the recorded signature")
        for v in (same or vs)[:5]:
            print(' signature:', jdump(v['signature']))
            print(' detail   :', jdump(v.get('detail', {}))[:4000])
    if same or (want is None and vs):
        print(f"VIOLATION property={pid} replay={path}")
        return 1
    if vs and not quiet:
        print('(violations present, but none with the recorded signature)')
    return 1 if vs else 0
