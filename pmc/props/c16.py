"""C16 -- aggregations bound the true extreme; active sets select the requested band.

E1 lattice explorer for AggActiveSet (every vector of {a,b,c}^n incl. all ties + generic distinct-value tables, every
band x every pair of discarded fractions) and for the aggregation bounds (PNorm / KSFunction / SoftMinMax, both
parameter signs, with and without active set and undamped scaling); E2 stateless sequence explorer for AggScaling
(every sequence of response() calls over three input tables, replayed on FRESH modules with the reference
recurrence pmc.refs.agg.ScaleModel in lock-step, oracle after every call)."""
import itertools
import threading
import numpy as np
from pmc.refs import agg

PROPERTY = 'C16'
RULE = ("three explorers. (1) active set: n=1..N; all 3^n vectors over a three-level set (every tie pattern) for "
        "n<=Ntie plus three generic distinct-value tables per n; (lower_rel,upper_rel) x (lower_amt,upper_amt) full "
        "product; one AggActiveSet call per point, mask compared with the reference (band computed in exact rational "
        "arithmetic, minus SOME valid choice of the floor(n*f) lowest/highest entries). Non-trivial if the vector is "
        "not constant and at least one of the four options differs from its default; distinct by (vector, options). "
        "(2) aggregation: vector x module class x parameter (both signs) x active-set option x {no scaling, undamped "
        "AggScaling}; fresh module per point; non-trivial if the selected set has >=2 entries; distinct by (vector, "
        "class, parameter, option, scaling). (3) histories: every sequence of `depth` response() calls over 3 input "
        "tables x damping x class x sign x active-set option, fresh objects per sequence, oracle after every call; "
        "non-trivial if >=2 calls visit >=2 different tables; distinct by (configuration, sequence).")
RULE += " Extended in seeding rounds 6-7:  numeric admissibility by the largest term over the selected entries (soft minimum of widely spread data), vectors of 257..600 entries."
ASSUMPTIONS = [
    "first response(): AggScaling has no previous factor and starts with s_0 = true_0/approx_0 for every damping (read "
    "from AggScaling.__call__: `if self.sf is None: self.sf = scale`); the statement does not fix the initial value, "
    "so the first output equals the true extreme also with damping",
    "'approx' in the recurrence is the value of the same aggregation without scaling on the selected entries; it is "
    "measured on a fresh unscaled module of the code under test (so the recurrence check does not depend on the exact "
    "aggregation formula); disagreement of that value with the textbook formula is only reported as observed_only",
    "'true' is the maximum (which='max') or minimum (which='min') of the SELECTED entries; selections that are empty by "
    "the statement itself (a band that contains no entry) are inadmissible and not judged",
    "constant vectors (normalised value undefined, includes n=1): everything selected is accepted, and so is "
    "'everything minus the k lowest/highest' ",
    "ties at the cut: any choice of tied entries is accepted, independently for the lowest and the highest group",
    "entries whose exact normalised value is within 1e-12 of lower_rel/upper_rel (other than exactly on the edges "
    "0, 0.5, 1) are not judged; (n, fraction) pairs whose exact product is a non-zero integer while the fraction is "
    "not a binary fraction (5*0.4, 10*(1-0.9)) are inadmissible: 'rounded down' would be decided by the last bit",
    "numeric range: positive data whose LARGEST term exp(rho*x_i) resp. x_i^p over the selected entries lies in e^[-300, 300] (the sum neither overflows nor underflows to zero; smaller terms may vanish, so a soft minimum of widely spread data is inside the range); "
    "'exactly' for the undamped scaling means the ALG class 1e-9*scale+1e-12 ((t/a)*a is not bitwise t)",
    "AggActiveSet.__init__ asserts upper > lower for both pairs: other pairs are not generated",
]

CLASSES = {'PNorm': 'p', 'KSFunction': 'rho', 'SoftMinMax': 'alpha'}
DEFAULT_OPT = ['0', '1', '0', '1']
OPT_NAMES = ['lower_rel', 'upper_rel', 'lower_amt', 'upper_amt']

# active-set options used inside aggregation modules
ASET_OPTS = {
    'none': None,
    'default': ['0', '1', '0', '1'],
    'rel': ['0.2', '0.8', '0', '1'],
    'amt': ['0', '1', '0.25', '0.75'],
    'hi0': ['0', '1', '0', '0.9'],       # upper count floor(n*0.1) is zero for n < 10: must remove nothing
    'lo': ['0.2', '1', '0.125', '1'],
    'all': ['0.2', '0.8', '0.1', '0.875'],
}

# input-table triples of the history explorer: name -> list of vector specs (seed filled in at generation time)
def tabset(name, seed):
    ls = agg.POSITIVE_LEVELS[seed % len(agg.POSITIVE_LEVELS)]
    if name.startswith('n'):
        n = int(name[1:])
        return [['gen', k, n, seed] for k in range(3)]
    if name == 'mixed':
        return [['gen', 0, 2, seed], ['gen', 1, 5, seed], ['gen', 2, 3, seed]]
    if name == 'ties':
        return [['tie', ls, [0, 0, 1]], ['tie', ls, [1, 1, 1]], ['tie', ls, [2, 0, 2, 1]]]
    if name == 'scaled':
        return [['gen', 0, 4, seed, 0.25], ['gen', 1, 4, seed, 1.0], ['gen', 2, 4, seed, 4.0]]
    raise KeyError(name)


PARAMS = {
    'quick': {'PNorm': [1, 2, 8, -2, -8], 'KSFunction': [1.0, 5.0, -1.0, -5.0], 'SoftMinMax': [1.0, 5.0, -1.0, -5.0]},
    'thorough': {'PNorm': [0.5, 1, 2, 3, 8, 20, -0.5, -1, -2, -8, -20],
                 'KSFunction': [0.5, 1.0, 5.0, 30.0, -0.5, -1.0, -5.0, -30.0],
                 'SoftMinMax': [0.5, 1.0, 5.0, 30.0, -0.5, -1.0, -5.0, -30.0]},
}
HIST_PARAMS = {'PNorm': [4, -4], 'KSFunction': [3.0, -3.0], 'SoftMinMax': [3.0, -3.0]}

REL_LO, REL_HI = ['0', '0.2', '0.5'], ['0.5', '0.8', '1']
AMT_LO = {'quick': ['0', '0.1', '0.125', '0.25', '0.4'], 'thorough': ['0', '0.1', '0.125', '0.25', '0.4', '0.5']}
AMT_HI = {'quick': ['0.6', '0.75', '0.875', '0.9', '1'], 'thorough': ['0.5', '0.6', '0.75', '0.875', '0.9', '1']}


def bounds(tier, seed):
    ls = agg.POSITIVE_LEVELS[seed % len(agg.POSITIVE_LEVELS)]
    if tier == 'quick':
        return {'active_set': {'n': [1, 8], 'tie_vectors': f'all of {agg.LEVELS[ls]}^n for n<=5',
                               'distinct_tables_per_n': 3, 'lower_rel': REL_LO, 'upper_rel': REL_HI,
                               'lower_amt': AMT_LO['quick'], 'upper_amt': AMT_HI['quick']},
                'aggregation': {'n_generic': [1, 6], 'tie_vectors': 'n<=3', 'params': PARAMS['quick'],
                                'active_set_options': sorted(ASET_OPTS), 'scaling': ['none', 'undamped']},
                'histories': {'depth': 4, 'tables_per_set': 3, 'table_sets': ['n1', 'n3', 'mixed', 'ties'],
                              'damping': ['0', '0.3', '0.7'], 'params': HIST_PARAMS,
                              'active_set_options': ['none', 'amt', 'hi0']},
                'value_table_family': seed}
    return {'active_set': {'n': [1, 12], 'tie_vectors': f'all of {agg.LEVELS[ls]}^n for n<=7, of the other four '
                                                        f'positive level sets and a mixed-sign one for n<=5',
                           'distinct_tables_per_n': 3, 'lower_rel': REL_LO, 'upper_rel': REL_HI,
                           'lower_amt': AMT_LO['thorough'], 'upper_amt': AMT_HI['thorough']},
            'aggregation': {'n_generic': [1, 8], 'scales': [0.1, 1.0, 10.0], 'tie_vectors': 'n<=4',
                            'params': PARAMS['thorough'], 'active_set_options': sorted(ASET_OPTS),
                            'scaling': ['none', 'undamped']},
            'histories': {'depth': 'levels: 4 (damping 0/.3/.7, matched), 4 (damping .5/.9 and opposite which), 5',
                          'tables_per_set': 3,
                          'table_sets': ['n1', 'n2', 'n3', 'n5', 'mixed', 'ties', 'scaled'],
                          'damping': ['0', '0.3', '0.7', '0.5', '0.9'], 'params': HIST_PARAMS,
                          'which': ['matched', 'opposite'], 'active_set_options': ['none', 'amt', 'hi0', 'lo', 'rel']},
            'value_table_family': seed}


# --------------------------------------------------------------------------------------------------------------
# generation
# --------------------------------------------------------------------------------------------------------------
def rel_pairs():
    return [[a, b] for a in REL_LO for b in REL_HI if agg.FRACTIONS[b] > agg.FRACTIONS[a]]


def aset_cases(n, group, lo, hi, prefix_len=0):
    for pre in itertools.product(range(3), repeat=prefix_len if group[0] == 'tie' else 0):
        for rel in rel_pairs():
            c = {'kind': 'aset', 'n': n, 'vecs': group, 'rel': rel, 'lower_amts': lo, 'upper_amts': hi}
            if pre:
                c['prefix'] = list(pre)
            yield c


def agg_cases(n, group, tier):
    # cases of comparable cost: at most 9 tie vectors (leading digits fixed by 'prefix') or 3 generic vectors each
    if group[0] == 'tie':
        subs = [dict(vecs=group, prefix=list(pre)) if pre else dict(vecs=group)
                for pre in itertools.product(range(3), repeat=max(0, n - 2))]
    else:
        subs = [dict(vecs=group[:2] + [sc]) for sc in (group[2:] or [1.0])]
    for sub in subs:
        for cls in CLASSES:
            for opt in ASET_OPTS:
                yield dict({'kind': 'agg', 'n': n, 'cls': cls, 'params': PARAMS[tier][cls], 'aset': opt,
                            'scalings': ['none', 'undamped']}, **sub)


def hist_cases(depth, tabsets, dampings, opts, seed, whichs=('matched',)):
    for ts in tabsets:
        for cls in CLASSES:
            for prm in HIST_PARAMS[cls]:
                for opt in opts:
                    for wh in whichs:
                        for d in dampings:
                            yield {'kind': 'hist', 'cls': cls, 'param': prm, 'damping': d, 'tabset': ts,
                                   'tables': tabset(ts, seed), 'aset': opt, 'which': wh, 'depth': depth}


def generate(tier, seed):
    ls = agg.POSITIVE_LEVELS[seed % len(agg.POSITIVE_LEVELS)]
    lo, hi = AMT_LO[tier], AMT_HI[tier]
    yield {'__level__': 'active_set/n<=8'}
    for n in range(1, 9):
        if n <= 5:
            yield from aset_cases(n, ['tie', ls], lo, hi)
        yield from aset_cases(n, ['gen', seed], lo, hi)
    # value distributions: a tight cluster on a large offset and tiny magnitudes (the band is defined on the
    # normalised values, which are perfectly well defined for these)
    yield {'__level__': 'active_set/clustered_and_tiny_values'}
    for n in range(2, 9):
        yield from aset_cases(n, ['aff', seed, 1000.0, 1e-3], lo, hi)
        yield from aset_cases(n, ['aff', seed, 0.0, 1e-9], lo, hi)
    # long unsorted vectors (library sorting / partitioning routines switch algorithm with the length)
    yield {'__level__': 'active_set/long_vectors'}
    for n in (257, 600) if tier == 'quick' else (257, 300, 600):
        yield from aset_cases(n, ['gen', seed], lo, hi)
    yield {'__level__': 'aggregation_bounds'}
    nmax, ntie = (6, 3) if tier == 'quick' else (8, 4)
    # scale 200 spreads the data over several hundred: |alpha|*(max-min) far beyond the exp() range (SoftMinMax is
    # stated for all positive data; KS/PNorm points outside the naive exp/power range are skipped by agg.in_range)
    scales = [1.0, 200.0] if tier == 'quick' else [0.1, 1.0, 10.0, 200.0]
    for n in range(1, nmax + 1):
        if n <= ntie:
            yield from agg_cases(n, ['tie', ls], tier)
        yield from agg_cases(n, ['gen', seed] + scales, tier)
    yield {'__level__': 'scaling_histories/depth4'}
    if tier == 'quick':
        yield from hist_cases(4, ['n1', 'n3', 'mixed', 'ties'], ['0', '0.3', '0.7'], ['none', 'amt', 'hi0'], seed)
        return
    all_sets = ['n1', 'n2', 'n3', 'n5', 'mixed', 'ties', 'scaled']
    all_opts = ['none', 'amt', 'hi0', 'lo', 'rel']
    yield from hist_cases(4, all_sets, ['0', '0.3', '0.7'], all_opts, seed)
    yield {'__level__': 'active_set/other_level_sets_n<=5'}
    for name in agg.POSITIVE_LEVELS + ['LM']:
        if name == ls:
            continue
        for n in range(2, 6):
            yield from aset_cases(n, ['tie', name], lo, hi)
    yield {'__level__': 'active_set/generic_n9..12'}
    for n in range(9, 13):
        yield from aset_cases(n, ['gen', seed], lo, hi)
    yield {'__level__': 'active_set/ties_n6'}
    yield from aset_cases(6, ['tie', ls], lo, hi, prefix_len=1)
    yield {'__level__': 'scaling_histories/depth4/more_damping_and_opposite_which'}
    yield from hist_cases(4, all_sets, ['0.5', '0.9'], all_opts, seed)
    yield from hist_cases(4, all_sets, ['0', '0.3', '0.7', '0.5', '0.9'], all_opts, seed, whichs=('opposite',))
    yield {'__level__': 'active_set/ties_n7'}
    yield from aset_cases(7, ['tie', ls], lo, hi, prefix_len=2)
    yield {'__level__': 'scaling_histories/depth5'}
    yield from hist_cases(5, ['n3', 'mixed', 'ties'], ['0', '0.3', '0.7'], ['none', 'amt'], seed)


# --------------------------------------------------------------------------------------------------------------
# helpers shared by the three explorers
# --------------------------------------------------------------------------------------------------------------
def expand_vecs(case):
    """vector specs covered by a case (a narrowed case carries one explicit 'vec')"""
    if 'vec' in case:
        return [case['vec']]
    g, n = case['vecs'], case['n']
    if g[0] == 'tie':
        pre = tuple(case.get('prefix', []))
        return [['tie', g[1], list(pre + d)] for d in itertools.product(range(3), repeat=n - len(pre))]
    if g[0] == 'aff':
        return [['aff', k, n, g[1], g[2], g[3]] for k in range(3)]
    scales = g[2:] or [1.0]
    return [['gen', k, n, g[1], s] for s in scales for k in range(3)]


def make_aset(pym, opt):
    if opt is None:
        return None
    lr, ur, la, ua = (float(s) for s in opt)
    return pym.AggActiveSet(lower_rel=lr, upper_rel=ur, lower_amt=la, upper_amt=ua)


def opt_admissible(opt):
    f = agg.FRACTIONS
    return f[opt[1]] > f[opt[0]] and f[opt[3]] > f[opt[2]]


def judge_mask(pym, x, m, opt, vec=None, band_=False):
    """Compare what the active set returned with the reference.
    Returns ('inadmissible', None) | ('ok', mask list) | ('bad', violation)."""
    n = len(x)
    cnt = agg.counts(n, opt[2], opt[3])
    if cnt is None:
        return 'inadmissible', None
    kl, kh = cnt
    mask = agg.as_mask(m, n)
    if mask is None:
        return 'bad', {'check': 'active_set_mask', 'signature': {'check': 'active_set_mask', 'cause': 'not_a_bool_mask'},
                       'detail': {'x': x, 'options': dict(zip(OPT_NAMES, opt)), 'returned': repr(m)[:200]}}
    lr, ur = float(opt[0]), float(opt[1])
    if agg.mask_ok(x, mask, lr, ur, kl, kh, band_):
        return 'ok', mask
    # root cause: smallest subset of non-default options that still fails on the same vector
    active = [i for i in range(4) if opt[i] != DEFAULT_OPT[i]]
    found = (opt, mask, kl, kh)
    done = False
    for r in range(1, len(active)):
        for sub in itertools.combinations(active, r):
            o2 = [opt[i] if i in sub else DEFAULT_OPT[i] for i in range(4)]
            c2 = agg.counts(n, o2[2], o2[3])
            if c2 is None or not opt_admissible(o2):
                continue
            try:
                m2 = agg.as_mask(make_aset(pym, o2)(x.copy()), n)
            except Exception:  # noqa
                continue
            if m2 is not None and not agg.mask_ok(x, m2, float(o2[0]), float(o2[1]), c2[0], c2[1]):
                found = (o2, m2, c2[0], c2[1])
                done = True
                break
        if done:
            break
    o2, m2, kl2, kh2 = found
    feats = [OPT_NAMES[i] for i in range(4) if o2[i] != DEFAULT_OPT[i]]
    cause = agg.mask_diagnosis(x, m2, float(o2[0]), float(o2[1]), kl2, kh2)
    if ('lower_amt' in feats and kl2 == 0) or ('upper_amt' in feats and kh2 == 0):
        cause += '/count_rounds_to_zero'
    exp = next(iter(agg.valid_masks(x, float(o2[0]), float(o2[1]), kl2, kh2)))[0]
    v = {'check': 'active_set_mask',
         'signature': {'check': 'active_set_mask', 'feature': '+'.join(feats) or 'none', 'cause': cause},
         'detail': {'x': x, 'options': dict(zip(OPT_NAMES, o2)), 'n_lowest_to_drop': kl2, 'n_highest_to_drop': kh2,
                    'returned_mask': m2, 'one_valid_mask': exp, 'original_options': dict(zip(OPT_NAMES, opt))}}
    if vec is not None:
        v['case'] = {'kind': 'aset', 'vec': vec, 'rel': o2[:2], 'lower_amts': [o2[2]], 'upper_amts': [o2[3]]}
    return 'bad', v


def scalar(S):
    a = np.asarray(S)
    if a.size != 1 or a.dtype.kind not in 'fiu':
        return None
    return float(a.reshape(()))


def new_module(pym, cls, param, x, scaling=None, aset=None):
    sig = pym.Signal('x', np.array(x, dtype=float))
    kw = {CLASSES[cls]: param}
    if scaling is not None:
        kw['scaling'] = scaling
    if aset is not None:
        kw['active_set'] = aset
    return sig, getattr(pym, cls)(sig, **kw)


def unscaled_value(twin, xs):
    """'approx': the same aggregation with no scaling and no active set evaluated on the selected entries.  The twin
    (sig, module) is a measuring device built once per case: an unscaled aggregation keeps no history (its agreement
    with the textbook formula is monitored in explorer 2); constructing pyMOTO objects costs ~1-7 ms each."""
    twin[0].state = np.array(xs, dtype=float)
    twin[1].response()
    return scalar(twin[1].sig_out[0].state)


def respond(pym, m, x, opt, vec):
    """m.response() with the active-set verdict folded in.
    Returns (status, payload): 'ok' -> selected entries; 'inadmissible' -> reason; 'bad' -> violation."""
    err = None
    try:
        m.response()
    except Exception as e:  # noqa  -- judged below: is it the consequence of a wrong/empty selection?
        err = e
    if opt is None:
        if err is not None:
            raise err
        if getattr(m, 'select', Ellipsis) is not Ellipsis:
            return 'bad', {'check': 'select_without_active_set', 'signature': {'check': 'select_without_active_set'},
                           'detail': {'select': repr(m.select)[:200]}}
        return 'ok', x
    sel = m.select if err is None else make_aset(pym, opt)(x.copy())
    st, res = judge_mask(pym, x, sel, opt, vec)
    if st == 'inadmissible':
        return 'inadmissible', 'n*fraction_on_integer'
    if st == 'bad':
        return 'bad', res
    xs = x[np.array(res, dtype=bool)]
    if xs.size == 0:
        return 'inadmissible', 'band_contains_no_entry'
    if err is not None:
        raise err
    return 'ok', xs


def bound_violation(cls, param, xs, S, extra):
    lo, hi = agg.bounds(cls, param, xs)
    t = agg.tol(max(abs(lo), abs(hi), float(np.max(np.abs(xs)))))
    sign = 'pos' if param > 0 else 'neg'
    side = None
    if S is None or not np.isfinite(S):
        side = 'not_a_finite_scalar'
    elif S < lo - t:
        side = 'below_lower'
    elif S > hi + t:
        side = 'above_upper'
    if side is None:
        tight = 'tight_lo' if abs(S - lo) <= t else ('tight_hi' if abs(S - hi) <= t else 'interior')
        if abs(hi - lo) <= t:
            tight = 'collapsed'
        return None, tight
    # name the bound by its meaning: the true extreme, or the far bound (n^(1/p) ext, ext + ln n / rho, mean)
    ext_is_lower = (param > 0) if cls != 'SoftMinMax' else (param < 0)
    which_bound = side
    if side in ('below_lower', 'above_upper'):
        which_bound = 'true_extreme' if (side == 'below_lower') == ext_is_lower else 'far_bound'
    d = {'x_selected': xs, 'value': S, 'lower': lo, 'upper': hi, 'tol': t, CLASSES[cls]: param}
    d.update(extra)
    return {'check': 'bound', 'signature': {'check': 'bound', 'module': cls, 'sign': sign, 'crossed': which_bound},
            'detail': d}, side


# --------------------------------------------------------------------------------------------------------------
# explorer 1: active set
# --------------------------------------------------------------------------------------------------------------
def exec_aset(pym, case):
    V, obs, keys, outcomes = [], [], [], set()
    states = checks = 0
    rel = case['rel']
    for vec in expand_vecs(case):
        x = agg.vector(vec)
        if x.size > 1 and 0 < agg.min_gap(x) < 1e-6:
            obs.append('inadmissible:near_tie_in_generic_table')
            continue
        const = bool(np.max(x) == np.min(x))
        xband = agg.band(x, float(rel[0]), float(rel[1]))   # exact rational band, once per (vector, rel pair)
        for la in case['lower_amts']:
            for ua in case['upper_amts']:
                opt = [rel[0], rel[1], la, ua]
                if not opt_admissible(opt):
                    continue
                if agg.counts(len(x), la, ua) is None:
                    obs.append('inadmissible:n*fraction_on_integer')
                    continue
                xin = x.copy()
                m = make_aset(pym, opt)(xin)
                states += 1
                checks += 1
                st, res = judge_mask(pym, x, m, opt, vec, xband)
                if not np.array_equal(xin, x):
                    st, res = 'bad', {'check': 'active_set_mutates_input',
                                      'signature': {'check': 'active_set_mutates_input'}, 'detail': {'x': x, 'after': xin}}
                if st == 'bad':
                    res.setdefault('case', dict(case, vec=vec, lower_amts=[la], upper_amts=[ua]))
                    if not any(u['signature'] == res['signature'] for u in V):
                        V.append(res)
                    outcomes.add('bad')
                    continue
                kl, kh = agg.counts(len(x), la, ua)
                outcomes.add(f"n{len(x)}:sel{sum(res)}:lo{kl}:hi{kh}" + (':E' if m is Ellipsis else ''))
                if not const and opt != DEFAULT_OPT:
                    keys.append(f"A|{vec}|{opt}")
    return {'states': states, 'transitions': states, 'checks': checks, 'nontrivial': bool(keys),
            'key': keys or [f"A|trivial|{case.get('n')}|{case['vecs'] if 'vecs' in case else case['vec']}|{rel}"],
            'outcome': sorted(outcomes), 'observed_only': obs, 'violations': V,
            'skipped': None if states else 'no admissible (n, fraction) point in this case'}


# --------------------------------------------------------------------------------------------------------------
# explorer 2: aggregation bounds, undamped scaling (single call)
# --------------------------------------------------------------------------------------------------------------
def exec_agg(pym, case):
    V, obs, keys, outcomes = [], [], [], set()
    states = trans = checks = 0
    cls = case['cls']
    opt = ASET_OPTS[case['aset']]

    def add(v, vec, prm, sc):
        v.setdefault('case', dict(case, vec=vec, params=[prm], scalings=[sc]))
        if not any(u['signature'] == v['signature'] for u in V):
            V.append(v)
        outcomes.add('bad')

    for vec in expand_vecs(case):
        x = agg.vector(vec)
        if x.size > 1 and 0 < agg.min_gap(x) < 1e-6:
            obs.append('inadmissible:near_tie_in_generic_table')
            continue
        for prm in case['params']:
            if not agg.in_range(cls, prm, x):
                obs.append('inadmissible:outside_numeric_range')
                continue
            which = agg.which_of(prm)
            for sc in case['scalings']:
                scaling = pym.AggScaling(which, 0.0) if sc == 'undamped' else None
                sig, m = new_module(pym, cls, prm, x, scaling=scaling, aset=make_aset(pym, opt))
                st, xs = respond(pym, m, x, opt, vec)
                if st == 'inadmissible':
                    obs.append('inadmissible:' + xs)
                    continue
                if st != 'bad' and not agg.in_range(cls, prm, xs):       # the sums run over the selected entries
                    obs.append('inadmissible:outside_numeric_range')
                    continue
                states += 1
                trans += 1
                if st == 'bad':
                    add(xs, vec, prm, sc)
                    continue
                if not np.array_equal(sig.state, x):
                    add({'check': 'input_mutated', 'signature': {'check': 'input_mutated', 'module': cls},
                         'detail': {'x': x, 'after': sig.state}}, vec, prm, sc)
                    continue
                S = scalar(m.sig_out[0].state)
                checks += 1
                if sc == 'none':
                    v, tag = bound_violation(cls, prm, xs, S, {'x': x, 'active_set': opt})
                    if v is not None:
                        add(v, vec, prm, sc)
                        continue
                    ref = agg.formula(cls, prm, xs)
                    if abs(S - ref) > 1e-9 * max(abs(ref), 1.0):
                        obs.append(f'formula_differs:{cls}')
                    outcomes.add(f"{cls}:{'+' if prm > 0 else '-'}:{tag}")
                else:
                    true = agg.true_extreme(xs, which)
                    if S is None or not abs(S - true) <= agg.tol(true):
                        add({'check': 'undamped_exact',
                             'signature': {'check': 'undamped_exact', 'call': 'first'},
                             'detail': {'module': cls, 'x': x, 'x_selected': xs, 'value': S, 'true_extreme': true, 'which': which,
                                        CLASSES[cls]: prm, 'active_set': opt}}, vec, prm, sc)
                        continue
                    outcomes.add(f"{cls}:{'+' if prm > 0 else '-'}:scaled_exact")
                if xs.size >= 2:
                    keys.append(f"G|{vec}|{cls}|{prm}|{case['aset']}|{sc}")
    return {'states': states, 'transitions': trans, 'checks': checks, 'nontrivial': bool(keys),
            'key': keys or [f"G|trivial|{case.get('n')}|{cls}|{case['aset']}|{case.get('vecs', case.get('vec'))}"],
            'outcome': sorted(outcomes), 'observed_only': obs, 'violations': V,
            'skipped': None if states else 'no admissible point in this case'}


# --------------------------------------------------------------------------------------------------------------
# explorer 3: AggScaling histories
# --------------------------------------------------------------------------------------------------------------
def run_history(pym, case, seq, twin):
    """One sequence of response() calls on fresh objects.  Returns (ncalls, violation|None, tag, inadmissible)."""
    cls, prm, d = case['cls'], case['param'], case['damping']
    tabs = case['tables']
    opt = ASET_OPTS[case['aset']]
    which = agg.which_of(prm)
    if case.get('which', 'matched') == 'opposite':
        which = 'min' if which == 'max' else 'max'
    x0 = agg.vector(tabs[seq[0]])
    scaling = pym.AggScaling(which, float(d))
    sig, m = new_module(pym, cls, prm, x0, scaling=scaling, aset=make_aset(pym, opt))
    model = agg.ScaleModel(float(d))
    tag = []
    for k, t in enumerate(seq):
        x = agg.vector(tabs[t])
        if not agg.in_range(cls, prm, x):
            return k, None, 'range', 'outside_numeric_range'
        sig.state = x.copy()
        st, xs = respond(pym, m, x, opt, tabs[t])
        if st == 'inadmissible':
            return k, None, 'inadmissible', xs
        if st == 'bad':
            return k + 1, xs, 'bad', None
        if not agg.in_range(cls, prm, xs):
            return k, None, 'range', 'outside_numeric_range'
        approx = unscaled_value(twin, xs)
        true = agg.true_extreme(xs, which)
        s_prev = model.s
        s_ref = model.step(true, approx)
        S = scalar(m.sig_out[0].state)
        det = {'module': cls, 'sequence_of_tables': list(seq[:k + 1]), 'call': k, 'x': x, 'x_selected': xs, 'true': true,
               'approx_unscaled': approx, 'damping': float(d), 's_previous_reference': s_prev, 's_reference': s_ref,
               's_module': getattr(m, 'sf', None), 'output': S, 'expected_output': s_ref * approx, 'which': which}
        sig_call = 'first' if k == 0 else 'later'
        if float(d) == 0.0 and (S is None or not abs(S - true) <= agg.tol(true)):
            return k + 1, {'check': 'undamped_exact',
                           'signature': {'check': 'undamped_exact', 'call': sig_call},
                           'detail': det, 'case': dict(case, seq=list(seq[:k + 1]))}, 'bad', None
        ok_out = S is not None and abs(S - s_ref * approx) <= agg.tol(max(abs(true), abs(s_ref * approx)))
        sf = getattr(m, 'sf', None)
        ok_sf = sf is None or (scalar(sf) is not None and abs(scalar(sf) - s_ref) <= agg.tol(max(abs(s_ref), 1.0)))
        if not (ok_out and ok_sf):
            return k + 1, {'check': 'scale_recurrence',
                           'signature': {'check': 'scale_recurrence', 'call': sig_call,
                                         'damped': float(d) > 0, 'wrong': 'output' if not ok_out else 'sf_attribute'},
                           'detail': det, 'case': dict(case, seq=list(seq[:k + 1]))}, 'bad', None
        r = true / approx
        tag.append('=' if abs(s_ref - r) <= agg.tol(1.0) else ('>' if s_ref > r else '<'))
    return len(seq), None, f"{cls}:{d}:" + ''.join(tag), None


def exec_hist(pym, case):
    V, obs, keys, outcomes = [], [], [], set()
    if 'seq' in case:
        seqs = [tuple(case['seq'])]
    else:
        seqs = list(itertools.product(range(len(case['tables'])), repeat=case['depth']))
    trans = 0
    prefixes = set()
    twin = new_module(pym, case['cls'], case['param'], [1.0])
    for seq in seqs:
        n, v, tag, inad = run_history(pym, case, seq, twin)
        trans += n
        for k in range(1, n + 1):
            prefixes.add(seq[:k])
        outcomes.add(tag)
        if inad:
            obs.append('inadmissible:' + inad)
        if v is not None:
            v.setdefault('case', dict(case, seq=list(seq[:n])))
            if not any(u['signature'] == v['signature'] for u in V):
                V.append(v)
        elif n >= 2 and len(set(seq[:n])) >= 2:
            keys.append(f"H|{case['cls']}|{case['param']}|{case['damping']}|{case['tabset']}|{case['aset']}|"
                        f"{case.get('which', 'matched')}|{''.join(map(str, seq[:n]))}")
    return {'states': len(prefixes), 'transitions': trans, 'checks': trans, 'nontrivial': bool(keys),
            'key': keys or [f"H|trivial|{case['cls']}|{case['param']}|{case['damping']}|{case['tabset']}|{case['aset']}"],
            'outcome': sorted(outcomes), 'observed_only': obs, 'violations': V,
            'skipped': None if prefixes else 'no admissible call in this history family'}


def _on_fresh_thread(fn, *args):
    """Run fn(*args) on a new thread and hand back its result / re-raise its exception.
    Harness-side cost measure only: pyMOTO's Signal and Module constructors call inspect.stack(), whose cost grows with
    the depth of the calling stack (measured 5.8 ms per object below `python -m pmc` + the worker-pool frames, 0.3 ms
    on a thread that starts with an empty stack).  Nothing about the code under test changes; an exception keeps its
    traceback, so the runner still sees whether a frame inside the repository raised."""
    box = {}

    def run():
        try:
            box['out'] = fn(*args)
        except BaseException as e:  # noqa
            box['err'] = e
    th = threading.Thread(target=run, daemon=True)
    th.start()
    th.join()
    if 'err' in box:
        raise box['err']
    return box['out']


def execute(case):
    import pymoto as pym
    return _on_fresh_thread({'aset': exec_aset, 'agg': exec_agg, 'hist': exec_hist}[case['kind']], pym, case)
