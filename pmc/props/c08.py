"""C08 -- FE assembly equals the scaled element sum and keeps its physics (E1 lattice explorer).

Three oracles (DESIGN.md section 4, C08):
 (i)   scatter identity: the assembled matrix equals the dense triple-loop sum_e x_e K_e of pmc.refs.fe (plus the
       optional constant), rows/columns of constrained dofs zero, the chosen value on their diagonal.  Run through
       AssembleGeneral with a NON-symmetric element matrix (rows/cols cannot be swapped unnoticed) over the full
       option product, and through the three physics subclasses over a reduced option product (pass-through of
       the options).
 (ii)  element matrices of AssembleStiffness / AssembleMass / AssemblePoisson against an independent 3-point Gauss
       integration of the reference shape functions and the textbook Hooke law.
 (iii) physics: K symmetric, PSD for x >= 0, K r = 0 for translations and rotations; 1_d^T M 1_d = rho V sum(x);
       P 1 = 0 and u^T P u = kappa |g|^2 V sum(x) for a linear field.
"""
import itertools
import threading
import numpy as np
import scipy.sparse as sps
from pmc.refs import fe
from pmc.engine.tol import dense, maxabs, alg_err, exact_equal, q

PROPERTY = 'C08'
RULE = ("lattice: grids (nelx,nely[,nelz]) up to the bound; AssembleGeneral with a non-symmetric generic element "
        "matrix for 1,2,3 dofs per node x FULL product bc{none,empty,single,edge,scattered,all} x bcdiagval{default,"
        "0,table value} x add_constant{none,sparse nonsymmetric,dia_matrix,dense ndarray} x matrix_type{csc_matrix,"
        "csr_matrix,coo_matrix,csr_array} x x{ones,index-coded,with zeros,alternating sign,all zero,complex}; "
        "AssembleStiffness/Mass/Poisson for every element size of the table x every material point (E x nu x plane | "
        "rho x ndof | kappa): element matrix vs independent Gauss/Hooke reference and physics invariants for x in "
        "{ones,coded,with zeros}, plus the reduced option product bc{none,single,edge,scattered} x bcdiagval x "
        "add_constant{none,sparse} x matrix_type{csc,csr} x x{ones,coded,with zeros} at the last material point. "
        "A case is non-trivial if elements share nodes (nel>1) or dim==3; distinct by (kind,grid,size,axis of case)")
RULE += " Extended in seeding rounds 6-7:  the bc array re-used by the caller after construction; matrices of earlier responses held by reference."
ASSUMPTIONS = [
    "reference shape functions, 3-point Gauss rule, textbook Hooke matrices and dense scatter loops in pmc/refs/fe.py",
    "numpy.linalg.eigvalsh as trusted kernel for the PSD test",
    "the DEFAULT diagonal value at constrained dofs is not specified by the property statement ('the chosen value'): "
    "with bcdiagval left at its default only the zeroed rows/columns are judged; the observed default is reported",
    "when boundary conditions and add_constant are combined the statement does not say whether the constant is "
    "subject to the boundary conditions: both readings are accepted",
    "boundary-condition sets are integer arrays without duplicates; x is a vector of length nel",
    "2-D domains carry the out-of-plane size as thickness (factor in K, M, P and in the element volume V)",
]

SQ = [np.sqrt(p) for p in (2, 3, 5, 7, 11, 13, 17, 19, 23, 29)]
# value tables selected by VERIF_SEED: (explicit bc diagonal value, x offset, x step, element-matrix phase)
VALUE_TABLES = [
    {'diag': 1.0, 'xoff': 0.2, 'xstep': 0.1, 'phase': 0.0},
    {'diag': float(SQ[0]), 'xoff': 0.3, 'xstep': float(SQ[1]) / 10, 'phase': 0.7},
    {'diag': 2.5, 'xoff': float(SQ[2]) / 10, 'xstep': 0.07, 'phase': 1.9},
    {'diag': float(SQ[3]) / 2, 'xoff': 0.15, 'xstep': float(SQ[0]) / 8, 'phase': 2.6},
]
SIZE_TABLES = [
    [(1.0, 1.0, 1.0), (0.5, 2.0, 1.5), (1.5, 0.5, 2.0)],
    [(1.0, 1.0, 1.0), (2.0, 1.5, 0.5), (0.5, 1.0, 2.0)],
    [(1.0, 1.0, 1.0), (1.5, 2.0, 0.5), (2.0, 0.5, 1.5)],
]
SIZE_VALUES = (1.0, 0.5, 2.0, 1.5)

E_LIST = [1.0, 2.5]
NU_LIST = [0.0, 0.3, 0.45]
RHO_LIST = [1.0, 2.5]
KAPPA_LIST = [1.0, 1.7]

BC_FULL = ['none', 'empty', 'single', 'edge', 'scattered', 'all']
BC_RED = ['none', 'single', 'edge', 'scattered']
DIAG = ['default', 'zero', 'table']
CONST_FULL = ['none', 'sparse', 'dia', 'dense']
CONST_RED = ['none', 'sparse']
MTYPE_FULL = ['csc_matrix', 'csr_matrix', 'coo_matrix', 'csr_array']
MTYPE_RED = ['csc_matrix', 'csr_matrix']
X_FULL = ['ones', 'coded', 'zeros', 'neg', 'allzero', 'complex']
X_RED = ['ones', 'coded', 'zeros']
X_NONNEG = ('ones', 'coded', 'zeros', 'allzero')


def _grids(max2d, max3d):
    g = [(a, b, 0) for a in range(1, max2d[0] + 1) for b in range(1, max2d[1] + 1)]
    g += [(a, b, c) for a in range(1, max3d[0] + 1) for b in range(1, max3d[1] + 1) for c in range(1, max3d[2] + 1)]
    g.sort(key=lambda t: (fe.nel(*t), t))
    return g


def bounds(tier, seed):
    if tier == 'quick':
        return {'grids_2d': 'nelx<=3, nely<=3', 'grids_3d': 'nelx<=2, nely<=2, nelz<=1 and 1x1x2',
                'sizes': SIZE_TABLES[seed % len(SIZE_TABLES)], 'E': E_LIST, 'nu': NU_LIST, 'plane': ['strain', 'stress'],
                'rho': RHO_LIST, 'kappa': KAPPA_LIST, 'ndof': [1, 2, 3], 'value_table': seed % len(VALUE_TABLES),
                'general_options': [BC_FULL, DIAG, CONST_FULL, MTYPE_FULL, X_FULL],
                'subclass_options': [BC_RED, DIAG, CONST_RED, MTYPE_RED, X_RED]}
    return {'levels': ['L1: quick bounds with 3-D grids up to 2x2x2',
                       'L2: every size of {1,0.5,2,1.5}^3 (2-D: 16 in-plane x thickness {1,1.5})',
                       'L3: AssembleGeneral on 2-D grids up to 4x4 and 3-D grids up to 3x2x2'],
            'E': E_LIST, 'nu': NU_LIST, 'plane': ['strain', 'stress'], 'rho': RHO_LIST, 'kappa': KAPPA_LIST,
            'ndof': [1, 2, 3], 'value_table': seed % len(VALUE_TABLES),
            'general_options': [BC_FULL, DIAG, CONST_FULL, MTYPE_FULL, X_FULL],
            'subclass_options': [BC_RED, DIAG, CONST_RED, MTYPE_RED, X_RED]}


def _general_cases(grids, vt):
    for g in grids:
        for ndof in (1, 2, 3):
            for bc in BC_FULL:
                yield {'kind': 'general', 'grid': list(g), 'size': [1.0, 1.0, 1.0], 'ndof': ndof, 'bc': bc, 'vt': vt}


def _sub_cases(grids, sizes, vt):
    for g in grids:
        for s in sizes:
            for kind in ('stiffness', 'mass', 'poisson'):
                yield {'kind': kind, 'grid': list(g), 'size': list(s), 'vt': vt}


def generate(tier, seed):
    vt = seed % len(VALUE_TABLES)
    sizes_q = SIZE_TABLES[seed % len(SIZE_TABLES)]
    if tier == 'quick':
        grids = [g for g in _grids((3, 3), (2, 2, 2)) if g[2] <= 1 or g == (1, 1, 2)]
        yield from _general_cases(grids, vt)
        yield from _sub_cases(grids, sizes_q, vt)
        return
    g1 = _grids((3, 3), (2, 2, 2))
    yield {'__level__': 'L1'}
    yield from _general_cases(g1, vt)
    yield from _sub_cases(g1, sizes_q, vt)
    yield {'__level__': 'L2'}
    all2 = [(a, b, c) for a in SIZE_VALUES for b in SIZE_VALUES for c in (1.0, 1.5)]
    all3 = list(itertools.product(SIZE_VALUES, repeat=3))
    done = set(map(tuple, sizes_q))
    for g in g1:
        szs = [s for s in (all2 if g[2] == 0 else all3) if s not in done]
        yield from _sub_cases([g], szs, vt)
    yield {'__level__': 'L3'}
    g3 = [g for g in _grids((4, 4), (3, 2, 2)) if g not in set(g1)]
    yield from _general_cases(g3, vt)


# ------------------------------------------------------------------------------------------------ tables

def general_elmat(nd, phase):
    Ke = np.zeros((nd, nd))
    for a in range(nd):
        for b in range(nd):
            Ke[a, b] = np.sin(1.3 * (a + 1) + 0.7 * (b + 1) ** 2 + phase) + 0.25 * (a - b) / nd
    return Ke


def x_vector(name, nel, tab):
    coded = tab['xoff'] + tab['xstep'] * np.arange(nel)
    if name == 'ones':
        return np.ones(nel)
    if name == 'coded':
        return coded
    if name == 'zeros':
        v = coded.copy()
        v[::2] = 0.0
        return v
    if name == 'neg':
        return coded * np.where(np.arange(nel) % 2 == 0, -1.0, 1.0)
    if name == 'allzero':
        return np.zeros(nel)
    if name == 'complex':
        return coded + 1j * (0.5 - 0.3 * coded[::-1])
    raise KeyError(name)


def bc_set(name, grid, ndof):
    nx, ny, nz = grid
    n = fe.nnodes(nx, ny, nz) * ndof
    if name == 'none':
        return None
    if name == 'empty':
        return np.array([], dtype=int)
    if name == 'single':
        return np.array([n // 2])
    if name == 'edge':  # every dof of every node on the face x = 0
        nodes = [fe.node_number(nx, ny, nz, i, j, k) for (i, j, k) in fe.node_indices(nx, ny, nz) if i == 0]
        return np.array([nd * ndof + d for nd in nodes for d in range(ndof)])
    if name == 'scattered':  # every third dof, given in descending order
        return np.array(list(range(1, n, 3))[::-1], dtype=int)
    if name == 'all':
        return np.arange(n)
    raise KeyError(name)


def constant(name, n):
    """Returns (object handed to the module, dense reference copy)."""
    if name == 'none':
        return None, np.zeros((n, n))
    if name == 'sparse':
        C = np.zeros((n, n))
        for i in range(n):
            C[i, (2 * i + 1) % n] += 0.3 + 0.01 * i
            if i % 2 == 0:
                C[i, i] += 0.5
        return sps.csc_matrix(C), C
    if name == 'dia':
        d = 1.0 + 0.1 * np.arange(n)
        return sps.diags(d), np.diag(d)
    if name == 'dense':
        C = np.array([[0.01 * np.cos(i + 2.0 * j) for j in range(n)] for i in range(n)])
        return C.copy(), C
    raise KeyError(name)


MTYPES = {'csc_matrix': sps.csc_matrix, 'csr_matrix': sps.csr_matrix, 'coo_matrix': sps.coo_matrix,
          'csr_array': sps.csr_array}


class Ctx:
    def __init__(self, case):
        self.case = case
        self.V = {}
        self.nchecks = 0
        self.ntrans = 0
        self.nstates = 0
        self.observed = set()
        self.tags = set()
        self.fail = {}  # (check, where) -> list of (axes dict, detail)

    def ok(self):
        self.nchecks += 1

    def bad(self, check, where, axes, **detail):
        self.nchecks += 1
        self.fail.setdefault((check, where), []).append((dict(axes), detail))

    def chk(self, cond, check, where, axes, **detail):
        if cond:
            self.ok()
        else:
            self.bad(check, where, axes, **detail)


def _only(case, **axes):
    """True if the narrowed descriptor (replay) excludes this sub-point."""
    o = case.get('only')
    if not o:
        return False
    return any(k in o and o[k] != v for k, v in axes.items())


def _compare_assembled(ctx, got, S, Cd, bc, dv, axes, has_const, kind):
    """Oracle (i): got vs scatter S (+constant Cd) with bc applied.  dv None = default diagonal (not judged)."""
    n = S.shape[0]
    G = dense(got)
    if G is None or np.shape(G) != (n, n):
        ctx.bad('assembled_shape', 'shape', axes, got=list(np.shape(G)), want=[n, n])
        return None
    G = np.asarray(G)
    if not np.all(np.isfinite(G)):
        ctx.bad('scatter_identity', 'nonfinite', axes)
        return G
    def expected(Sm):
        if bc is None:
            return [Sm + Cd]
        d = 0.0 if dv is None else dv
        ex = [fe.apply_bc(Sm, bc, d) + Cd]
        if has_const:
            ex.append(fe.apply_bc(Sm + Cd, bc, d))
        if dv is None and len(bc):
            for Ex in ex:  # default diagonal: whatever finite value the module chose is taken over
                Ex[bc, bc] = G[bc, bc]
        return ex
    exp = expected(S)
    scale = maxabs(S, Cd, 0.0 if dv is None else dv)
    errs = [alg_err(G, Ex, scale) for Ex in exp]
    if any(e <= b for e, b in errs):
        ctx.ok()
        return G
    Ex = exp[0]
    mism = np.abs(G - Ex) > errs[0][1]
    where = 'free_block'
    if bc is not None and len(bc):
        isbc = np.zeros(n, dtype=bool)
        isbc[bc] = True
        inbc = isbc[:, None] | isbc[None, :]
        if not np.any(mism & ~inbc):
            dmask = np.zeros((n, n), dtype=bool)
            dmask[bc, bc] = True
            where = 'bc_diagonal' if not np.any(mism & ~dmask) else 'bc_rows_cols'
    det = {}
    if where == 'free_block':  # a transposed scatter is the classic mistake: say so in the signature
        if not np.allclose(S, S.T) and any(alg_err(G, Ex, scale)[0] <= errs[0][1] for Ex in expected(S.T)):
            where = 'transposed'
    ij = np.argwhere(mism)[0]
    det.update(first_mismatch=[int(ij[0]), int(ij[1])], got=float(np.real(G[ij[0], ij[1]])),
               want=float(np.real(Ex[ij[0], ij[1]])), err=errs[0][0], bound=errs[0][1])
    ctx.bad('scatter_identity', where, axes, **det)
    return G


def _assemble(pym, cls, dom, xv, **kw):
    s = pym.Signal('x', xv.copy())
    m = cls(s, domain=dom, **kw)
    m.response()
    return m, m.sig_out[0].state


MAGNITUDES = [1e-13, 1e13]


def _magnitude_check(ctx, pym, cls, dom, xv, kw, key, kind):
    """the assembled matrix is linear in the material constant: assembling with the constant scaled by 1e-13 or 1e13
    gives the scaled matrix (vacuum permittivity on millimetre elements, stiffness in Pa on metre elements)"""
    _, A1 = _assemble(pym, cls, dom, xv, **kw)
    A1 = np.asarray(dense(A1))
    for sc in MAGNITUDES:
        kw2 = dict(kw)
        kw2[key] = kw[key] * sc
        m, As = _assemble(pym, cls, dom, xv, **kw2)
        ctx.ntrans += 1
        ctx.nstates += 1
        As = np.asarray(dense(As)) / sc
        err = maxabs(As - A1)
        ctx.chk(err <= 1e-9 * maxabs(A1), 'linear_in_material_constant', kind, {'magnitude': f'{sc:g}', 'phase': 'physics'},
                err=err, scale=maxabs(A1), constant=kw2[key])


def _options_sweep(ctx, pym, cls, dom, grid, ndof, elmat_of, base_kw, tab, bcs, consts, mtypes, xs, kind,
                   stiffness_physics=False):
    nx, ny, nz = grid
    nel = fe.nel(nx, ny, nz)
    n = fe.nnodes(nx, ny, nz) * ndof
    case = ctx.case
    Scache = {}
    Ke = None
    for bcname in bcs:
        if _only(case, bc=bcname):
            continue
        bc = bc_set(bcname, grid, ndof)
        for dname in (DIAG if bc is not None else ['default']):
            if _only(case, diag=dname):
                continue
            dv = {'default': None, 'zero': 0.0, 'table': tab['diag']}[dname]
            for cname in consts:
                if _only(case, const=cname):
                    continue
                for mname in mtypes:
                    if _only(case, mtype=mname):
                        continue
                    Cobj, Cd = constant(cname, n)
                    kw = dict(base_kw)
                    if bc is not None:
                        kw['bc'] = bc.copy()
                    if dv is not None:
                        kw['bcdiagval'] = dv
                    if cname != 'none':
                        kw['add_constant'] = Cobj
                    if not (mname == 'csc_matrix' and cname == 'none'):
                        kw['matrix_type'] = MTYPES[mname]  # csc is also exercised as the constructor default
                    # one fresh module per option point; x is then updated on its input signal (the normal use)
                    sig = pym.Signal('x', x_vector(xs[0], nel, tab))
                    m = cls(sig, domain=dom, **kw)
                    bc_user = kw.get('bc')
                    if bc_user is not None and len(bc_user):
                        # the array of constrained dofs is the caller's: re-used for another dof set after construction,
                        # the module keeps the dofs it was given (and never writes into the array)
                        bc_user[...] = (bc_user + 1) % n
                        bc_later = bc_user.copy()
                    held = []     # matrices returned by earlier responses of this module: (object, dense value, x name)
                    for xname in xs:
                        if _only(case, x=xname):
                            continue
                        axes = {'bc': bcname, 'diag': dname, 'const': cname, 'mtype': mname, 'x': xname,
                                'phase': 'options'}
                        xv = x_vector(xname, nel, tab)
                        sig.state = xv.copy()
                        m.response()
                        got = m.sig_out[0].state
                        ctx.ntrans += 1
                        ctx.nstates += 1
                        if Ke is None:
                            Ke = np.array(elmat_of(m), copy=True)
                        if xname not in Scache:
                            Scache[xname] = fe.scatter(nx, ny, nz, ndof, xv, Ke)
                        S = Scache[xname]
                        G = _compare_assembled(ctx, got, S, Cd, bc, dv, axes, cname != 'none', kind)
                        for obj_, val_, xn_ in held:
                            ctx.chk(exact_equal(np.asarray(dense(obj_)), val_), 'earlier_matrix_changed',
                                    'matrix_of_an_earlier_response', axes, earlier_x=xn_)
                        if G is not None:
                            held.append((got, np.array(G, copy=True), xname))
                        if bc_user is not None and len(bc_user):
                            ctx.chk(exact_equal(bc_user, bc_later), 'argument_modified', 'bc', axes)
                        if cname == 'none':
                            ctx.tags.add(f"{mname}->{getattr(got, 'format', type(got).__name__)}")
                        if G is not None and dv is None and bc is not None and len(bc) and cname == 'none':
                            dg = G[bc, bc]
                            r = dg / np.max(Ke) if np.max(Ke) != 0 else dg
                            ctx.observed.add(f"{kind}: default bc diagonal = "
                                             + ('max(element matrix)' if np.allclose(r, 1.0) else
                                                '0' if np.allclose(dg, 0.0) else 'other'))
                        # inputs untouched, second response identical
                        if xname == 'coded':
                            if cname != 'none':
                                ctx.chk(exact_equal(dense(Cobj), Cd), 'constant_untouched', 'add_constant', axes)
                            m.response()
                            ctx.ntrans += 1
                            G2 = dense(m.sig_out[0].state)
                            ctx.chk(G is None or (np.shape(G2) == np.shape(G) and exact_equal(np.asarray(G2), G)),
                                    'repeat_response', 'second_response_differs', axes)
                            ctx.chk(exact_equal(m.sig_in[0].state, xv), 'x_untouched', 'x', axes)
                        if stiffness_physics and G is not None and cname == 'none' and xname in X_NONNEG:
                            sc = maxabs(G)
                            e, b = alg_err(G, G.T, sc)
                            ctx.chk(e <= b, 'stiffness_symmetric', 'with_bc', axes, err=e)
                            if dv is None or dv >= 0:
                                lam = np.linalg.eigvalsh(0.5 * (G + G.T))
                                ctx.chk(lam.min() >= -(1e-9 * sc + 1e-12) * n, 'stiffness_psd', 'with_bc', axes,
                                        min_eig=float(lam.min()))
    return Ke


def _sigval(k, v):
    # which of the non-empty proper bc sets is used is incidental
    if k == 'bc' and v in ('single', 'edge', 'scattered'):
        return 'some'
    return str(v)


def _summarise(ctx, kind, axes_values):
    """One violation per (check, where): the option values that separate failing from passing sub-points go into the
    signature, everything else (grid, numbers) does not."""
    out = []
    for (check, where), items in ctx.fail.items():
        sig = {'check': check, 'kind': kind, 'where': where}
        keys = set().union(*[set(a.keys()) for a, _ in items])
        stored = ctx.case.get('sig_axes')
        if stored is not None:
            # narrowed replay descriptor: the separating option values were determined by the full case
            sig.update(stored)
            keys = ()
        for k in sorted(keys):
            vals = {_sigval(k, a.get(k)) for a, _ in items}
            allv = axes_values.get(k)
            if allv is not None and len(allv) > 1:
                # x vectors with zero entries make tiny grids pass trivially: they never count as "passing" values
                need = {_sigval(k, v) for v in allv if not (k == 'x' and v in ('zeros', 'allzero'))}
                if not need <= vals:
                    sig[k] = '+'.join(sorted(vals))
            elif len(vals) == 1 and k not in ('mat', 'diag'):
                sig[k] = vals.pop()
        axes0, det0 = items[0]
        narrowed = dict(ctx.case)
        narrowed['only'] = {k: v for k, v in axes0.items() if k in ('bc', 'diag', 'const', 'mtype', 'x', 'mat', 'phase')}
        narrowed['sig_axes'] = {k: v for k, v in sig.items() if k not in ('check', 'kind', 'where')}
        det = dict(det0)
        det['failing_subpoints'] = len(items)
        det['first_failing_axes'] = axes0
        out.append({'check': check, 'signature': sig, 'detail': det, 'case': narrowed})
    return out


def _finish(ctx, case, kind, nel, dim, axes_values, key):
    V = _summarise(ctx, kind, axes_values)
    return {'states': max(ctx.nstates, 1), 'transitions': max(ctx.ntrans, 1), 'checks': max(ctx.nchecks, 1),
            'nontrivial': nel > 1 or dim == 3, 'key': key,
            'outcome': [f"{kind}|{'ok' if not V else V[0]['signature']['check']}"] + sorted(f"{kind}|{t}" for t in ctx.tags),
            'observed_only': sorted(ctx.observed), 'violations': V}


# ------------------------------------------------------------------------------------------------ execute

def execute(case):
    return _in_thread(_execute, case)


def _in_thread(fn, *args):
    """pyMOTO builds a debugging string with inspect.stack() in every Signal/Module constructor; its cost grows with
    the depth of the call stack (runner + multiprocessing + runpy frames: ~3 ms per object).  Running the case on a
    fresh thread gives it a short stack; nothing else changes.  Exceptions are re-raised with their traceback."""
    box = {}

    def run():
        try:
            box['r'] = fn(*args)
        except BaseException as e:  # noqa
            box['e'] = e
    th = threading.Thread(target=run, daemon=True)
    th.start()
    th.join()
    if 'e' in box:
        raise box['e']
    return box['r']


def _execute(case):
    import pymoto as pym
    kind = case['kind']
    grid = tuple(case['grid'])
    nx, ny, nz = grid
    sz = tuple(case['size'])
    dim = fe.dims(nx, ny, nz)
    nel = fe.nel(nx, ny, nz)
    tab = VALUE_TABLES[case.get('vt', 0)]
    dom = pym.DomainDefinition(nx, ny, nz, unitx=sz[0], unity=sz[1], unitz=sz[2])
    ctx = Ctx(case)
    thick = sz[2] if dim == 2 else 1.0
    Vel = fe.elem_volume(dim, sz)
    pos = fe.node_positions(nx, ny, nz, sz)
    phase = (case.get('only') or {}).get('phase')

    if kind == 'general':
        ndof = case['ndof']
        Ke = general_elmat(ndof * 2 ** dim, tab['phase'])
        bcs = [case['bc']]
        _options_sweep(ctx, pym, pym.AssembleGeneral, dom, grid, ndof, lambda m: Ke, {'element_matrix': Ke.copy()}, tab,
                       bcs, CONST_FULL, MTYPE_FULL, X_FULL, kind)
        ctx.chk(exact_equal(Ke, general_elmat(ndof * 2 ** dim, tab['phase'])), 'elmat_untouched', 'element_matrix', {})
        av = {'diag': DIAG if case['bc'] != 'none' else None, 'const': CONST_FULL, 'mtype': MTYPE_FULL, 'x': X_FULL}
        return _finish(ctx, case, kind, nel, dim, av, f"general|{grid}|ndof{ndof}|{case['bc']}")

    av = {'bc': BC_RED, 'diag': DIAG, 'const': CONST_RED, 'mtype': MTYPE_RED, 'x': X_RED}

    if kind == 'stiffness':
        mats = [(E, nu, pl) for E in E_LIST for nu in NU_LIST for pl in (('strain', 'stress') if dim == 2 else ('strain',))]
        rbm = fe.rigid_body_modes(pos)
        if phase != 'options' and (not case.get('only') or 'magnitude' in case['only']):
            _magnitude_check(ctx, pym, pym.AssembleStiffness, dom, x_vector(X_RED[0], nel, tab),
                             dict(e_modulus=mats[0][0], poisson_ratio=mats[0][1], plane=mats[0][2]), 'e_modulus', kind)
        for im, (E, nu, pl) in enumerate(mats):
            if phase == 'options' or _only(case, mat=im):
                continue
            kw = dict(e_modulus=E, poisson_ratio=nu, plane=pl)
            Kref = fe.stiffness_element(dim, sz, E, nu, pl, thickness=thick)
            for xname in X_RED:
                if _only(case, x=xname):
                    continue
                axes = {'mat': im, 'plane': pl if dim == 2 else '3d', 'x': xname, 'phase': 'physics'}
                xv = x_vector(xname, nel, tab)
                m, K = _assemble(pym, pym.AssembleStiffness, dom, xv, **kw)
                ctx.ntrans += 1
                ctx.nstates += 1
                if xname == X_RED[0]:
                    Ke = np.asarray(m.elmat)
                    e, b = alg_err(Ke, Kref)
                    if e > b:
                        # which block is off: normal-normal / shear coupling cannot be separated in K_e, so the
                        # signature carries the quantised ratio of the traces instead
                        ctx.bad('element_matrix', 'stiffness', {'mat': im, 'plane': axes['plane'], 'phase': 'physics'},
                                err=e, bound=b, trace_ratio=q(np.trace(Ke) / np.trace(Kref), 3))
                    else:
                        ctx.ok()
                Kd = np.asarray(dense(K))
                Sref = fe.scatter(nx, ny, nz, dim, xv, Kref)
                e, b = alg_err(Kd, Sref)
                ctx.chk(e <= b, 'assembled_vs_reference', 'stiffness', axes, err=e, bound=b)
                sc = maxabs(Kd)
                e, b = alg_err(Kd, Kd.T, sc)
                ctx.chk(e <= b, 'stiffness_symmetric', 'free', axes, err=e)
                lam = np.linalg.eigvalsh(0.5 * (Kd + Kd.T))
                ctx.chk(lam.min() >= -(1e-9 * sc + 1e-12) * Kd.shape[0], 'stiffness_psd', 'free', axes,
                        min_eig=float(lam.min()))
                for ir, r in enumerate(rbm):
                    res = Kd @ r
                    bound = 1e-9 * sc * maxabs(r) * 2 ** dim + 1e-12
                    ctx.chk(maxabs(res) <= bound, 'rigid_body_nullspace',
                            'translation' if ir < dim else 'rotation', axes, residual=maxabs(res), bound=bound)
                # strain energy of the rigid modes is zero and of a unit stretch is positive (K is not trivially 0)
                if xname == 'ones':
                    G1 = np.zeros((dim, dim))
                    G1[0, 0] = 1.0
                    u = fe.affine_nodal_field(pos, np.zeros(dim), G1)
                    D = fe.hooke(dim, E, nu, pl)
                    want = D[0, 0] * Vel * nel
                    got = float(u @ Kd @ u)
                    ctx.chk(abs(got - want) <= 1e-9 * abs(want) * Kd.shape[0] + 1e-12, 'unit_stretch_energy', 'stiffness',
                            axes, got=got, want=want)
        if phase != 'physics':
            E, nu, pl = mats[-1]
            _options_sweep(ctx, pym, pym.AssembleStiffness, dom, grid, dim, lambda m: m.elmat,
                           dict(e_modulus=E, poisson_ratio=nu, plane=pl), tab, BC_RED, CONST_RED, MTYPE_RED, X_RED, kind,
                           stiffness_physics=True)
        # observed only: plane stress at nu = 0.5 is outside the design alphabet
        if dim == 2 and nel == 1 and not case.get('only'):
            try:
                _assemble(pym, pym.AssembleStiffness, dom, np.ones(nel), e_modulus=1.0, poisson_ratio=0.5, plane='stress')
                ctx.observed.add('plane stress with nu=0.5: assembles')
            except Exception as ex:  # noqa
                ctx.observed.add(f'plane stress with nu=0.5: raises {type(ex).__name__} (not judged)')
        return _finish(ctx, case, kind, nel, dim, av, f"stiffness|{grid}|{sz}")

    if kind == 'mass':
        mats = [(rho, nd) for rho in RHO_LIST for nd in (1, 2, 3)]
        if phase != 'options' and (not case.get('only') or 'magnitude' in case['only']):
            _magnitude_check(ctx, pym, pym.AssembleMass, dom, x_vector(X_RED[0], nel, tab),
                             dict(material_property=RHO_LIST[0], ndof=2), 'material_property', kind)
        for im, (rho, nd) in enumerate(mats):
            if phase == 'options' or _only(case, mat=im):
                continue
            Mref = fe.mass_element(dim, sz, rho, nd, thickness=thick)
            for xname in X_RED:
                if _only(case, x=xname):
                    continue
                axes = {'mat': im, 'x': xname, 'phase': 'physics'}
                xv = x_vector(xname, nel, tab)
                m, M = _assemble(pym, pym.AssembleMass, dom, xv, material_property=rho, ndof=nd)
                ctx.ntrans += 1
                ctx.nstates += 1
                Md = np.asarray(dense(M))
                if xname == X_RED[0]:
                    Me = np.asarray(m.elmat)
                    e, b = alg_err(Me, Mref)
                    if e > b:
                        ctx.bad('element_matrix', 'mass', {'mat': im, 'phase': 'physics'}, err=e, bound=b,
                                trace_ratio=q(np.trace(Me) / np.trace(Mref), 3))
                    else:
                        ctx.ok()
                e, b = alg_err(Md, fe.scatter(nx, ny, nz, nd, xv, Mref))
                ctx.chk(e <= b, 'assembled_vs_reference', 'mass', axes, err=e, bound=b)
                e, b = alg_err(Md, Md.T)
                ctx.chk(e <= b, 'mass_symmetric', 'free', axes, err=e)
                want = rho * Vel * float(np.sum(xv))
                for d in range(nd):
                    r = np.zeros(Md.shape[0])
                    r[d::nd] = 1.0
                    got = float(r @ Md @ r)
                    if abs(got - want) <= 1e-9 * max(abs(want), rho * Vel * nel) + 1e-12:
                        ctx.ok()
                    else:
                        ctx.bad('total_mass', 'per_direction', axes, got=got, want=want, ratio=q(got / want, 3) if want else 'na')
        if phase != 'physics':
            rho, nd = mats[-2]  # rho = 2.5, ndof = 2
            _options_sweep(ctx, pym, pym.AssembleMass, dom, grid, nd, lambda m: m.elmat,
                           dict(material_property=rho, ndof=nd), tab, BC_RED, CONST_RED, MTYPE_RED, X_RED, kind)
        return _finish(ctx, case, kind, nel, dim, av, f"mass|{grid}|{sz}")

    if kind == 'poisson':
        g = np.array([0.3, -0.2, 0.5])[:dim] * (1.0 + tab['phase'] / 4)
        if phase != 'options' and (not case.get('only') or 'magnitude' in case['only']):
            _magnitude_check(ctx, pym, pym.AssemblePoisson, dom, x_vector(X_RED[0], nel, tab),
                             dict(material_property=KAPPA_LIST[0]), 'material_property', kind)
        for im, kappa in enumerate(KAPPA_LIST):
            if phase == 'options' or _only(case, mat=im):
                continue
            Pref = fe.poisson_element(dim, sz, kappa, thickness=thick)
            for xname in X_RED + ['neg']:
                if _only(case, x=xname):
                    continue
                axes = {'mat': im, 'x': xname, 'phase': 'physics'}
                xv = x_vector(xname, nel, tab)
                m, P = _assemble(pym, pym.AssemblePoisson, dom, xv, material_property=kappa)
                ctx.ntrans += 1
                ctx.nstates += 1
                Pd = np.asarray(dense(P))
                if xname == X_RED[0]:
                    Pe = np.asarray(m.elmat)
                    e, b = alg_err(Pe, Pref)
                    if e > b:
                        ctx.bad('element_matrix', 'poisson', {'mat': im, 'phase': 'physics'}, err=e, bound=b,
                                trace_ratio=q(np.trace(Pe) / np.trace(Pref), 3))
                    else:
                        ctx.ok()
                e, b = alg_err(Pd, fe.scatter(nx, ny, nz, 1, xv, Pref))
                ctx.chk(e <= b, 'assembled_vs_reference', 'poisson', axes, err=e, bound=b)
                sc = maxabs(Pd)
                e, b = alg_err(Pd, Pd.T, sc)
                ctx.chk(e <= b, 'poisson_symmetric', 'free', axes, err=e)
                res = Pd @ np.ones(Pd.shape[0])
                ctx.chk(maxabs(res) <= 1e-9 * sc * 2 ** dim + 1e-12, 'poisson_constants', 'nullspace', axes,
                        residual=maxabs(res))
                u = fe.affine_nodal_field(pos, [0.4], g[None, :])
                got = float(u @ Pd @ u)
                want = kappa * float(g @ g) * Vel * float(np.sum(xv))
                tolv = 1e-9 * kappa * float(g @ g) * Vel * float(np.sum(np.abs(xv))) * (1 + maxabs(u) ** 2) + 1e-12
                if abs(got - want) <= tolv:
                    ctx.ok()
                else:
                    ctx.bad('poisson_linear_energy', 'energy', axes, got=got, want=want,
                            ratio=q(got / want, 3) if want else 'na')
        if phase != 'physics':
            _options_sweep(ctx, pym, pym.AssemblePoisson, dom, grid, 1, lambda m: m.elmat,
                           dict(material_property=KAPPA_LIST[-1]), tab, BC_RED, CONST_RED, MTYPE_RED, X_RED, kind)
        return _finish(ctx, case, kind, nel, dim, av, f"poisson|{grid}|{sz}")

    raise KeyError(kind)
