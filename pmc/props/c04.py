"""C04 -- back-propagation is linear in the seed, accumulative and leaves states untouched.

E2 stateless sequence explorer over {R, S(w1), S(w2), S(a*w1+b*w2), B, Z} on the module lattice of C01."""
import itertools
import traceback
import numpy as np
import scipy.sparse as sps
from pmc import modspecs as ms
from pmc.engine import values as val

PROPERTY = 'C04'
RULE = ("stateless sequence exploration on every module instance of the (reduced/full) C01 lattice: a fresh module is "
        "built, response() called, then every sequence of length L over {R, S1, S2, Sc, B, Z} (S = assign output seeds "
        "w1 / w2 / a*w1+b*w2, B = sensitivity(), Z = reset()) is replayed on fresh objects and checked after EVERY "
        "operation against the model 'input sensitivity = sum over B calls of the seed combination present at that call', "
        "with g1, g2 measured once on fresh objects; EXACT snapshots: B and Z change no signal state, R changes no input "
        "state (value, type, shape) and no sensitivity. Non-trivial = sequence contains two B without Z in between or a "
        "combined seed; distinct by (descriptor, sequence)")
RULE += " Extended in seeding rounds 6-7:  L=2 level whose first seed is a unit vector or a copy of an input state."
ASSUMPTIONS = ["seeds are dense generic arrays (w1 on the first output only, w2 on all outputs; for matrix outputs w2 is a "
               "DyadCarrier); a missing (None) sensitivity counts as zero",
               "iterative-solver configurations are excluded (their sensitivities carry solver noise)",
               "Aggregation scaling is by design frozen between responses; inputs never change within a sequence"]

COMBOS = [(2.0, -3.0), (0.5, 1.0), (1.0, 1.0)]
OPS = ['R', 'S1', 'S2', 'Sc', 'B', 'Z']


def make_seeds(y0, idx):
    """(w1 objects, w2 objects): w1 seeds only output 0, w2 all outputs; dense equivalents for combination"""
    from pymoto import DyadCarrier
    w1, w2 = [], []
    for k, y in enumerate(y0):
        sparse = sps.issparse(y)
        cplx = np.iscomplexobj(y.data if sparse else y)
        if ms.is_pyscalar(y) or np.ndim(y) == 0:
            a = 0.7 + (0.3j if cplx else 0)
            b = -1.3 + (0.6j if cplx else 0)
            w1.append((a if cplx else 0.7) if k == 0 else None)
            w2.append(b if cplx else -1.3)
            continue
        shape = y.shape
        n = int(np.prod(shape))
        A = val.mat(n, 1, 110 + k, idx, cplx).reshape(shape)
        w1.append(A if k == 0 else None)
        if sparse:
            r = shape[0]
            us = [val.tab(r, 112 + k, idx), val.tab(r, 113 + k, idx)]
            vs = [val.tab(r, 114 + k, idx), val.tab(r, 115 + k, idx)]
            w2.append(DyadCarrier([u.copy() for u in us], [v.copy() for v in vs]))
        else:
            W = val.mat(n, 1, 116 + k, idx, cplx).reshape(shape)
            if k >= 1 and W.ndim == 2 and W.shape[1] >= 3:
                W[:, idx % W.shape[1]] = 0      # one exactly-zero seed column (e.g. an eigenvector that is not used)
            w2.append(W)
    return w1, w2


def combine(w1, w2, a, b):
    out = []
    for x, y in zip(w1, w2):
        if x is None and y is None:
            out.append(None)
            continue
        xd = 0 if x is None else (x.todense() if hasattr(x, 'todense') and not isinstance(x, np.ndarray) else x)
        yd = 0 if y is None else (y.todense() if hasattr(y, 'todense') and not isinstance(y, np.ndarray) else y)
        out.append(a * xd + b * yd)
    return out


def assign(sout, w):
    for s, o in zip(sout, w):
        s.sensitivity = ms.copy_obj(o)


def measure(spec, w):
    m, sin, sout = spec.make()
    m.response()
    assign(sout, w)
    m.sensitivity()
    return [ms.dense(s.sensitivity) for s in sin]


def _in_repo(e):
    from pmc.engine.run import REPO_PKG
    return any(f.filename.startswith(REPO_PKG) for f in traceback.extract_tb(e.__traceback__))


def run_sequence(spec, seq, w1, w2, wc, ab, g1, g2):
    """returns (ops done, violation or None)"""
    m, sin, sout = spec.make()
    m.response()
    cur = None
    acc = None
    nchk = 0
    for k, op in enumerate(['R0'] + seq):
        if op == 'R0':
            continue
        st_in = [ms.snapshot(s.state) for s in sin]
        st_out = [ms.snapshot(s.state) for s in sout]
        se_in = [ms.snapshot(s.sensitivity) for s in sin]
        se_out = [ms.snapshot(s.sensitivity) for s in sout]
        try:
            if op == 'R':
                m.response()
            elif op == 'S1':
                assign(sout, w1)
                cur = (1.0, 0.0)
            elif op == 'S2':
                assign(sout, w2)
                cur = (0.0, 1.0)
            elif op == 'Sc':
                assign(sout, wc)
                cur = ab
            elif op == 'B':
                m.sensitivity()
                if cur is not None:
                    acc = cur if acc is None else (acc[0] + cur[0], acc[1] + cur[1])
            elif op == 'Z':
                m.reset()
                cur, acc = None, None
        except Exception as e:  # noqa
            if not _in_repo(e):
                raise
            return k, ('raised', {'op': op, 'exc': type(e).__name__},
                       {'seq': seq, 'step': k, 'error': ''.join(traceback.format_exception_only(type(e), e))[-600:]})
        nchk += 1
        # --- EXACT: states
        if op in ('B', 'Z', 'S1', 'S2', 'Sc'):
            for nm, before, sigs in (('input', st_in, sin), ('output', st_out, sout)):
                for j, (b0, s) in enumerate(zip(before, sigs)):
                    if ms.snapshot(s.state) != b0:
                        return k, ('state_changed', {'op': op, 'which': nm},
                                   {'seq': seq, 'step': k, 'signal': f'{nm}{j}', 'before': b0[:3],
                                    'after': ms.snapshot(s.state)[:3]})
        if op == 'R':
            for j, (b0, s) in enumerate(zip(st_in, sin)):
                if ms.snapshot(s.state) != b0:
                    return k, ('response_changed_input_state', {'op': op},
                               {'seq': seq, 'step': k, 'signal': f'input{j}', 'before': b0[:3],
                                'after': ms.snapshot(s.state)[:3]})
            for nm, before, sigs in (('input', se_in, sin), ('output', se_out, sout)):
                for j, (b0, s) in enumerate(zip(before, sigs)):
                    if ms.snapshot(s.sensitivity) != b0:
                        return k, ('response_changed_sensitivity', {'op': op, 'which': nm},
                                   {'seq': seq, 'step': k, 'signal': f'{nm}{j}'})
        # --- model: accumulated input sensitivities
        for j, s in enumerate(sin):
            got = ms.dense(s.sensitivity)
            if acc is None:
                want = None
            else:
                a1 = 0 if g1[j] is None else acc[0] * g1[j]
                a2 = 0 if g2[j] is None else acc[1] * g2[j]
                want = a1 + a2
                if np.isscalar(want) and want == 0 and g1[j] is None and g2[j] is None:
                    want = None
            G = np.zeros(1) if got is None else got
            W = np.zeros(1) if want is None else np.asarray(want)
            if got is not None and want is not None and G.shape != W.shape and G.size == W.size:
                G = G.reshape(W.shape)
            sc = max(1e-300, float(np.max(np.abs(W))) if W.size else 0.0,
                     max([0.0] + [float(np.max(np.abs(g[j]))) for g in (g1, g2) if g[j] is not None and g[j].size]))
            try:
                err = float(np.max(np.abs(G - W))) if max(G.size, W.size) else 0.0
            except ValueError:
                err = float('inf')
            if not err <= 1e-9 * sc + 1e-12:
                kind = 'double_call' if seq[:k].count('B') - 0 >= 2 and 'Z' not in seq[:k] else 'linear_combination'
                twice = [o for o in seq[:k] if o in ('B', 'Z')]
                rep = len(twice) >= 2 and twice[-2:] == ['B', 'B']
                return k, ('sensitivity_model', {'op': op, 'after_repeated_B': rep, 'combined_seed': cur not in
                                                 ((1.0, 0.0), (0.0, 1.0), None)},
                           {'seq': seq, 'step': k, 'input': j, 'got': G, 'want': W, 'acc': acc, 'rel_err': err / sc})
    return len(seq), None


USER_MODULES = ['pass', 'view', 'fan', 'two_out', 'pass_c', 'fancy_in', 'mixed_in']


def user_spec(name, idx):
    """User-defined modules (the contract is that of Module/Signal, whoever writes the module) whose _sensitivity hands
    back the seed object itself, a view of it, or the same object for two inputs -- all legitimate: a module need not
    copy what it returns."""
    pym = ms._pym()
    cplx = name.endswith('_c')
    x0 = val.mat(4, 1, 130, idx, cplx).reshape(4)
    b0 = val.mat(4, 1, 131, idx, cplx).reshape(4)

    class Pass(pym.Module):
        def _response(self, x):
            return x.copy()

        def _sensitivity(self, dy):
            return dy

    class View(pym.Module):
        def _response(self, x):
            return x[::-1].copy()

        def _sensitivity(self, dy):
            return dy[::-1]

    class Fan(pym.Module):
        def _response(self, a, b):
            return a + b

        def _sensitivity(self, dy):
            return dy, dy

    class TwoOut(pym.Module):
        def _response(self, x):
            return 2 * x, x.copy()

        def _sensitivity(self, d1, d2):
            if d1 is None:
                return d2
            return 2 * d1 if d2 is None else 2 * d1 + d2

    def make():
        sx = pym.Signal('x', x0.copy())
        if name in ('pass', 'pass_c'):
            m = Pass(sx)
            return m, [sx], list(m.sig_out)
        if name == 'view':
            m = View(sx)
            return m, [sx], list(m.sig_out)
        if name == 'fancy_in':      # the module consumes an index-array slice of the signal (unsorted dof list)
            m = Pass(sx[np.array([3, 0, 2])])
            return m, [sx], list(m.sig_out)
        if name == 'mixed_in':      # rank-2 signal consumed through a slice mixing a basic slice with an index array
            sX = pym.Signal('X', np.outer(x0, b0[:3]).copy())
            m = Pass(sX[1:3, np.array([2, 0])])
            return m, [sX], list(m.sig_out)
        if name == 'fan':
            sb = pym.Signal('b', b0.copy())
            m = Fan([sx, sb])
            return m, [sx, sb], list(m.sig_out)
        m = TwoOut(sx, [pym.Signal('y1'), pym.Signal('y2')])
        return m, [sx], list(m.sig_out)
    return ms.Spec('user', make, [])


def execute(case):
    desc, idx, L = case['desc'], case['table'], case['L']
    if desc['fam'] == 'user':
        spec = user_spec(desc['name'], idx)
        sig_extras = lambda d: {'module': d['name']}  # noqa: E731
    else:
        spec = ms.build(desc, idx)
        if spec.iterative:
            return {'skipped': 'iterative solver configuration'}
        from pmc.props.c01 import admissible, sig_extras
        why = admissible(desc, spec, idx)
        if why:
            return {'skipped': why}
    m, sin, sout = spec.make()
    m.response()
    y0 = [ms.copy_obj(s.state) for s in sout]
    w1, w2 = make_seeds(y0, idx)
    # block outputs of solver-like modules: the first seed column is a combination of the columns of an input of the same
    # shape (for a symmetric system the adjoint of a load column is already known to the solver: a seed block that mixes
    # a known and a new column), the other columns stay generic
    if isinstance(w1[0], np.ndarray) and w1[0].ndim == 2 and w1[0].shape[1] >= 2:
        for s_ in sin:
            st_ = s_.state
            if isinstance(st_, np.ndarray) and st_.shape == w1[0].shape and not np.iscomplexobj(st_):
                w1[0] = w1[0].copy()
                w1[0][:, 0] = 0.7 * st_[:, 0] - 1.3 * st_[:, 1]
                break
    # special first seeds: a unit vector (zero on everything but the LAST entry of the first output), or a copy of the
    # state of an input of the same shape (compliance-like: the seed of a solution is the load itself)
    w1kind = case.get('w1', 'generic')
    if w1kind != 'generic':
        y_ = y0[0]
        if not isinstance(y_, np.ndarray) or y_.ndim == 0 or y_.size < 2:
            return {'skipped': f'first output is not an array with at least two entries (w1={w1kind})'}
        if w1kind == 'basis':
            e_ = np.zeros_like(w1[0])
            e_.flat[-1] = 1.0
            w1[0] = e_
        else:
            src = [s_.state for s_ in sin if isinstance(s_.state, np.ndarray) and s_.state.shape == y_.shape
                   and (np.iscomplexobj(y_) or not np.iscomplexobj(s_.state))]
            if not src:
                return {'skipped': 'no input with the shape of the first output (w1=input)'}
            w1[0] = np.array(src[0], dtype=w1[0].dtype, copy=True)
    cplx_out = any(np.iscomplexobj(y.data if sps.issparse(y) else y) for y in y0)
    ab = COMBOS[case.get('combo', 0) % len(COMBOS)]
    # (a, b) are real: sensitivities are real-linear in the seed (Wirtinger convention), not complex-linear
    wc = combine(w1, w2, *ab)
    V = []

    def addv(check, sig, detail, seq):
        s = {'check': check, 'fam': desc['fam'], **sig, **sig_extras(desc)}
        if not any(v['signature'] == s for v in V):
            V.append({'check': check, 'signature': s, 'detail': dict(detail, desc=desc),
                      'case': dict(case, only=seq)})
    try:
        g1 = measure(spec, w1)
        g2 = measure(spec, w2)
    except Exception as e:  # noqa
        if not _in_repo(e):
            raise
        addv('raised', {'op': 'B', 'exc': type(e).__name__, 'phase': 'measure'}, {'error': str(e)[-500:]}, [])
        return {'states': 1, 'transitions': 1, 'violations': V, 'key': ms_key(desc)}
    seqs = [case['only']] if case.get('only') is not None else [list(s) for s in itertools.product(OPS, repeat=L)]
    if getattr(spec, 'response_has_memory', False):
        seqs = [q for q in seqs if 'R' not in q]     # a further response() legitimately changes the (damped) scaling
    nops = 0
    nontrivial = 0
    for seq in seqs:
        n, v = run_sequence(spec, seq, w1, w2, wc, ab, g1, g2)
        nops += n
        bz = [o for o in seq if o in ('B', 'Z')]
        if 'Sc' in seq or any(a == b == 'B' for a, b in zip(bz, bz[1:])):
            nontrivial += 1
        if v:
            addv(v[0], v[1], v[2], seq)
    return {'states': len(seqs), 'transitions': nops, 'checks': nops, 'nontrivial': nontrivial > 0,
            'key': [f"{ms_key(desc)}|{i}" for i in range(nontrivial)], 'outcome': f"{desc['fam']}:{'viol' if V else 'ok'}",
            'violations': V}


def ms_key(desc):
    import json
    return json.dumps(desc, sort_keys=True, default=str)


def reduced(descs, per_family=24):
    """every ceil(n/per_family)-th instance of each family in lattice order (first and last always included)"""
    by = {}
    for d in descs:
        by.setdefault(d['fam'], []).append(d)
    out = []
    for fam, lst in by.items():
        step = max(1, -(-len(lst) // per_family))
        pick = lst[::step]
        if lst[-1] not in pick:
            pick.append(lst[-1])
        out += pick
    return out


def bounds(tier, seed):
    return {'alphabet': OPS, 'levels': ['L=3 on the reduced lattice (<=24 instances per family)'] if tier == 'quick' else
            ['L=3 reduced', 'L=3 full thorough lattice', 'L=4 reduced', 'L=5 on 4 instances per family'],
            'combos': COMBOS, 'table': seed % 4}


def generate(tier, seed):
    t = seed % 4
    full_q = list(ms.lattice('quick', seed))
    red = reduced(full_q)
    yield {'__level__': 'L3/reduced'}
    for i, d in enumerate(red):
        yield {'desc': d, 'table': t, 'L': 3, 'combo': i}
    yield {'__level__': 'L2/reduced, first seed a unit vector / a copy of an input state'}
    for w1 in ('basis', 'input'):
        for i, d in enumerate(red):
            yield {'desc': d, 'table': t, 'L': 2, 'combo': i, 'w1': w1}
    yield {'__level__': 'L4/user-defined modules returning their seed'}
    for i, nm in enumerate(USER_MODULES):
        yield {'desc': {'fam': 'user', 'name': nm}, 'table': t, 'L': 4 if tier == 'quick' else 5, 'combo': i}
    if tier == 'quick':
        return
    yield {'__level__': 'L3/full'}
    for i, d in enumerate(ms.lattice('thorough', seed)):
        yield {'desc': d, 'table': t, 'L': 3, 'combo': i}
    yield {'__level__': 'L4/reduced'}
    for i, d in enumerate(red):
        yield {'desc': d, 'table': t, 'L': 4, 'combo': i + 1}
    yield {'__level__': 'L5/4-per-family'}
    for i, d in enumerate(reduced(full_q, 4)):
        yield {'desc': d, 'table': t, 'L': 5, 'combo': i + 2}
