"""C17 -- the optimality-criteria update keeps bounds, move limit and volume, converges on sum c/x and writes the new
design back to the right variable signals.

E1 lattice explorer over problems x every iteration of every run as a checked state.  A harness-written recording
module inside the network (objective value + sensitivities of a closed-form negative-gradient objective) logs the
state of every variable signal at every network response; the final signal states after minimize_oc returns are the
last design.  Every consecutive pair of logged designs is one OC update and is compared with pmc.refs.oc (move box,
volume band and component band implied by the bisection tolerance, located by bisection to the last bit)."""
import itertools
import numpy as np
from pmc.refs import oc

PROPERTY = 'C17'
RULE = ("lattice: variable layouts (one array n=1,2,3,6 passed bare or in a list; two/three arrays; array + length-1 "
        "array in both orders; module inputs wired in the same or the reversed order as the `variables` list) x "
        "objective {sum c/x, sum c/x^2, 1/(c.x)} x c tables x start designs x bounds {defaults, scalar, per-variable, "
        "mixed, one variable pinned} x move x maxvol {None, 0.3n, 0.6n, above sum(xmax), below sum(xmin), exactly "
        "sum(xmax), exactly sum(xmin)} x l1l2tol x stopping {tolx=tolf=0 -> full horizon, defaults}; every "
        "iteration of every run is judged. A run is non-trivial if at least one judged update had a reachable "
        "volume, the multiplier root inside the bracket and a variable strictly inside its move box (the multiplier "
        "decides the design); distinct by (problem descriptor, l1l2tol, stopping)")
RULE += " Extended in seeding rounds 6-7:  wrong-sign rounding noise in one sensitivity, shared start array, slice variables, integer-typed bounds, designs of earlier iterations held by reference."
ASSUMPTIONS = [
    "start designs lie inside [xmin, xmax] or (thorough, start 'near_out') outside by less than the move limit; a "
    "start further outside makes the bound and the move-limit demand contradict each other and is kept out",
    "variable signals hold 1-D float arrays (python scalars / n-D arrays would make 'written back to the right "
    "signal' a question of shape conventions the statement does not settle)",
    "the volume is demanded only when sum(lower) <= maxvol <= sum(upper) for the move box AND the multiplier root "
    "lies inside the routine's bracket [l1init, l2init] = [0, 1e5] (defaults, 'OC internal parameters'); updates whose "
    "root lies above the bracket are counted as observed_only 'multiplier_root_above_l2init' (sum c/x^2 started "
    "at xmin; xmin = 0 with a zero volume target), likewise 'optimum_multiplier_outside_bracket' for the convergence "
    "demand",
    "zero-gradient variables (c table 'zero') are outside the quantifier (negative-gradient objectives): they are "
    "explored for bounds, move limit and write-back, but an update in which they keep the volume from being met is "
    "observed_only 'zero_gradient_variable_blocks_volume'; with xmin = 0 they are inadmissible (0/0)",
    "convergence is judged in the bounded-horizon form: sum c/x, tolx=tolf=0, maxit = ceil(max(xmax-xmin)/move)+10 "
    "iterations, feasible volume; final objective and design inside the band a multiplier within l1l2tol of the "
    "exact KKT multiplier gives. Runs stopped by the default tolx/tolf are judged on every iteration but not on the "
    "distance of their last design to the optimum",
    "move, xmin/xmax as documented (scalar move; scalar or length-n vector bounds); l1init/l2init left at defaults",
    "reference pmc/refs/oc.py (textbook OC step, double precision bisection to the last bit) is trusted",
]

PRIMES = [2, 3, 5, 7, 11, 13, 17, 19, 23, 29, 31, 37]
NTAB = 3
L2INIT = 1e5      # default upper end of the routine's multiplier bracket
DEFAULT_STOP_GAP = 0.1   # largest gap measured over the thorough lattice of all three tables: 0.0098
GAPS = []


def frac(v):
    return float(v - np.floor(v))


def c_table(name, t, n):
    if name == 'asc':
        base = [1.0, 2.0, 3.0, 4.0, 5.0, 0.5]
        s = [1.0, float(np.sqrt(2)) / 1.2, float(np.sqrt(3)) / 1.5][t]
        c = [b * s for b in base]
    elif name == 'gen':
        c = [float(np.sqrt(PRIMES[(5 * i + t) % 12])) for i in range(6)]
    elif name == 'equal':
        c = [float(np.sqrt(PRIMES[t + 1]))] * 6
    elif name == 'wide':
        w = [0.05, 8.0, 0.3, 5.0, 0.02, 2.0]
        c = [w[i] * float(np.sqrt(PRIMES[(i + t) % 12])) / 1.5 for i in range(6)]
    elif name == 'zero':
        c = [float(np.sqrt(PRIMES[(5 * i + t) % 12])) for i in range(6)]
        c[1 if n > 1 else 0] = 0.0
        if n == 1:
            c[0] = 1.0      # a single variable with zero gradient has a zero objective: keep it out
    elif name == 'noise':
        # one coefficient is rounding noise of the WRONG sign (its sensitivity is a positive number far below every
        # warning threshold): the variable behaves like one with zero gradient
        c = [float(np.sqrt(PRIMES[(5 * i + t) % 12])) for i in range(6)]
        c[1 if n > 1 else 0] = -1e-22
        if n == 1:
            c[0] = 1.0
    else:
        raise KeyError(name)
    return np.array(c[:n], dtype=float)


def bounds_table(name, t, n):
    """-> (xmin, xmax, kwargs given to minimize_oc) ; xmin/xmax as passed (scalar or vector)"""
    slo, shi = [(0.01, 1.0), (0.02, 0.9), (0.05, 1.5)][t]
    vlo = np.linspace(slo, 0.1, n)
    vhi = np.linspace(0.8 * shi, shi, n)
    if name == 'default':
        return 0.0, 1.0, {}
    if name == 'scalar':
        return slo, shi, {'xmin': slo, 'xmax': shi}
    if name == 'vec':
        return vlo, vhi, {'xmin': vlo.copy(), 'xmax': vhi.copy()}
    if name == 'svec':
        return slo, vhi, {'xmin': slo, 'xmax': vhi.copy()}
    if name == 'vecs':
        return vlo, shi, {'xmin': vlo.copy(), 'xmax': shi}
    if name == 'intscalar':      # bounds given as python integers (xmin=0, xmax=1)
        return 0.0, 1.0, {'xmin': 0, 'xmax': 1}
    if name == 'intvec':         # bounds given as integer-typed arrays
        return np.zeros(n), np.ones(n), {'xmin': np.zeros(n, dtype=int), 'xmax': np.ones(n, dtype=int)}
    if name == 'pinned':
        k = n // 2
        vlo = vlo.copy()
        vhi = vhi.copy()
        vlo[k] = vhi[k] = 0.4
        return vlo, vhi, {'xmin': vlo.copy(), 'xmax': vhi.copy()}
    raise KeyError(name)


def start_table(name, t, n, xmin, xmax, move):
    lo, hi = oc.full(xmin, n), oc.full(xmax, n)
    if name in ('u03', 'u05'):
        v = {'u03': 0.3, 'u05': 0.5}[name]
        return np.minimum(np.maximum(np.full(n, v), lo), hi)
    if name == 'lo':
        return lo.copy()
    if name == 'hi':
        return hi.copy()
    if name == 'mixed':
        tt = np.array([frac(np.sqrt(PRIMES[(i + 2 * t) % 12])) for i in range(n)])
        return lo + tt * (hi - lo)
    if name == 'near_out':
        # alternately above xmax and below xmin by less than the move limit (and still positive)
        x = np.empty(n)
        for i in range(n):
            if i % 2 == 0:
                x[i] = hi[i] + 0.4 * move
            else:
                x[i] = lo[i] - min(0.4 * move, 0.5 * lo[i])
        return x
    raise KeyError(name)


def maxvol_table(name, n, xmin, xmax):
    lo, hi = oc.full(xmin, n), oc.full(xmax, n)
    return {'none': None, 'f03': 0.3 * n, 'f06': 0.6 * n, 'over': 1.2 * float(np.sum(hi)),
            'under': 0.5 * float(np.sum(lo)), 'edge_hi': float(np.sum(hi)), 'edge_lo': float(np.sum(lo))}[name]


LAYOUTS = {
    # name: (sizes of the variable signals, how `variables` is passed)
    'one1_bare': ([1], 'bare'), 'one1_list': ([1], 'list'), 'one2_list': ([2], 'list'), 'one3_bare': ([3], 'bare'),
    'one6_list': ([6], 'list'), 'one6_bare': ([6], 'bare'), 'one3_tuple': ([3], 'tuple'),
    'two_2+3': ([2, 3], 'list'), 'two_3+3': ([3, 3], 'list'), 'arr3+len1': ([3, 1], 'list'),
    'len1+arr2': ([1, 2], 'list'), 'len1+len1': ([1, 1], 'list'), 'three_1+2+3': ([1, 2, 3], 'list'),
    'two_4+2_tuple': ([4, 2], 'tuple'), 'four_1+2+1+2': ([1, 2, 1, 2], 'list'), 'three_3+1+2_tuple': ([3, 1, 2], 'tuple'),
}


# layouts in which some variable signals hold a 0-d value (python float) instead of an array: {layout: signal indices}
SCALAR_SIGNALS = {'arr3+scalar': [1], 'arr2+scalar+arr2': [1], 'scalar+arr3': [0], 'scalars3': [0, 1, 2]}
LAYOUTS.update({'arr3+scalar': ([3, 1], 'list'), 'arr2+scalar+arr2': ([2, 1, 2], 'list'), 'scalar+arr3': ([1, 3], 'list'),
                'scalars3': ([1, 1, 1], 'list')})


def horizon(move, xmin, xmax, n):
    rng = float(np.max(oc.full(xmax, n) - oc.full(xmin, n)))
    return int(np.ceil(rng / move) + 10)


_CLS = {}
HELD = []


def recorder_class():
    if 'c' in _CLS:
        return _CLS['c']
    import pymoto as pym

    class Recorder(pym.Module):
        """objective of the family + log of the variable signals' states at every response"""

        def _prepare(self, kind, cparts, variables, log):
            self.kind, self.cparts, self.variables, self.log = kind, cparts, variables, log

        def _response(self, *xs):
            self.log.append([np.array(s.state, copy=True) for s in self.variables])
            HELD.append([s.state for s in self.variables])      # the design objects themselves, kept like a history
            self.xs = [np.array(v, dtype=float, copy=True) for v in xs]
            if self.kind == 'inv':
                return sum(float(np.sum(c / x)) for c, x in zip(self.cparts, self.xs))
            if self.kind == 'invsq':
                return sum(float(np.sum(c / (x * x))) for c, x in zip(self.cparts, self.xs))
            self.d = sum(float(np.sum(c * x)) for c, x in zip(self.cparts, self.xs))
            return 1.0 / self.d

        def _sensitivity(self, df):
            if self.kind == 'inv':
                return [-df * c / (x * x) for c, x in zip(self.cparts, self.xs)]
            if self.kind == 'invsq':
                return [-2.0 * df * c / (x * x * x) for c, x in zip(self.cparts, self.xs)]
            return [-df * c / self.d ** 2 for c in self.cparts]

    _CLS['c'] = Recorder
    return Recorder


def problem(case):
    t = case['table']
    sizes, how = LAYOUTS[case['layout']]
    n = int(sum(sizes))
    c = c_table(case['c'], t, n) * case.get('cscale', 1.0)     # cscale: magnitude of the objective (1 or 1e-9)
    xmin, xmax, bkw = bounds_table(case['bounds'], t, n)
    x0 = start_table(case['start'], t, n, xmin, xmax, case['move'])
    if case.get('shared'):       # all (equally sized) variable signals start from ONE array object: equal start values
        assert len(set(sizes)) == 1
        x0 = np.tile(x0[:sizes[0]], len(sizes))
    maxvol = maxvol_table(case['maxvol'], n, xmin, xmax)
    return sizes, how, n, c, xmin, xmax, bkw, x0, maxvol


def admissible(case):
    sizes, how, n, c, xmin, xmax, bkw, x0, maxvol = problem(case)
    if np.any(x0 <= 0):
        return 'start design not strictly positive (objective c/x undefined)'
    if case.get('xdtype') == 'int' and not np.array_equal(x0, np.round(x0)):
        return 'start design is not integer-valued'
    if np.any(c <= 0) and np.any(oc.full(xmin, n) <= 0):
        return 'zero-gradient variable with xmin = 0 (it is driven to x = 0 where c/x is 0/0)'
    if case['kind'] == 'comp' and float(np.dot(c, x0)) <= 0:
        return 'objective undefined'
    if case['kind'] != 'comp' and not np.any(c > 0):
        return 'objective identically zero'
    return None


def run_once(case, tol, stop):
    """One minimize_oc run on fresh objects.  Returns (designs: per logged response the list of the variable
    signals' states, plus the final states if they differ from the last logged ones; effective maxvol; the exception
    minimize_oc raised or None; number of responses)."""
    import pymoto as pym
    sizes, how, n, c, xmin, xmax, bkw, x0, maxvol = problem(case)
    offs = np.concatenate([[0], np.cumsum(sizes)]).astype(int)
    sigs = [pym.Signal(f'x{i}', x0[offs[i]:offs[i + 1]].copy()) for i in range(len(sizes))]
    if case.get('shared'):
        one = x0[:sizes[0]].copy()
        sigs = [pym.Signal(f'x{i}', one) for i in range(len(sizes))]
    if case.get('sigkind') in ('fancy', 'basic'):
        # the variables are slices of ONE signal: contiguous parts ('basic') or index arrays into a reversed order
        base_sig = pym.Signal('x', np.zeros(n))
        where = np.arange(n) if case['sigkind'] == 'basic' else np.arange(n)[::-1]
        st = np.zeros(n)
        st[where] = x0
        base_sig.state = st
        sigs = [base_sig[slice(int(offs[i]), int(offs[i + 1]))] if case['sigkind'] == 'basic'
                else base_sig[where[offs[i]:offs[i + 1]].copy()] for i in range(len(sizes))]
    for i_ in SCALAR_SIGNALS.get(case['layout'], []):
        sigs[i_].state = float(x0[offs[i_]])
    if case.get('xdtype') == 'int':     # integer-typed start design (np.ones(n, dtype=int)): a legitimate input
        for s_ in sigs:
            s_.state = s_.state.astype(int)
    order = list(range(len(sizes)))
    if case.get('rev'):
        order = order[::-1]
    log = []
    HELD.clear()
    Rec = recorder_class()
    m = Rec([sigs[i] for i in order], pym.Signal('f'), case['kind'], [c[offs[i]:offs[i + 1]].copy() for i in order],
            sigs, log)
    fn = pym.Network(m)
    kw = dict(bkw)
    kw.update(verbosity=0, maxit=int(case['maxit']), move=case['move'], l1l2tol=tol * case.get('cscale', 1.0))
    if maxvol is not None:
        kw['maxvol'] = maxvol
    if stop == 'off':
        kw.update(tolx=0.0, tolf=0.0)
    variables = {'bare': sigs[0], 'list': list(sigs), 'tuple': tuple(sigs)}[how]
    exc = None
    try:
        pym.minimize_oc(fn, variables, m.sig_out[0], **kw)
    except Exception as e:  # noqa
        exc = e
    final = [np.array(s.state, copy=True) for s in sigs]
    designs = list(log)
    if exc is None and designs and not all(np.array_equal(a, b) for a, b in zip(final, designs[-1])):
        designs.append(final)
    elif exc is None and not designs:
        designs.append(final)
    return designs, (float(np.sum(x0)) if maxvol is None else float(maxvol)), exc, len(log)


def judge_run(case, tol, stop):
    """-> dict(iterations, checks, tags, nontrivial, observed_only, violations)"""
    from pmc.engine.run import classify_exception
    sizes, how, n, c, xmin, xmax, bkw, x0, maxvol = problem(case)
    kind = case['kind']
    lo_full, hi_full = oc.full(xmin, n), oc.full(xmax, n)
    multi = 'multi' if len(sizes) > 1 else 'single'
    c_opt = np.maximum(c, 0.0)       # what the optimum is judged with: a sensitivity of the wrong sign counts as zero
    V, tags, obs = [], set(), []
    nchecks = 0
    narrowed = dict(case, runs=[[tol, stop]])

    def bad(check, sig, **detail):
        s = {'check': check}
        s.update(sig)
        if not any(v['signature'] == s for v in V):
            detail.update(l1l2tol=tol, stop=stop, xmin=xmin, xmax=xmax, c=c, x0=x0, maxvol=maxvol)
            V.append({'check': check, 'signature': s, 'detail': detail, 'case': narrowed})

    designs, vol, exc, nresp = run_once(case, tol, stop)
    tol_user = tol
    tol = tol * case.get('cscale', 1.0)      # the multiplier scales with the objective: so does its bisection tolerance
    if exc is not None:
        in_repo, where = classify_exception(exc)
        if not in_repo:
            raise exc
        bad('raised', {'exc': type(exc).__name__, 'where': where}, error=str(exc)[:500], responses=nresp)
        tags.add('raised')
    # designs handed to the network in earlier iterations (kept by reference, as a monitoring module would) are still the
    # designs they were when the run has ended
    if exc is None and case.get('sigkind') is None:
        nchecks += 1
        for k_, (refs_, cop_) in enumerate(zip(HELD, designs)):
            if any(not np.array_equal(np.asarray(a_), np.asarray(b_)) for a_, b_ in zip(refs_, cop_)):
                bad('earlier_design_changed', {}, evaluation=k_, now=[np.asarray(a_) for a_ in refs_], as_handed_out=cop_)
                break
    nontrivial = False
    nupd = 0
    bands = {}
    shapes_ok = True
    for k, d in enumerate(designs):
        nchecks += 1
        own_start = k == 0 and case.get('xdtype') == 'int'      # the start design is the user's own integer array
        scal = SCALAR_SIGNALS.get(case['layout'], [])      # a scalar variable may come back as 0-d value or length-1 array
        if len(d) != len(sizes) or any((np.shape(p) != (sz,) and not (q in scal and np.shape(p) == ()))
                                       or (np.asarray(p).dtype.kind != 'f' and not own_start)
                                       for q, (p, sz) in enumerate(zip(d, sizes))):
            bad('writeback_shape', {}, step=k, got=[list(np.shape(p)) for p in d], want=[[s] for s in sizes])
            shapes_ok = False
            break
    if not shapes_ok:
        designs = designs[:k]
    flat = [np.concatenate([np.atleast_1d(np.asarray(p, dtype=float)) for p in d]) for d in designs]
    offs = np.concatenate([[0], np.cumsum(sizes)]).astype(int)

    for k in range(1, len(flat)):
        xp, xn = flat[k - 1], flat[k]
        nupd += 1
        where = dict(step=k, x_prev=xp, x_new=xn)
        if not np.all(np.isfinite(xn)):
            bad('nonfinite_design', {}, **where)
            break
        # 1. bounds, exact
        nchecks += 1
        box_ok = True
        if np.any(xn < lo_full) or np.any(xn > hi_full):
            box_ok = False
            side = 'below_xmin' if np.any(xn < lo_full) else 'above_xmax'
            exc_ = float(max(np.max(lo_full - xn), np.max(xn - hi_full)))
            bad('bounds', {'side': side, 'excess': 'rounding' if exc_ < 1e-12 else 'gross'}, excess=exc_, **where)
        # 2. move limit
        nchecks += 1
        dx = float(np.max(np.abs(xn - xp)))
        slack = 1e-9 * max(1.0, float(np.max(np.abs(xp)))) + 1e-12
        if dx > case['move'] + slack:
            box_ok = False
            r = dx / case['move']
            bad('move', {'ratio': 'rounding' if r < 1 + 1e-6 else '(1,2]' if r <= 2 + 1e-6 else '>2'}, dx=dx,
                move=case['move'], ratio=r, **where)
        if not box_ok:
            tags.add('outside_move_box')
            continue          # the band below presupposes the move box; a design outside it is already reported
        # 3. volume and component band
        bkey = xp.tobytes()
        if bkey not in bands:     # the reference is a pure function of the previous design: memoise repeated designs
            bands[bkey] = oc.oc_band(xp, oc.gradient(kind, c, xp), xmin, xmax, case['move'], vol, tol)
        band = bands[bkey]
        vn = float(np.sum(xn))
        sv = 1e-9 * max(1.0, float(np.sum(np.abs(xn))), abs(vol)) + 1e-12
        sx = 1e-9 * max(1.0, float(np.max(np.abs(xn)))) + 1e-12
        inband = bool(np.all(xn >= band['x_lo'] - sx) and np.all(xn <= band['x_hi'] + sx))
        if not band['reachable']:
            tags.add('unreachable_' + ('above' if vol > float(np.sum(band['upper'])) else 'below')
                     + ('' if inband else '/offband'))
            continue
        if not band['root_in_bracket']:
            why = ('multiplier_root_above_l2init' if band['root_above_bracket']
                   else 'zero_gradient_variable_blocks_volume')
            tags.add(why)
            obs.append(why)
            continue
        nchecks += 2
        free = band['free'] > 0
        tags.add('reachable/' + ('free' if free else 'allclipped'))
        nontrivial = nontrivial or free
        if not (band['v_lo'] - sv <= vn <= band['v_hi'] + sv):
            side = 'too_large' if vn > band['v_hi'] else 'too_small'
            width = max(band['v_hi'] - band['v_lo'], sv)
            off = (vn - band['v_hi']) if vn > band['v_hi'] else (band['v_lo'] - vn)
            bad('volume_band', {'layout': multi}, side=side, excess_over_bandwidth=off / width,
                volume=vn, maxvol=vol, band=[band['v_lo'], band['v_hi']], lam=[band['lam_lo'], band['lam_hi']],
                **where)
        elif not inband:      # (a volume outside its band already implies a component outside its band)
            which = [i for i in range(len(sizes))
                     if np.any(xn[offs[i]:offs[i + 1]] < band['x_lo'][offs[i]:offs[i + 1]] - sx)
                     or np.any(xn[offs[i]:offs[i + 1]] > band['x_hi'][offs[i]:offs[i + 1]] + sx)]
            cause = 'update'
            if len(sizes) > 1:
                # diagnosis only: does the design fit after permuting equally sized signals?
                for perm in itertools.permutations(range(len(sizes))):
                    if list(perm) == list(range(len(sizes))) or [sizes[p] for p in perm] != list(sizes):
                        continue
                    xq = np.concatenate([xn[offs[p]:offs[p + 1]] for p in perm])
                    if np.all(xq >= band['x_lo'] - sx) and np.all(xq <= band['x_hi'] + sx):
                        cause = 'signals_permuted'
            err = float(max(np.max(band['x_lo'] - xn), np.max(xn - band['x_hi'])))
            bad('update_band', {'cause': cause, 'layout': multi},
                signals_off=which, x_lo=band['x_lo'], x_hi=band['x_hi'], err=err,
                lam=[band['lam_lo'], band['lam_hi']], **where)

    # per run: convergence on the separable family
    if kind == 'inv' and exc is None and shapes_ok and flat:
        if stop != 'off':
            tags.add('default_stop')
            judged = not V and case['start'] != 'near_out' and case['c'] not in ('zero', 'noise')   # (measured on this sub-lattice)
            opt = oc.analytic_optimum_inv(c_opt, xmin, xmax, vol, tol) if judged else None
            if opt is not None and opt['mu'][0] < L2INIT - tol:
                # with the default stopping rules (relative change of objective / design below 1e-4) the run ends near
                # the optimum: the objective gap is bounded by DEFAULT_STOP_GAP (measured margin, DESIGN section 6)
                nchecks += 1
                fe_ = oc.objective('inv', c, flat[-1])
                gap = (fe_ - opt['f_opt']) / abs(opt['f_opt'])
                GAPS.append(gap)
                if gap > DEFAULT_STOP_GAP:
                    bad('converge', {'what': 'objective', 'stop': 'default'}, f_end=fe_, f_opt=opt['f_opt'],
                        x_end=flat[-1], x_opt=opt['x_opt'], iterations=nresp, rel_gap=gap)
        elif V:
            tags.add('convergence_not_judged_after_iteration_violation')
        else:
            opt = oc.analytic_optimum_inv(c_opt, xmin, xmax, vol, tol)
            if opt is None:
                tags.add('infeasible_volume')
            elif opt['mu'][0] >= L2INIT - tol:
                tags.add('optimum_multiplier_outside_bracket')
                obs.append('optimum_multiplier_outside_bracket')
            else:
                nchecks += 2
                xe = flat[-1]
                fe_ = oc.objective('inv', c_opt, xe)
                sf = 1e-9 * max(1.0, abs(fe_)) + 1e-12
                sx = 1e-9 * max(1.0, float(np.max(np.abs(xe)))) + 1e-12
                pos = c_opt > 0
                okf = opt['f_lo'] - sf <= fe_ <= opt['f_hi'] + sf
                okx = bool(np.all(xe[pos] >= opt['x_lo'][pos] - sx) and np.all(xe[pos] <= opt['x_hi'][pos] + sx))
                tags.add('converged' if okf and okx else 'not_converged')
                if not (okf and okx):
                    gap = (fe_ - opt['f_opt']) / abs(opt['f_opt'])
                    bad('converge', {'what': 'objective' if not okf else 'design'},
                        f_end=fe_, f_opt=opt['f_opt'], f_band=[opt['f_lo'], opt['f_hi']], x_end=xe,
                        x_opt=opt['x_opt'], iterations=nresp, rel_gap=gap)
    return {'iterations': len(flat), 'updates': nupd, 'checks': nchecks, 'tags': tags, 'nontrivial': nontrivial,
            'observed_only': obs, 'violations': V}


def execute(case):
    why = admissible(case)
    if why:
        return {'skipped': why}
    states = trans = checks = 0
    keys, tags, obs, V = [], set(), [], []
    base = '|'.join(str(case.get(k)) for k in ('layout', 'rev', 'kind', 'c', 'start', 'bounds', 'move', 'maxvol', 'table',
                                                'cscale', 'xdtype', 'shared', 'sigkind'))
    for tol, stop in case['runs']:
        r = judge_run(case, tol, stop)
        states += max(r['iterations'], 1)
        trans += max(r['updates'], 1)      # a run that raised is still one judged operation
        checks += r['checks']
        tags |= r['tags']
        obs += r['observed_only']
        if r['nontrivial']:
            keys.append(f"{base}|{tol}|{stop}")
        for v in r['violations']:
            if not any(x['signature'] == v['signature'] for x in V):
                V.append(v)
    return {'states': states, 'transitions': trans, 'checks': checks, 'nontrivial': bool(keys),
            'key': keys or [base + '|trivial'], 'outcome': sorted(tags), 'observed_only': sorted(set(obs)),
            'violations': V}


# --------------------------------------------------------------------------------------------------- enumeration
RUNS_Q = [[1e-4, 'off'], [1e-8, 'off'], [1e-4, 'default']]
RUNS_T = [[tol, stop] for tol in (1e-2, 1e-4, 1e-6, 1e-8) for stop in ('off', 'default')]
MULTI = [k for k, v in LAYOUTS.items() if len(v[0]) > 1]

Q_AXES = dict(
    layouts=['one1_bare', 'one2_list', 'one3_bare', 'one6_list', 'two_2+3', 'arr3+len1', 'len1+arr2', 'three_1+2+3',
             'four_1+2+1+2', 'arr3+scalar', 'arr2+scalar+arr2', 'scalar+arr3', 'scalars3'],
    kind_c=[['inv', 'asc'], ['inv', 'wide'], ['comp', 'asc']],
    starts=['u03', 'hi', 'mixed'],
    bounds=['default', 'scalar', 'vec'],
    moves=[0.05, 0.2, 1.0],
    maxvols=['none', 'f03', 'f06', 'over'],
    runs=RUNS_Q,
)
ALL_STARTS = ['u03', 'u05', 'lo', 'hi', 'mixed', 'near_out']
ALL_BOUNDS = ['default', 'scalar', 'vec', 'svec', 'vecs', 'pinned']
ALL_MAXVOLS = ['none', 'f03', 'f06', 'over', 'under', 'edge_hi', 'edge_lo']
ALL_MOVES = [0.05, 0.1, 0.2, 0.5, 1.0]
T_LEVELS = [
    ('quick-lattice x all tolerances x both stoppings',
     dict(Q_AXES, kind_c=[['inv', 'asc'], ['inv', 'wide'], ['comp', 'asc'], ['comp', 'wide']], runs=RUNS_T)),
    ('all layouts x all objectives',
     dict(Q_AXES, layouts=list(LAYOUTS),
          kind_c=[['inv', 'asc'], ['invsq', 'asc'], ['invsq', 'wide'], ['comp', 'wide']])),
    ('all starts x bounds x volume targets x c tables',
     dict(Q_AXES, layouts=['one3_bare', 'one6_list', 'two_2+3', 'arr3+len1'],
          kind_c=[['inv', c] for c in ('asc', 'gen', 'equal', 'wide', 'zero')] + [['comp', 'gen']],
          starts=ALL_STARTS, bounds=ALL_BOUNDS, maxvols=ALL_MAXVOLS, moves=[0.1, 1.0])),
    ('all move limits x all objectives',
     dict(Q_AXES, layouts=['one2_list', 'one6_bare', 'two_3+3', 'three_1+2+3', 'len1+len1'],
          kind_c=[[k, c] for k in ('inv', 'invsq', 'comp') for c in ('gen', 'equal', 'zero')],
          moves=ALL_MOVES, starts=['u05', 'lo', 'mixed'], bounds=['scalar', 'pinned'],
          maxvols=['none', 'f06', 'under', 'edge_hi'])),
]


def bounds(tier, seed):
    b = {'value_table': seed % NTAB,
         'maxit': 'ceil(max(xmax-xmin)/move)+10 (all of them executed when stopping is off)',
         'wiring': 'module inputs in variable order; for multi-signal layouts also reversed',
         'runs': '[l1l2tol, stopping] pairs executed for every lattice point'}
    if tier == 'quick':
        b['lattice'] = Q_AXES
    else:
        b['levels'] = [{'level': name, 'lattice': ax} for name, ax in T_LEVELS]
    return b


def _cases(ax, t):
    def simplicity(c):
        return (sum(LAYOUTS[c['layout']][0]), len(LAYOUTS[c['layout']][0]), c['rev'])
    out = []
    for lay, (kind, cn), st, bn, mv, mx in itertools.product(ax['layouts'], ax['kind_c'], ax['starts'], ax['bounds'],
                                                             ax['moves'], ax['maxvols']):
        sizes = LAYOUTS[lay][0]
        n = int(sum(sizes))
        xmin, xmax, _ = bounds_table(bn, t, n)
        for rev in ([0, 1] if len(sizes) > 1 else [0]):
            out.append({'layout': lay, 'rev': rev, 'kind': kind, 'c': cn, 'start': st, 'bounds': bn, 'move': mv,
                        'maxvol': mx, 'table': t, 'maxit': horizon(mv, xmin, xmax, n),
                        'runs': [list(r) for r in ax['runs']]})
    out.sort(key=simplicity)
    return out


VARIANT_AXES = dict(
    layouts=['one3_bare', 'two_2+3', 'arr3+len1'], kind_c=[['inv', 'asc'], ['inv', 'wide'], ['comp', 'asc']],
    starts=['u03', 'hi', 'mixed'], bounds=['default', 'scalar', 'vec'], moves=[0.2, 1.0], maxvols=['f03', 'f06'],
    runs=[[1e-4, 'default'], [1e-4, 'off']])
# objective of magnitude 1e-9 (bisection tolerance scaled with it); integer-typed start design
VARIANTS = [{'cscale': 1e-9}, {'xdtype': 'int'}]


# wrong-sign rounding noise in one sensitivity; all variable signals started from one array object; variables that are
# slices (contiguous / index arrays) of one signal
INTB_AXES = dict(VARIANT_AXES, bounds=['intscalar', 'intvec'], kind_c=[['inv', 'asc'], ['inv', 'wide']])
NOISE_AXES = dict(VARIANT_AXES, kind_c=[['inv', 'noise'], ['comp', 'noise'], ['invsq', 'noise']], bounds=['scalar', 'vec'])
SHARED_AXES = dict(VARIANT_AXES, layouts=['two_3+3', 'len1+len1'])
SLICE_AXES = dict(VARIANT_AXES, layouts=['two_2+3', 'three_1+2+3', 'one3_bare'])


def variant_cases(t):
    for var in VARIANTS:
        for c in _cases(VARIANT_AXES, t):
            yield dict(c, **var)
    yield from _cases(NOISE_AXES, t)
    yield from _cases(INTB_AXES, t)
    for c in _cases(SHARED_AXES, t):
        yield dict(c, shared=True)
    for sk in ('basic', 'fancy'):
        for c in _cases(SLICE_AXES, t):
            yield dict(c, sigkind=sk)


def generate(tier, seed):
    t = seed % NTAB
    if tier == 'quick':
        yield {'__level__': 'main lattice'}
        yield from _cases(Q_AXES, t)
        yield {'__level__': 'objective magnitude 1e-9 / integer-typed start'}
        yield from variant_cases(t)
        return
    seen = set()
    for name, ax in T_LEVELS:
        yield {'__level__': name}
        for c in _cases(ax, t):
            k = repr(sorted((a, repr(b)) for a, b in c.items()))
            if k not in seen:
                seen.add(k)
                yield c
    yield {'__level__': 'objective magnitude 1e-9 / integer-typed start'}
    yield from variant_cases(t)
