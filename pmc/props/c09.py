"""C09 -- density filters are the normalised local averages they are defined to be (E1 lattice explorer).

Families of cases (one descriptor = one grid x one kernel/radius x a batch of boundary-mode tuples, every field):
  DF   DensityFilter(domain, radius)                       vs refs.filters.density_operator
  FCR  FilterConv(domain, radius, relative_units, *_bc)    vs cone kernel + refs.filters.conv_operator
  FCW  FilterConv(domain, weights, *_bc) [+override_values] vs refs.filters.conv_operator
Fields: the unit impulse at every element (=> the complete operator), zero, a constant, an index-coded field and a
signed index-coded field.  Invariants (constant -> constant, min x <= y <= max x, volume) are only judged where the
statement's preconditions hold."""
import itertools
import numpy as np
from pmc.refs import filters as rf
from pmc.engine.tol import alg_err, exact_equal, maxabs, mag

PROPERTY = 'C09'
RULE = ("lattice: grid x (radius | explicit odd kernel from a named table) x boundary-mode tuple over "
        "{symmetric, edge, wrap, 0.0, 0.7}^(2*dim) x field (unit impulse at EVERY element, zero, constant, index-coded, "
        "signed index-coded); a state is one (module, configuration, mode tuple); it is non-trivial if the padding is "
        "inside the kernel support (FilterConv: some axis has pad>0) or a neighbour carries weight (DensityFilter: "
        "radius>1 and more than one element); distinct by (family, grid, element size, kernel/radius, units, mode tuple "
        "with the modes of axes whose pad is 0 blanked, override); mode tuples the statement does not define are "
        "tallied under observed_only as 'inadmissible: ...' and never judged")
RULE += " Extended in seeding rounds 6-7:  relative_units as int / numpy bool; kernel array re-used by the caller; outputs of earlier calls held by reference."
ASSUMPTIONS = [
    "boundary semantics = separable per-axis index map (symmetric = reflect including the edge element, edge = clamp, "
    "wrap = periodic, number = constant); different constants are only placed on the same axis, so no corner where two "
    "different constants meet is ever judged",
    "an axis with two different rules is only judged with pad <= domain size (beyond that a one-sided reflect/wrap would "
    "have to look past the other boundary, which the statement leaves open); axes with the same rule on both sides are "
    "judged for any pad (symmetric = mirror images alternating with period 2n, wrap = period n)",
    "FilterConv(radius=...): the module's own kernel support is accepted if it contains every offset with non-zero cone "
    "weight OR is cut at the domain size (the statement does not say which); on that support the weights must be the "
    "normalised cone max(0, r-d), d in element counts (relative units) or physical lengths (absolute units)",
    "DensityFilter distance: element counts; on a domain with non-unit element size a result that uses physical "
    "distances instead is accepted as well (statement silent)",
    "a one-axis kernel (N,) is read like every other kernel: axis 0 is x (the constructor appends the missing trailing "
    "axes); the docstring names 2-D and 3-D kernels only, so this is the natural extension the code itself implements",
    "override_values: the statement does not say whether mirror images of an overridden element show the override; "
    "both orders (extend-then-override, override-then-extend) are accepted, strict agreement is demanded where they coincide",
    "2-D domains get 2-D kernels (size one in z); kernels of even size and radius 0 are documented non-support",
    "numpy float arithmetic in the reference; ALG tolerance 1e-9*scale+1e-12",
]

SIDES = ('xmin_bc', 'xmax_bc', 'ymin_bc', 'ymax_bc', 'zmin_bc', 'zmax_bc')
ALPHABET = ['symmetric', 'edge', 'wrap', 0.0, 0.7]
PAIRS = [(a, b) for a in ALPHABET for b in ALPHABET]
SYM2 = ('symmetric', 'symmetric')
# same rule on both boundaries of an axis (two different constants are the same *rule*)
UNIFORM_PAIRS = [(m, m) for m in ALPHABET] + [(0.0, 0.7), (0.7, 0.0)]
RADII = [0.5, 1.0, 1.5, 2.0, 2.5, 3.7, 9.0]
ANISO = [0.5, 2.0, 1.5]
UNIT = [1.0, 1.0, 1.0]
# irrational multipliers of the Weyl sequences frac((k+1)*alpha) that fill kernels and fields; VERIF_SEED picks one
ALPHAS = [float(np.sqrt(p)) for p in (2, 3, 5, 7, 11, 13, 17, 19, 23, 29)]

# mixed-mode list used with radius kernels and overrides (uniform tuples first)
MIXED6 = [[m] * 6 for m in ALPHABET] + [
    ['edge', 'wrap', 'symmetric', 'edge', 'wrap', 'symmetric'],
    ['wrap', 'symmetric', 'edge', 'wrap', 'symmetric', 'edge'],
    ['symmetric', 'edge', 'wrap', 'symmetric', 'edge', 'wrap'],
    ['symmetric', 0.7, 'edge', 0.7, 'wrap', 0.7],
    [0.0, 'wrap', 0.0, 'symmetric', 0.0, 'edge'],
    [0.0, 0.7, 'symmetric', 'symmetric', 'edge', 'edge'],
    ['wrap', 'wrap', 0.7, 0.0, 'symmetric', 'edge'],
    ['edge', 'symmetric', 'edge', 'symmetric', 0.7, 0.0],
    ['symmetric', 'symmetric', 'symmetric', 'edge', 'symmetric', 'symmetric'],
    ['symmetric', 'symmetric', 'symmetric', 'symmetric', 'symmetric', 'wrap'],
    ['edge', 'symmetric', 'symmetric', 'symmetric', 'symmetric', 'symmetric'],
    [0.7, 'edge', 0.7, 'wrap', 0.7, 'symmetric'],
]
OVERRIDES = ['pt0', 'ptlast', 'xlo', 'yhi', 'checker', 'arr', 'two', 'overlap2', 'overlap3']


# ------------------------------------------------------------------------------------------------ tables
def frac(a):
    return a - np.floor(a)


def make_kernel(name, shape, seed):
    n = int(np.prod(shape))
    al = ALPHAS[(seed + 3) % len(ALPHAS)]
    g = frac((np.arange(n) + 1.0) * al).reshape(shape)
    if name == 'asym':       # positive, asymmetric, NOT normalised
        return 0.05 + g
    if name == 'asymn':      # positive, asymmetric, sums to one
        w = 0.05 + g
        return w / w.sum()
    if name == 'signed':     # mixed signs
        return g - 0.45
    if name == 'msym':       # positive, mirror-symmetric about every axis (neither separable nor radial), sums to one
        w = 0.05 + g
        for ax in range(3):
            w = w + np.flip(w, axis=ax)
        return w / w.sum()
    if name == 'shift':      # a single tap in the corner: the output IS the extended field at offset +pad
        w = np.zeros(shape)
        w[0, 0, 0] = 1.0
        return w
    raise KeyError(name)


def make_fields(n, seed):
    al = ALPHAS[seed % len(ALPHAS)]
    k = np.arange(n) + 1.0
    F = [(f'imp{e}', np.eye(n)[e]) for e in range(n)]
    F.append(('zero', np.zeros(n)))
    F.append(('const', np.full(n, 0.25 + 0.5 * frac(al))))
    F.append(('coded', 0.1 + frac(k * al)))
    F.append(('signed', frac(k * al * 1.5 + 0.3) - 0.5))
    return F


def make_override(name, grid):
    """[(index object handed to override_values, [(i,j,k)...], value)] -- built from the name only."""
    nx, ny, nz = rf.dims3(grid)
    if name == 'pt0':
        return [((0, 0, 0), [(0, 0, 0)], 0.25)]
    if name == 'ptlast':
        return [((nx - 1, ny - 1, nz - 1), [(nx - 1, ny - 1, nz - 1)], -0.4)]
    if name == 'xlo':
        return [(np.s_[0, :, :], [(0, j, k) for j in range(ny) for k in range(nz)], 1.0)]
    if name == 'yhi':
        return [(np.s_[:, ny - 1, :], [(i, ny - 1, k) for i in range(nx) for k in range(nz)], 0.6)]
    if name == 'checker':
        m = np.zeros((nx, ny, nz), dtype=bool)
        el = [(i, j, k) for i in range(nx) for j in range(ny) for k in range(nz) if (i + j + k) % 2 == 0]
        for t in el:
            m[t] = True
        return [(m, el, 0.3)]
    if name == 'arr':
        el = sorted({(i, i % ny, i % nz) for i in range(nx)})
        return [(tuple(np.array(c) for c in zip(*el)), el, 0.9)]
    if name == 'overlap3':
        # three registrations that overlap, values v1, v2, v1: the element in all three shows the last one
        return make_override('xlo', grid) + make_override('yhi', grid) + \
            [((0, ny - 1, 0), [(0, ny - 1, 0)], 1.0)]
    if name == 'overlap2':
        return make_override('yhi', grid) + make_override('xlo', grid)
    if name == 'two':
        return make_override('pt0', grid) + [((nx - 1, ny - 1, nz - 1), [(nx - 1, ny - 1, nz - 1)], 0.8)]
    raise KeyError(name)


def mode_kind(m):
    return 'const' if rf.is_const(m) else str(m)


def eff_modes(modes, pads, grid):
    """Mode tuple with the rules of inactive axes (pad 0, or z of a 2-D grid) blanked -> canonical key."""
    out = []
    for ax in range(3):
        active = pads[ax] > 0 and not (ax == 2 and grid[2] == 0)
        out += [str(modes[2 * ax]), str(modes[2 * ax + 1])] if active else ['-', '-']
    return ','.join(out)


# ------------------------------------------------------------------------------------------------ lattices
def tuples_2d(pads, zpair=SYM2):
    """All 5^4 tuples over the axes whose pad is active (inactive axes stay 'symmetric')."""
    px = PAIRS if pads[0] > 0 else [SYM2]
    py = PAIRS if pads[1] > 0 else [SYM2]
    return [list(a) + list(b) + list(zpair) for a in px for b in py]


def tuples_3d(pads):
    px = PAIRS if pads[0] > 0 else [SYM2]
    py = PAIRS if pads[1] > 0 else [SYM2]
    pz = PAIRS if pads[2] > 0 else [SYM2]
    return [list(a) + list(b) + list(c) for a in px for b in py for c in pz]


def tuples_uniform_axes(dim):
    ax = [UNIFORM_PAIRS] * dim + [[SYM2]] * (3 - dim)
    return [list(a) + list(b) + list(c) for a in ax[0] for b in ax[1] for c in ax[2]]


def tuples_deviation(nsides, maxdev=2):
    """Every tuple that differs from a uniform tuple (each of the 5 rules as base) on at most `maxdev` sides:
    contains every pair (side, rule) x (side', rule')."""
    seen, out = set(), []
    for base in ALPHABET:
        for ndev in range(maxdev + 1):
            for sides in itertools.combinations(range(nsides), ndev):
                for repl in itertools.product(ALPHABET, repeat=ndev):
                    t = [base] * nsides
                    for s, r in zip(sides, repl):
                        t[s] = r
                    t = t + ['symmetric'] * (6 - nsides)
                    k = tuple(map(str, t))
                    if k not in seen:
                        seen.add(k)
                        out.append(t)
    return out


def batches(lst, size):
    for i in range(0, len(lst), size):
        yield lst[i:i + size]


def grids2d(mx):
    g = [(a, b, 0) for a in range(1, mx + 1) for b in range(1, mx + 1)]
    return sorted(g, key=lambda t: (rf.nel(t), t))


def grids3d(mx):
    g = [(a, b, c) for a in range(1, mx + 1) for b in range(1, mx + 1) for c in range(1, mx + 1)]
    return sorted(g, key=lambda t: (rf.nel(t), t))


FCR_GRIDS_Q = [(1, 1, 0), (1, 3, 0), (3, 1, 0), (2, 2, 0), (4, 3, 0), (1, 1, 1), (2, 1, 3), (2, 2, 2), (3, 3, 2)]
FCR_UNITS = [(True, UNIT), (True, ANISO), (False, ANISO), (False, UNIT)]


def bounds(tier, seed):
    b = {
        'modes': [str(m) for m in ALPHABET], 'fields': 'impulse at every element + zero + constant + coded + signed',
        'value_table': f'Weyl sequences with alpha=sqrt(p), table {seed % len(ALPHAS)} of {len(ALPHAS)}',
        'DF': {'grids': '{1..4}^2 and {1..3}^3', 'radii': RADII, 'element_sizes': [UNIT, ANISO]},
        'FCR': {'grids': [list(g) for g in FCR_GRIDS_Q], 'radii': RADII, 'units': 'relative/absolute x unit/anisotropic',
                'mode_tuples': f'{len(MIXED6)} (5 uniform + mixed)'},
        'FCW_2d_full': 'all 5^4 tuples: 3x2 k3x3 asymn, 2x2 k5x3 signed, 1x2 k3x3 asym, 2x3 k3x5 msym',
        'FCW_wide': 'pad > domain, same rule per axis (7^dim tuples): 2x1,1x1,2x2 k5x5/k7x3; 1x1x2 k5x5x3',
        'FCW_3d': '2x2x2 k3x3x3: every tuple within 2 deviations of a uniform tuple',
        'FCW_inert': 'rules on axes with pad 0 and z rules on 2-D grids have no effect',
        'overrides': {'names': OVERRIDES, 'on': '3x2 k3x3, 2x2x2 k3x3x3, 4x3 k5x3, 3x2 r1.5 rel, 2x2x2 r2.5 abs; mixed list'},
    }
    if tier == 'thorough':
        b['thorough_levels'] = {
            'T2': 'FCW 2-D: all 16 grids {1..4}^2 x kernels {3x3,5x3,3x5,5x5,3x1,1x3,7x3} x {asymn,signed} (+msym,asym,shift '
                  'on 3x3) x all 5^4 tuples over the active axes',
            'T3': 'FCW 3-D: all 5^6 tuples on 2x2x2 k3x3x3 {asymn,signed} and 1x2x2 / 2x1x2 k3x3x3 asymn',
            'T4': 'FCW 3-D deviation lattices (<=2 deviations) on 3x2x2, 2x3x1, 3x3x3, 2x2x3 with k3x3x3, k5x3x3, k3x3x5, k3x5x1',
            'T5': 'FCR: all grids {1..4}^2 and {1..3}^3 x radii x units x mixed list; all 5^4 / deviation tuples for radii 1.5, 2.5',
            'T6': 'FCW wide kernels (pad>domain) on more grids, 2-D and 3-D',
            'T7': 'overrides on more grids / kernels / tuples; DensityFilter up to 6x6 and 4x4x4',
        }
    return b


def predicted_pads(case):
    """Pad per axis as the statement implies it: explicit kernel -> (size-1)/2; radius -> offsets with non-zero cone
    weight, at most the domain size."""
    grid = case['grid']
    if case['fam'] == 'FCW':
        return [s // 2 for s in case['kshape']]
    h = UNIT if case['rel'] else case['size']
    n3 = rf.dims3(grid)
    return [0 if (ax == 2 and grid[2] == 0) else min(n3[ax], rf.needed_halfwidth(case['radius'], h[ax]))
            for ax in range(3)]


def emit(proto, tuples, batch=25):
    """Admissible tuples in batches; every inadmissible tuple as a descriptor of its own (execute returns 'skipped',
    so the runner counts them one by one)."""
    pads = predicted_pads(proto)
    adm = [t for t in tuples if rf.admissible(proto['grid'], pads, t) is None]
    bad = [t for t in tuples if rf.admissible(proto['grid'], pads, t) is not None]
    for b in batches(adm, batch):
        c = dict(proto)
        c['modes'] = [list(t) for t in b]
        yield c
    for t in bad:
        c = dict(proto)
        c['modes'] = [list(t)]
        yield c


def _fcw(grid, kshape, kernel, form, modes, seed, ovr=None):
    c = {'fam': 'FCW', 'grid': list(grid), 'kshape': list(kshape), 'kernel': kernel, 'form': form,
         'modes': [list(m) for m in modes], 'seed': seed}
    if ovr is not None:
        c['ovr'] = ovr
    return c


def _fcr(grid, size, rel, radius, modes, seed, ovr=None):
    c = {'fam': 'FCR', 'grid': list(grid), 'size': list(size), 'rel': bool(rel), 'radius': radius,
         'modes': [list(m) for m in modes], 'seed': seed}
    if ovr is not None:
        c['ovr'] = ovr
    return c


def _quick_cases(seed):
    # --- DensityFilter
    yield {'__level__': 'DF'}
    for g in grids2d(4) + grids3d(3):
        for size in (UNIT, ANISO):
            yield {'fam': 'DF', 'grid': list(g), 'size': size, 'radii': RADII, 'seed': seed}
    # --- FilterConv with radius kernels
    yield {'__level__': 'FCR'}
    for g in FCR_GRIDS_Q:
        for rel, size in FCR_UNITS:
            for r in RADII:
                yield from emit(_fcr(g, size, rel, r, [], seed), MIXED6)
    # the flag relative_units given as another truthy / falsy value than the bool singletons (an int, a numpy bool as
    # returned by a comparison)
    for g in FCR_GRIDS_Q[:2]:
        for rel, size in FCR_UNITS:
            for form in ('int', 'npbool'):
                for r in RADII:
                    for c_ in emit(_fcr(g, size, rel, r, [], seed), MIXED6[:2]):
                        yield dict(c_, relform=form)
    # --- explicit kernels: complete 2-D mode lattices
    yield {'__level__': 'FCW-2d-full'}
    for g, ks, kn, form in [((3, 2, 0), (3, 3, 1), 'asymn', '2d'), ((2, 2, 0), (5, 3, 1), 'signed', '3d'),
                            ((1, 2, 0), (3, 3, 1), 'asym', '2d'), ((2, 3, 0), (3, 5, 1), 'msym', '3d')]:
        yield from emit(_fcw(g, ks, kn, form, [], seed), tuples_2d(rf.pads_of(np.zeros(ks))))
    # --- pad wider than the domain, same rule on both sides of each axis
    yield {'__level__': 'FCW-wide'}
    for g, ks in [((2, 1, 0), (5, 5, 1)), ((1, 1, 0), (5, 5, 1)), ((2, 2, 0), (7, 3, 1)), ((2, 2, 0), (5, 5, 1)),
                  ((1, 3, 0), (7, 3, 1))]:
        for kn in ('asymn', 'signed', 'shift'):
            yield from emit(_fcw(g, ks, kn, '2d', [], seed), tuples_uniform_axes(2))
    yield from emit(_fcw((1, 1, 2), (5, 5, 3), 'asymn', '3d', [], seed), tuples_uniform_axes(3))
    # --- 3-D: every tuple within two deviations of a uniform tuple
    yield {'__level__': 'FCW-3d-dev2'}
    yield from emit(_fcw((2, 2, 2), (3, 3, 3), 'asymn', '3d', [], seed), tuples_deviation(6, 2))
    yield from emit(_fcw((1, 2, 1), (3, 3, 3), 'signed', '3d', [], seed), tuples_deviation(6, 1))
    yield from emit(_fcw((2, 1, 2), (3, 1, 5), 'msym', '3d', [], seed), tuples_deviation(6, 1))
    # --- inert axes: rules of an axis with pad 0 / z rules of a 2-D grid must not matter
    yield {'__level__': 'FCW-inert'}
    few = [SYM2, ('edge', 'wrap'), (0.7, 0.0), ('wrap', 0.7), (0.0, 'edge')]
    for ks in ((3, 1, 1), (1, 3, 1), (1, 1, 1)):
        tl = [list(a) + list(b) + list(c) for a in few for b in few for c in (SYM2, (0.7, 'wrap'))]
        yield from emit(_fcw((3, 2, 0), ks, 'asymn', '2d', [], seed), tl)
    # one-axis kernels (N,): the code extends missing trailing axes, so axis 0 stays x
    for g, ks in (((3, 2, 0), (3, 1, 1)), ((2, 3, 0), (5, 1, 1)), ((2, 2, 2), (3, 1, 1))):
        yield from emit(_fcw(g, ks, 'asymn', '1d', [], seed), MIXED6)
    tl = [list(a) + list(b) + list(c) for a in few for b in few for c in PAIRS]
    yield from emit(_fcw((2, 3, 0), (3, 3, 1), 'asymn', '3d', [], seed), tl)
    tl = [list(a) + list(b) + list(c) for a in few for b in PAIRS for c in few]
    yield from emit(_fcw((2, 2, 2), (3, 1, 3), 'asymn', '3d', [], seed), tl)   # 2-D-shaped kernel in a 3-D domain
    # --- override_values
    yield {'__level__': 'FCW-override'}
    for o in OVERRIDES:
        yield from emit(_fcw((3, 2, 0), (3, 3, 1), 'asymn', '2d', [], seed, ovr=o), MIXED6)
        yield from emit(_fcw((2, 2, 2), (3, 3, 3), 'signed', '3d', [], seed, ovr=o), MIXED6)
        yield from emit(_fcw((4, 3, 0), (5, 3, 1), 'msym', '3d', [], seed, ovr=o), MIXED6)
        yield from emit(_fcr((3, 2, 0), UNIT, True, 1.5, [], seed, ovr=o), MIXED6)
        yield from emit(_fcr((2, 2, 2), ANISO, False, 2.5, [], seed, ovr=o), MIXED6)
        # single-entry kernels (explicit 1x1x1 weights, radius below one element): nothing is averaged, overrides still apply
        yield from emit(_fcw((3, 2, 0), (1, 1, 1), 'asymn', '3d', [], seed, ovr=o), MIXED6[:2])
        yield from emit(_fcr((3, 2, 0), UNIT, True, 0.8, [], seed, ovr=o), MIXED6[:2])


def _thorough_cases(seed):
    yield {'__level__': 'T2-FCW-2d-all-grids'}
    for g in grids2d(4):
        for ks in [(3, 3, 1), (5, 3, 1), (3, 5, 1), (5, 5, 1), (3, 1, 1), (1, 3, 1), (7, 3, 1)]:
            kinds = ['asymn', 'signed'] + (['msym', 'asym', 'shift'] if ks == (3, 3, 1) else [])
            for i, kn in enumerate(kinds):
                yield from emit(_fcw(g, ks, kn, '2d' if i % 2 else '3d', [], seed), tuples_2d(rf.pads_of(np.zeros(ks))))
    yield {'__level__': 'T3-FCW-3d-5^6'}
    for g, kn in [((2, 2, 2), 'asymn'), ((2, 2, 2), 'signed'), ((1, 2, 2), 'asymn'), ((2, 1, 2), 'asymn')]:
        yield from emit(_fcw(g, (3, 3, 3), kn, '3d', [], seed), tuples_3d([1, 1, 1]))
    yield {'__level__': 'T4-FCW-3d-dev2-larger'}
    for g in [(3, 2, 2), (2, 3, 1), (2, 2, 3), (3, 3, 3)]:
        for ks, kn in [((3, 3, 3), 'asymn'), ((5, 3, 3), 'signed'), ((3, 3, 5), 'asymn'), ((3, 5, 1), 'msym')]:
            yield from emit(_fcw(g, ks, kn, '3d', [], seed), tuples_deviation(6, 2))
    yield {'__level__': 'T5-FCR-more'}
    for g in grids2d(4) + grids3d(3):
        if g in FCR_GRIDS_Q:
            continue
        for rel, size in FCR_UNITS:
            for r in RADII:
                yield from emit(_fcr(g, size, rel, r, [], seed), MIXED6)
    for g in [(3, 2, 0), (2, 2, 0), (1, 3, 0), (4, 4, 0)]:
        for rel, size in FCR_UNITS:
            for r in (1.5, 2.5):
                yield from emit(_fcr(g, size, rel, r, [], seed), tuples_2d([1, 1, 0]))
    for g in [(2, 2, 2), (3, 2, 1)]:
        for rel, size in FCR_UNITS[1:3]:
            for r in (1.5, 2.5):
                yield from emit(_fcr(g, size, rel, r, [], seed), tuples_deviation(6, 2))
    yield {'__level__': 'T6-FCW-wide-more'}
    for g in [(1, 2, 0), (3, 1, 0), (3, 2, 0), (2, 3, 0), (3, 3, 0)]:
        for ks in [(5, 5, 1), (7, 3, 1), (3, 7, 1), (9, 9, 1), (7, 7, 1)]:
            for kn in ('asymn', 'signed', 'msym', 'shift'):
                yield from emit(_fcw(g, ks, kn, '2d', [], seed), tuples_uniform_axes(2))
    for g in [(1, 1, 1), (2, 1, 1), (1, 2, 2), (2, 2, 2)]:
        for ks in [(5, 5, 5), (3, 5, 7), (7, 3, 3)]:
            for kn in ('asymn', 'shift'):
                yield from emit(_fcw(g, ks, kn, '3d', [], seed), tuples_uniform_axes(3))
    yield {'__level__': 'T7-override-DF-more'}
    dev1 = tuples_deviation(6, 1)
    for o in OVERRIDES:
        for g, ks in [((1, 1, 0), (3, 3, 1)), ((2, 1, 0), (3, 3, 1)), ((3, 3, 0), (3, 3, 1)), ((4, 2, 0), (5, 3, 1)),
                      ((2, 4, 0), (3, 5, 1)), ((2, 2, 0), (5, 5, 1))]:
            for kn in ('asymn', 'signed'):
                yield from emit(_fcw(g, ks, kn, '2d', [], seed, ovr=o), tuples_deviation(4, 1) + MIXED6[5:])
        for g, ks in [((1, 1, 1), (3, 3, 3)), ((3, 2, 2), (3, 3, 3)), ((2, 2, 2), (5, 3, 3))]:
            yield from emit(_fcw(g, ks, 'asymn', '3d', [], seed, ovr=o), dev1 + MIXED6[5:])
    big = [g for g in grids2d(6) if max(g) > 4] + [g for g in grids3d(4) if max(g) > 3]
    for g in big:
        for size in (UNIT, ANISO):
            yield {'fam': 'DF', 'grid': list(g), 'size': size, 'radii': RADII + [4.0, 5.2], 'seed': seed}


def generate(tier, seed):
    yield from _quick_cases(seed)
    if tier == 'thorough':
        yield from _thorough_cases(seed)


# ------------------------------------------------------------------------------------------------ execution
class Acc:
    """Collects the result of one case."""

    def __init__(self, case):
        self.case = case
        self.V = []
        self.states = 0
        self.transitions = 0
        self.checks = 0
        self.keys = []
        self.outcomes = []
        self.observed = []
        self.nontrivial = False
        self.sigs = set()

    def bad(self, check, signature, detail, narrowed):
        sig = dict(signature)
        sig['check'] = check
        k = repr(sorted(sig.items()))
        if k in self.sigs:      # one violation per signature and case keeps the report small
            return
        self.sigs.add(k)
        self.V.append({'check': check, 'signature': sig, 'detail': detail, 'case': narrowed})

    def result(self):
        if self.states == 0 and not self.V:
            return {'skipped': self.observed[0] if self.observed else 'empty batch'}
        return {'states': max(self.states, 1), 'transitions': self.transitions, 'checks': self.checks,
                'nontrivial': self.nontrivial, 'key': self.keys or None, 'outcome': self.outcomes or ['-'],
                'skipped': None, 'inconclusive': 0, 'observed_only': self.observed, 'violations': self.V}


def run_fields(m, fields):
    """Feed every field through ONE module instance (fresh per configuration); returns the outputs row-wise."""
    Y, held = [], []
    for _, x in fields:
        m.sig_in[0].state = x.copy()
        m.response()
        held.append(m.sig_out[0].state)          # the object handed out (kept by the caller, e.g. a design history)
        Y.append(np.array(m.sig_out[0].state, dtype=float, copy=True))
    # a filtered field returned earlier stays the filtered field of ITS design when the module is used again
    CHANGED[:] = [i for i, (h, y) in enumerate(zip(held, Y)) if not exact_equal(np.asarray(h, dtype=float), y)]
    return Y


CHANGED = []


def compare_rows(Y, Yref):
    """Worst field under ALG; returns (index or None, err, bound)."""
    worst = (None, 0.0, 0.0)
    for i, (y, yr) in enumerate(zip(Y, Yref)):
        if np.shape(y) != np.shape(yr):
            return i, float('inf'), 0.0
        err, bnd = alg_err(y, yr)
        if err > bnd and (worst[0] is None or err > worst[1]):
            worst = (i, err, bnd)
    return worst


def invariants(fields, Y, want_volume):
    """constant -> same constant, min x <= y <= max x, optionally sum y == sum x.  Returns list of (name, detail)."""
    out = []
    n = 0
    for (fname, x), y in zip(fields, Y):
        sc = maxabs(x, y)
        tol = 1e-9 * sc + 1e-12
        n += 2
        if fname in ('const', 'zero'):
            n += 1
            if np.max(np.abs(y - x)) > tol:
                out.append(('const', {'field': fname, 'x': x, 'y': y}))
        if y.min() < x.min() - tol or y.max() > x.max() + tol:
            out.append(('range', {'field': fname, 'x': x, 'y': y}))
        if want_volume:
            n += 1
            if abs(y.sum() - x.sum()) > tol * max(1, x.size):
                out.append(('volume', {'field': fname, 'x': x, 'y': y, 'sum_y_minus_sum_x': y.sum() - x.sum()}))
    out.sort(key=lambda t: ('const', 'range', 'volume').index(t[0]))   # report the most basic broken invariant
    return out, n


def build_fc(pym, dom, n, modes, weights=None, radius=None, rel=True, ovr=None):
    kw = dict(zip(SIDES, modes))
    sx = pym.Signal('x', np.zeros(n))
    if weights is not None:
        wuser = weights.copy()
        m = pym.FilterConv(sx, domain=dom, weights=wuser, **kw)
        wuser[...] = 0          # the kernel array is the caller's scratch array: re-used after the filter has been built
    else:
        m = pym.FilterConv(sx, domain=dom, radius=radius, relative_units=rel, **kw)
    for index, _, value in (ovr or []):
        m.override_values(index, value)
    return m


def exec_fc(case):
    import pymoto as pym
    acc = Acc(case)
    grid = tuple(case['grid'])
    seed = case.get('seed', 0)
    fam = case['fam']
    size = case.get('size', UNIT)
    dom = pym.DomainDefinition(grid[0], grid[1], grid[2], unitx=size[0], unity=size[1], unitz=size[2])
    n = rf.nel(grid)
    fields = make_fields(n, seed)
    ovr = make_override(case['ovr'], grid) if case.get('ovr') else None
    if case.get('ovr') == 'two' and n == 1:
        return {'skipped': "override 'two' needs two distinct elements"}
    case_ovr = ovr

    if fam == 'FCW':
        w3 = make_kernel(case['kernel'], tuple(case['kshape']), seed)
        w_arg = w3[:, :, 0].copy() if (case.get('form') == '2d' and w3.shape[2] == 1) else w3.copy()
        if case.get('form') == '1d' and w3.shape[1] == w3.shape[2] == 1:
            w_arg = w3[:, 0, 0].copy()      # one-axis kernel: axis 0 of a kernel is x, whatever its number of axes
        kdesc = f"{case['kernel']}{'x'.join(map(str, case['kshape']))}"
        build = lambda modes, o: build_fc(pym, dom, n, modes, weights=w_arg, ovr=o)  # noqa: E731
    else:
        w3 = None
        kdesc = f"r{case['radius']}{'rel' if case['rel'] else 'abs'}"
        relarg = {'bool': bool, 'int': int, 'npbool': np.bool_}[case.get('relform', 'bool')](case['rel'])
        build = lambda modes, o: build_fc(pym, dom, n, modes, radius=case['radius'], rel=relarg, ovr=o)  # noqa: E731

    def narrowed(modes):
        c = dict(case)
        c['modes'] = [list(modes)]
        return c

    def evaluate(modes, ovr=None):
        """Runs one mode tuple.  Returns dict(status=..., ...) without recording anything."""
        ref_ovr = [(el, v) for _, el, v in (ovr or [])]
        why = rf.admissible(grid, predicted_pads(case), modes)     # decided by the reference BEFORE anything is run
        if why is not None:
            return {'status': 'inadmissible', 'why': why}
        m = build(modes, ovr)
        wk = np.array(m.weights, dtype=float)
        pads = rf.pads_of(wk)
        why = rf.admissible(grid, pads, modes)                     # and again for the support the module really uses
        if why is not None:
            return {'status': 'inadmissible', 'why': why + ' [module kernel support]'}
        res = {'status': 'ok', 'pads': pads, 'kernel_findings': [], 'nchecks': 0}
        if fam == 'FCR':
            h = UNIT if case['rel'] else list(size)
            r = case['radius']
            res['nchecks'] += 3
            if wk.ndim != 3 or any(s % 2 != 1 for s in wk.shape):
                res['kernel_findings'].append(('fc_kernel_support', {'shape': list(wk.shape)}))
                return res
            n3 = rf.dims3(grid)
            need = [min(n3[ax], rf.needed_halfwidth(r, h[ax])) if not (ax == 2 and grid[2] == 0) else 0
                    for ax in range(3)]
            if any(pads[ax] < need[ax] for ax in range(3)):
                res['kernel_findings'].append(('fc_kernel_support', {'pads': pads, 'needed': need, 'radius': r, 'h': h}))
            wref = rf.cone_kernel(r, h, pads)
            err, bnd = alg_err(wk, wref, scale=1.0)
            if err > bnd:
                s = float(wk.sum())
                kind = 'not_normalised' if abs(s - 1.0) > 1e-9 else 'shape'
                res['kernel_findings'].append(('fc_kernel_cone', {'weights': wk, 'ref': wref, 'sum': s, 'kind': kind}))
            res['truncated'] = any(pads[ax] < rf.needed_halfwidth(r, h[ax]) for ax in range(3)
                                   if not (ax == 2 and grid[2] == 0))
            kernel = wk          # the operator is compared with the module's own kernel; the kernel itself is judged above
        else:
            kernel = w3
            res['nchecks'] += 1
            if wk.shape != w3.shape or not np.array_equal(wk, w3):
                res['kernel_findings'].append(('fc_kernel_stored', {'weights': wk, 'given': w3}))
        Y = run_fields(m, fields)
        if CHANGED:
            res['kernel_findings'].append(('earlier_output_changed',
                                           {'fields_whose_returned_output_changed_later': [fields[i][0] for i in CHANGED]}))
        A, c = rf.conv_operator(grid, kernel, modes, ref_ovr, 'after')
        Yref = [A @ x + c for _, x in fields]
        res['nchecks'] += len(fields)
        res['transitions'] = len(fields)
        i, err, bnd = compare_rows(Y, Yref)
        res['ovr_order'] = None
        if ovr:
            A2, c2 = rf.conv_operator(grid, kernel, modes, ref_ovr, 'before')
            Yref2 = [A2 @ x + c2 for _, x in fields]
            same = compare_rows(Yref, Yref2)[0] is None
            res['ovr_order'] = 'coincide' if same else 'after'
            if i is not None and not same:
                i2, err2, bnd2 = compare_rows(Y, Yref2)
                if i2 is None:
                    i, res['ovr_order'] = None, 'before'
        if i is not None:
            res['status'] = 'value'
            res['value'] = {'field': fields[i][0], 'x': fields[i][1], 'y': Y[i], 'ref': Yref[i], 'err': err,
                            'bound': bnd, 'pads': pads}
            return res
        # invariants, only under the statement's preconditions
        active_const = bool(rf.effective_constants(modes, pads))
        # the statement asserts that EVERY radius kernel is non-negative and sums to one -> not re-derived from the module
        pre = (fam == 'FCR' or rf.is_unit_nonneg(kernel)) and not active_const and not ovr
        nax = 3 if grid[2] > 0 else 2
        all_sym = all(modes[s] == 'symmetric' for s in range(2 * nax))
        vol = pre and all_sym and rf.is_mirror_symmetric(kernel)
        res['pre'], res['vol'] = pre, vol
        if pre:
            bad, ninv = invariants(fields, Y, vol)
            res['nchecks'] += ninv
            if bad:
                res['status'] = 'invariant'
                res['invariant'] = bad
        return res

    cache = {}

    def fails(modes, ovr=None):
        k = tuple(map(str, modes)) + (ovr is not None,)
        if k not in cache:
            try:
                r = evaluate(modes, ovr)
                cache[k] = None if r['status'] == 'inadmissible' else (r['status'] not in ('ok',))
            except Exception:   # noqa
                cache[k] = True
        return cache[k]

    def attribute(modes):
        """Root-cause oriented description of a failing tuple: the single boundary rule that already fails alone."""
        base = ['symmetric'] * 6
        if case_ovr and not fails(modes):
            return 'override' + (':all-symmetric' if fails(base, case_ovr) else '')   # fine without override_values
        if fails(base):
            return 'all-symmetric'
        nax = 3 if grid[2] > 0 else 2
        for s in range(2 * nax):
            if modes[s] != 'symmetric':
                t = list(base)
                t[s] = modes[s]
                if fails(t):
                    return f"{'min' if s % 2 == 0 else 'max'}:{mode_kind(modes[s])}"
        for ax in range(nax):
            if (modes[2 * ax], modes[2 * ax + 1]) != SYM2:
                t = list(base)
                t[2 * ax], t[2 * ax + 1] = modes[2 * ax], modes[2 * ax + 1]
                if fails(t):
                    return 'axis-pair:' + '+'.join(sorted({mode_kind(modes[2 * ax]), mode_kind(modes[2 * ax + 1])}))
        return 'combination:' + '+'.join(sorted({mode_kind(m) for m in modes[:2 * nax]}))

    kern_family = 'radius' if fam == 'FCR' else 'weights'
    for modes in case['modes']:
        try:
            r = evaluate(modes, case_ovr)
        except Exception as e:   # noqa
            from pmc.engine.run import classify_exception
            in_repo, where = classify_exception(e)
            if not in_repo:
                raise
            import traceback
            acc.states += 1
            acc.bad('raised', {'module': 'FilterConv', 'exc': type(e).__name__, 'where': where},
                    {'modes': modes, 'traceback': ''.join(traceback.format_exception(type(e), e, e.__traceback__))[-2000:]},
                    narrowed(modes))
            acc.outcomes.append(f'{fam}:raised:{type(e).__name__}')
            continue
        if r['status'] == 'inadmissible':
            acc.observed.append('inadmissible: ' + r['why'])
            continue
        pads = r['pads']
        acc.states += 1
        acc.transitions += r.get('transitions', 0)
        acc.checks += r['nchecks']
        nt = any(p > 0 for p in pads)
        acc.nontrivial = acc.nontrivial or nt
        acc.keys.append(f"{fam}|{grid}|{size if fam == 'FCR' else ''}|{kdesc}|{eff_modes(modes, pads, grid)}|{case.get('ovr')}")
        for chk, det in r['kernel_findings']:
            sig = {'module': 'FilterConv', 'kernel': kern_family}
            if 'kind' in det:
                sig['kind'] = det['kind']
            if fam == 'FCR' and det.get('kind') != 'not_normalised':
                sig['units'] = 'relative' if case['rel'] else 'absolute'
            acc.bad(chk, sig, det, narrowed(modes))
        if r.get('truncated'):
            acc.observed.append('radius kernel cut at the domain size (accepted)')
        if r.get('ovr_order') in ('after', 'before'):
            acc.observed.append(f"override_values: mirror images {'keep the field value' if r['ovr_order'] == 'after' else 'show the override'}")
        kinds = '+'.join(sorted({mode_kind(mm) for mm in eff_modes_list(modes, pads, grid)})) or 'none'
        tag = f"{fam}:{kinds}:{'inv' if r.get('pre') else 'noinv'}{'+vol' if r.get('vol') else ''}" \
              f"{':ovr-' + r['ovr_order'] if r.get('ovr_order') else ''}:{r['status']}"
        acc.outcomes.append(tag)
        if r['status'] == 'value':
            cause = attribute(modes)
            d = r['value']
            d['modes'] = modes
            d['kernel'] = kern_family
            acc.bad('fc_value', {'module': 'FilterConv', 'cause': cause}, d, narrowed(modes))
        elif r['status'] == 'invariant':
            for name, det in r['invariant'][:1]:
                det['modes'] = modes
                acc.bad('fc_' + name, {'module': 'FilterConv'}, det, narrowed(modes))
    return acc.result()


def eff_modes_list(modes, pads, grid):
    out = []
    for ax in range(3):
        if pads[ax] > 0 and not (ax == 2 and grid[2] == 0):
            out += [modes[2 * ax], modes[2 * ax + 1]]
    return out


def exec_df(case):
    import pymoto as pym
    acc = Acc(case)
    grid = tuple(case['grid'])
    size = case['size']
    seed = case.get('seed', 0)
    dom = pym.DomainDefinition(grid[0], grid[1], grid[2], unitx=size[0], unity=size[1], unitz=size[2])
    n = rf.nel(grid)
    fields = make_fields(n, seed)
    unit = all(s == 1.0 for s in size)
    for r in case['radii']:
        nc = dict(case)
        nc['radii'] = [r]
        rclass = 'integer' if float(r).is_integer() else 'fractional'
        m = pym.DensityFilter(pym.Signal('x', np.zeros(n)), domain=dom, radius=r)
        Y = run_fields(m, fields)
        A = rf.density_operator(grid, r)
        Yref = [A @ x for _, x in fields]
        acc.states += 1
        acc.transitions += len(fields)
        acc.checks += len(fields)
        acc.nontrivial = acc.nontrivial or (r > 1 and n > 1)
        acc.keys.append(f"DF|{grid}|{size}|{r}")
        if CHANGED:
            acc.bad('earlier_output_changed', {'module': 'DensityFilter'},
                    {'radius': r, 'fields_whose_returned_output_changed_later': [fields[i][0] for i in CHANGED]}, nc)
        i, err, bnd = compare_rows(Y, Yref)
        units = 'elements'
        if i is not None and not unit:
            A2 = rf.density_operator(grid, r, h=size)
            if compare_rows(Y, [A2 @ x for _, x in fields])[0] is None:
                i, units = None, 'physical'
                acc.observed.append('DensityFilter measured the radius in physical lengths (accepted)')
        if i is not None:
            acc.bad('df_value', {'module': 'DensityFilter', 'radius': rclass,
                                 'where': 'self' if r <= 1 else 'neighbours'},
                    {'radius': r, 'field': fields[i][0], 'x': fields[i][1], 'y': Y[i], 'ref': Yref[i], 'err': err,
                     'bound': bnd, 'err_mag': mag(err)}, nc)
            acc.outcomes.append(f'DF:{rclass}:value')
            continue
        bad, ninv = invariants(fields, Y, False)
        acc.checks += ninv
        for name, det in bad[:1]:
            det['radius'] = r
            acc.bad('df_' + name, {'module': 'DensityFilter', 'radius': rclass}, det, nc)
        nnb = int(np.count_nonzero(A[0]))
        acc.outcomes.append(f"DF:{rclass}:{units}:nb{min(nnb, 9)}:{'ok' if not bad else bad[0][0]}")
    return acc.result()


def execute(case):
    if case['fam'] == 'DF':
        return exec_df(case)
    return exec_fc(case)
