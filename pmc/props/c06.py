"""C06 -- the linear-dependency-aware solver is transparent and reuses earlier solutions.

E2 stateless sequence explorer: every history update/solve of bounded depth over every off-diagonal sparsity
pattern of a 3x3 matrix (real, complex, symmetric, Hermitian, complex symmetric), a 12-entry right-hand-side
alphabet and the three modes; each history is replayed on a FRESH wrapper with pmc.refs.solver.SpanModel in
lock-step; the oracle is evaluated after every solve."""
import os
import itertools
import numpy as np
from pmc.refs import solver as rs
from pmc.engine.tol import rel_residual, exact_equal, mag

PROPERTY = 'C06'
RULE = ("stateless sequence exploration: histories [S..] and [S,U,S..] of update(A')/solve(b,trans) replayed on fresh "
        "LDAWrapper objects; matrices = all 64 off-diagonal patterns of a 3x3 matrix x {real,complex} + all 8 symmetric "
        "patterns x {real symmetric, Hermitian, complex symmetric}; rhs alphabet b1,b2,2b1,b1+b2,0,b1+ib2,ib1,"
        "[b1 b2],[b1 2b1 b2],[b1 b2 b1+b2],[b1 0],(n,1), plus a magnitude alphabet ([b1 1e-9 b2], 3e-9 b2, 2e-10 b1) and two live "
        "wrappers on different matrices with interleaved solves; trans N/T/H; update kinds same / same class other values / "
        "other class; inner solvers: counting exact reference, DenseLU, DenseQR, SparseLU. A history is non-trivial if "
        "it contains at least two solves on a matrix that is not diagonal; distinct by (matrix, op list)")
RULE += " Extended in seeding rounds 6-7:  non-singular matrices with zero diagonal entries; the wrapper handed csr/csc/coo containers; loads of size 1e4 with reuse demanded after a complex multiple of a real load."
ASSUMPTIONS = ["3x3 well-conditioned value tables (diagonally dominant): the property is about the wrapper's "
               "bookkeeping, which does not depend on n once decoupled/coupled dofs and all patterns are present",
               "reuse is demanded only where every documented reading (symmetric / Hermitian column of the table in "
               "LDAWrapper.solve) puts the right-hand side in the span of the history, and for real data only from "
               "real history (the wrapper documents that it will not subtract a complex vector from a real rhs)",
               "numpy.linalg.solve / lstsq as trusted kernels of the reference"]

N = 3
OFF = rs.offdiag_positions(N)
UP = rs.upper_positions(N)

# imaginary parts include the diagonal: a general complex matrix ('c...') has complex diagonal entries, also on decoupled dofs
VALS = [
    (np.array([[4.0, 0.7, -1.1], [0.5, 5.0, 0.9], [-0.6, 1.3, 6.0]]),
     np.array([[0.6, 0.4, 0.3], [-0.2, -0.5, 0.8], [0.5, -0.7, 0.7]])),
    (np.array([[5.0, -0.9, 0.6], [1.2, 4.5, -0.4], [0.8, -1.0, 7.0]]),
     np.array([[-0.4, -0.5, 0.7], [0.3, 0.8, -0.6], [-0.9, 0.2, 0.5]])),
    (np.array([[3.5, 1.1, 0.4], [-0.8, 6.0, 1.2], [0.9, 0.3, 4.0]]),
     np.array([[0.9, 0.6, -0.2], [0.7, -0.3, 0.5], [-0.3, -0.8, -0.6]])),
    (np.array([[6.0, 0.2, -0.7], [-1.3, 3.8, 0.5], [0.4, 0.9, 5.5]]),
     np.array([[-0.7, -0.3, 0.9], [0.6, 0.4, -0.4], [0.2, 0.7, 0.8]])),
]
RHS_TAB = [
    (np.array([1.0, -2.0, 0.5]), np.array([0.3, 0.9, -1.4])),
    (np.array([-0.7, 1.5, 2.0]), np.array([1.1, -0.4, 0.6])),
    (np.array([2.0, 0.5, -1.0]), np.array([-0.9, 1.3, 0.8])),
]


_MC = {}


def matrix(name, t):
    key = (name, t % len(VALS))
    if key not in _MC:
        _MC[key] = _matrix(name, t)
        _MC[key].setflags(write=False)
    return _MC[key]


def _matrix(name, t):
    R, I = VALS[t % len(VALS)]
    C = R + 1j * I
    kind = name.rstrip('01')
    bits = [int(c) for c in name[len(kind):]]
    if kind in ('rzp', 'rzc', 'rzb', 'czb'):
        # ZERO diagonal entries on a non-singular matrix: a dof whose row and column each hold a single entry that is NOT
        # the diagonal one is coupled (permutation-like and cyclic blocks, a dof prescribed by a Lagrange multiplier)
        d = np.diag(R).copy()
        if kind == 'rzp':
            return np.array([[0.0, R[0, 1], 0.0], [R[1, 0], 0.0, 0.0], [0.0, 0.0, d[2]]])
        if kind == 'rzc':
            return np.array([[0.0, R[0, 1], 0.0], [0.0, 0.0, R[1, 2]], [R[2, 0], 0.0, 0.0]])
        if kind == 'rzb':
            return np.array([[d[0], R[0, 1], 1.0], [R[0, 1], d[1], 0.0], [1.0, 0.0, 0.0]])
        return np.array([[C[0, 0], C[0, 1], 1.0], [C[0, 1], C[1, 1], 0.0], [1.0, 0.0, 0.0]])     # complex symmetric
    if kind in ('rz', 'rzs'):
        # off-diagonal entries that CANCEL in the row and in the column of a dof (+a and -a couplings): the dof is
        # coupled although its signed row and column sums are zero
        d = np.diag(R).copy()
        if kind == 'rz':
            return np.array([[d[0], 1.0, -1.0], [-1.0, d[1], 1.0], [1.0, -1.0, d[2]]])      # diagonal + skew circulant
        return np.array([[d[0], 0.5, -0.5], [0.5, d[1], 0.7], [-0.5, 0.7, d[2]]])            # symmetric, +a/-a on dof 0
    if kind in ('r', 'c'):
        V = R if kind == 'r' else C
        A = np.diag(np.diag(V)).astype(V.dtype)
        for b, (i, j) in zip(bits, OFF):
            if b:
                A[i, j] = V[i, j]
        return A
    if kind == 'rs':
        A = np.diag(np.diag(R))
        for b, (i, j) in zip(bits, UP):
            if b:
                A[i, j] = A[j, i] = R[i, j]
        return A
    if kind == 'ch':
        A = np.diag(np.diag(R)).astype(complex)
        for b, (i, j) in zip(bits, UP):
            if b:
                A[i, j] = C[i, j]
                A[j, i] = np.conj(C[i, j])
        return A
    if kind == 'cs':
        A = np.diag(np.diag(R) + 0.3j)
        for b, (i, j) in zip(bits, UP):
            if b:
                A[i, j] = A[j, i] = C[i, j]
        return A
    raise KeyError(name)


def all_matrix_names():
    names = []
    for bits in rs.all_patterns(len(OFF)):
        s = ''.join(map(str, bits))
        names += ['r' + s, 'c' + s]
    for bits in rs.all_patterns(len(UP)):
        s = ''.join(map(str, bits))
        names += ['rs' + s, 'ch' + s, 'cs' + s]
    names.sort(key=lambda nm: (nm.count('1'), len(nm), nm))
    return names + ['rz111111', 'rzs111', 'rzp1', 'rzc1', 'rzb1', 'czb1']


def other_class(name):
    kind = name.rstrip('01')
    bits = name[len(kind):]
    if kind in ('rz', 'rzp', 'rzc'):
        return ['c111111', 'rs111']
    if kind == 'rzb':
        return ['r111111', 'ch111']
    if kind == 'czb':
        return ['c111111', 'ch111']
    if kind == 'rzs':
        return ['r111111', 'ch111']
    if kind == 'r':
        return ['c' + bits, 'rs111']
    if kind == 'c':
        return ['r' + bits, 'ch111']
    if kind == 'rs':
        return ['r111111', 'ch' + bits]
    if kind == 'ch':
        return ['c111111', 'cs' + bits]
    if kind == 'cs':
        return ['c111111', 'ch' + bits]


_RC = {}


def rhs(name, t):
    key = (name, t % len(RHS_TAB))
    if key not in _RC:
        _RC[key] = _rhs(name, t)
    return _RC[key].copy()


def _rhs(name, t):
    b1, b2 = RHS_TAB[t % len(RHS_TAB)]
    z = np.zeros(N)
    return {
        'b1': b1, 'b2': b2, '2b1': 2 * b1, 'b1+b2': b1 + b2, 'zero': z, 'bc': b1 + 1j * b2, 'ib1': 1j * b1,
        'blk12': np.stack([b1, b2], 1), 'blkdep': np.stack([b1, 2 * b1, b2], 1),
        'blksum': np.stack([b1, b2, b1 + b2], 1), 'blkz': np.stack([b1, z], 1), 'col': b1.reshape(N, 1),
        # widely different magnitudes: a column of order 1e-9 next to one of order 1, and a tiny rhs in its span
        'blkscale': np.stack([b1, 1e-9 * b2], 1), 'tiny': 3e-9 * b2, 'tinyb1': 2e-10 * b1,
        # a block whose FIRST column lies in the span of b1, b2 (known after 'blk12') and whose second column is new
        'b3': _b3(b1, b2), 'blkmix': np.stack([0.7 * b1 - 1.3 * b2, _b3(b1, b2)], 1),
        # loads of ordinary engineering size (1e4): a complex multiple of a real load, real multiples, a block
        'ib1e4': (2 + 1j) * 1e4 * b1, 'b1e4': 1e4 * b1, '3b1e4': 3e4 * b1, 'blke4': 1e4 * np.stack([b1, b2], 1),
        'b1b2e4': 1e4 * (b1 - 2 * b2),
    }[name].copy()


def _b3(b1, b2):
    return np.cross(b1, b2) * 0.37 + 0.21 * b1


RHS_FULL = ['b1', 'b2', '2b1', 'b1+b2', 'zero', 'bc', 'ib1', 'blk12', 'blkdep', 'blksum', 'blkz', 'col']
RHS_SMALL = ['b1', 'b1+b2', 'bc', 'zero', 'blkdep', 'blk12']
RHS_SCALE = ['b1', 'b2', 'blkscale', 'tiny', 'tinyb1', 'blk12']
RHS_BIG = ['ib1e4', 'b1e4', '3b1e4', 'blke4', 'b1b2e4']
UPD = ['same', 'vals', 'class0', 'class1']


def solve_ops(rhs_names):
    return [['S', r, tr] for r in rhs_names for tr in 'NTH']


def make_inner(kind):
    import pymoto.solvers as ps
    base = {'ref': None, 'lu': ps.SolverDenseLU, 'qr': ps.SolverDenseQR, 'splu': ps.SolverSparseLU}[kind.split(':')[0]]
    if base is None:
        class Ref(ps.LinearSolver):
            def __init__(self):
                self.calls = 0

            def update(self, A):
                self.A = A.toarray() if hasattr(A, 'toarray') else np.array(A)

            def solve(self, rhs, x0=None, trans='N'):
                self.calls += 1
                return np.linalg.solve(rs.op(self.A, trans), rhs)
        return Ref()

    class Counting(base):
        def __init__(self):
            self.calls = 0
            super().__init__()

        def solve(self, rhs, x0=None, trans='N'):
            self.calls += 1
            return super().solve(rhs, x0=x0, trans=trans)
    return Counting()


def storage(A, inner):
    import scipy.sparse as sps
    if inner == 'splu':
        return sps.csc_matrix(A)
    if ':' in inner:      # the reference inner solver behind a wrapper that is handed a sparse container
        return {'csr': sps.csr_matrix, 'csc': sps.csc_matrix, 'coo': sps.coo_matrix}[inner.split(':')[1]](A)
    return A.copy()


_CC = {}


def mat_class(A):
    key = A.tobytes() + (b'c' if np.iscomplexobj(A) else b'r')
    if key not in _CC:
        _CC[key] = _mat_class(A)
    return _CC[key]


def onesided(A):
    """some dof has only its row or only its column decoupled (e.g. triangular matrices)"""
    B = np.asarray(A) != 0
    n = B.shape[0]
    for i in range(n):
        r = B[i].sum() <= 1
        c = B[:, i].sum() <= 1
        if r != c:
            return True
    return False


def _mat_class(A):
    s, h = rs.is_symmetric(A), rs.is_hermitian(A)
    return ('c' if np.iscomplexobj(A) else 'r') + ('_symherm' if s and h else '_sym' if s else '_herm' if h else '_gen')


def rhs_kind(b):
    return ('c' if np.iscomplexobj(b) else 'r') + ('blk' if b.ndim == 2 else 'vec')


def fresh_single_call(case, A, b, tr, flags, x0=None):
    """Outcome of the same single call on a fresh wrapper: 'ok', 'bad' (wrong answer) or 'raises'."""
    from pymoto.solvers import LDAWrapper
    try:
        w2 = LDAWrapper(make_inner(case['inner']), **flags)
        w2.update(storage(A, case['inner']))
        x = np.asarray(w2.solve(b.copy(), trans=tr) if x0 is None else w2.solve(b.copy(), x0=x0.copy(), trans=tr))
        if x.shape != b.shape or not rel_residual(A, x, b, tr) <= 2 * w2.tol:
            return 'bad'
        return 'ok'
    except Exception:  # noqa
        return 'raises'


def cause(case, seq, k, A, b, tr, flags, fresh):
    """Root-cause oriented classification of a failing step (for the known-finding signature)."""
    if fresh != 'ok':
        return 'single_call' + ('/onesided_decoupled' if onesided(A) else '')
    before = seq[:k]
    last_upd = max([i for i, o in enumerate(before) if o[0] == 'U'], default=-1)
    since = [o for o in before[last_upd + 1:] if o[0] == 'S']
    if len(seq[k]) > 3 and since:
        return 'initial_guess_with_nonempty_database'
    if last_upd >= 0 and before[last_upd][1].startswith('class'):
        return 'after_update_to_other_class'
    if not np.iscomplexobj(b) and not np.iscomplexobj(A) and any(o[1] in ('bc',) for o in since):
        return 'real_rhs_after_complex_rhs'      # real matrix, real rhs, genuinely complex vectors in the database
    if not np.iscomplexobj(b) and not np.iscomplexobj(A) and any(o[1].startswith('ib1') for o in since):
        # the database holds a complex MULTIPLE of a real vector: what is left of a real rhs in its span is real up to
        # rounding, so it is reused (not the known finding)
        return 'real_rhs_after_complex_multiple_of_real_rhs'
    if any(o[1] in ('blkdep', 'blksum') for o in since):
        return 'after_block_with_dependent_columns'
    if last_upd >= 0 and not since:
        return 'first_solve_after_update'
    return 'history'


def run_sequence(case, seq):
    """Replays one history on a fresh wrapper. Returns (nops, violation or None, outcome tag, nontrivial)."""
    from pymoto.solvers import LDAWrapper
    t = case['table']
    inner_kind = case['inner']
    name = case['mat']
    A = matrix(name, t)
    flags = {}
    if case['flags'] == 'given':
        flags = dict(symmetric=rs.is_symmetric(A), hermitian=rs.is_hermitian(A))
    inner = make_inner(inner_kind)
    w = LDAWrapper(inner, **flags)
    model = rs.SpanModel()
    Ain = storage(A, inner_kind)
    w.update(Ain)
    model.update(A)
    nsolve = 0
    tag = []

    last_x = [None]
    cur_x0 = [None]

    def viol(check, k, b, tr, fresh=None, **detail):
        if fresh is None:
            fresh = fresh_single_call(case, A, b, tr, flags, cur_x0[0])
        sig = {'check': check, 'cause': cause(case, seq, k, A, b, tr, flags, fresh),
               'trans': 'N' if tr == 'N' else 'T/H'}
        detail.update(seq=seq, step=k, matrix=A, rhs=b, trans=tr, matrix_class=mat_class(A))
        return k + 1, {'check': check, 'signature': sig, 'detail': detail}, check, True

    for k, op in enumerate(seq):
        if op[0] == 'U':
            kind = op[1]
            if kind == 'same':
                A2 = A
            elif kind == 'vals':
                A2 = matrix(name, t + 1)
            else:
                A2 = matrix(other_class(name)[int(kind[-1])], t)
            A = A2
            Ain = storage(A, inner_kind)
            w.update(Ain)
            model.update(A)
            continue
        rn, tr = op[1], op[2]
        b = rhs(rn, t)
        b_in = b.copy()
        x0 = None
        if len(op) > 3:      # initial guess: zeros, or the previous answer where the shapes agree
            x0 = np.zeros(b.shape, dtype=np.result_type(A, b))
            if op[3] == 'x0prev' and last_x[0] is not None and last_x[0].shape == b.shape:
                x0 = last_x[0].astype(x0.dtype)
        cur_x0[0] = x0
        A_before = np.array(Ain.todense()) if hasattr(Ain, 'todense') else Ain.copy()
        demand = model.must_reuse(tr, b)
        calls0 = inner.calls
        try:
            x = w.solve(b_in, trans=tr) if x0 is None else w.solve(b_in, x0=x0.copy(), trans=tr)
        except Exception as e:  # noqa
            fresh = fresh_single_call(case, A, b, tr, flags, x0)
            if fresh == 'raises':
                return k + 1, None, 'unsupported', False   # the single call is not supported at all: no demand
            n_, v, tg, nt = viol('raises_where_fresh_succeeds', k, b, tr, fresh=fresh, error=str(e)[:300])
            v['signature']['exc'] = type(e).__name__
            return n_, v, tg, nt
        nsolve += 1
        x = np.asarray(x)
        if x.shape != b.shape:
            return viol('shape', k, b, tr, got=list(x.shape), want=list(b.shape))
        res = rel_residual(A, x, b, tr)
        tol = 2 * w.tol
        if not res <= tol:
            return viol('residual', k, b, tr, residual=res, tol=tol, x=x)
        if not exact_equal(b_in, b):
            return viol('rhs_mutated', k, b, tr)
        A_after = np.array(Ain.todense()) if hasattr(Ain, 'todense') else Ain
        if not exact_equal(A_after, A_before):
            return viol('matrix_mutated', k, b, tr)
        used = inner.calls - calls0
        if demand == 'yes' and used > 0:
            return viol('no_reuse', k, b, tr, fresh='ok', inner_calls=used)
        tag.append(('R' if used == 0 else 'I') + demand[0])
        last_x[0] = x
        model.record(tr, b)
    nontrivial = nsolve >= 2 and len(rs.decoupled_dofs(matrix(name, t))) < N
    return len(seq), None, ''.join(tag), nontrivial


def run_pair(case, seq):
    """Two live wrappers on two different matrices, operations interleaved; seq entries are [w, rhs, trans].
    Each wrapper must answer for its own matrix (and reuse only its own history)."""
    from pymoto.solvers import LDAWrapper
    t = case['table']
    mats = [matrix(case['mat'], t), matrix(case['mat2'], t + 1)]
    inners = [make_inner(case['inner']), make_inner(case['inner'])]
    ws = [LDAWrapper(inners[0]), LDAWrapper(inners[1])]
    models = [rs.SpanModel(), rs.SpanModel()]
    for w, A, m in zip(ws, mats, models):
        w.update(storage(A, case['inner']))
        m.update(A)
    for k, (wi, rn, tr) in enumerate(seq):
        A, w, model, inner = mats[wi], ws[wi], models[wi], inners[wi]
        b = rhs(rn, t)
        demand = model.must_reuse(tr, b)
        calls0 = inner.calls
        sigbase = {'cause': 'two_live_wrappers', 'trans': 'N' if tr == 'N' else 'T/H'}
        try:
            x = np.asarray(w.solve(b.copy(), trans=tr))
        except Exception as e:  # noqa
            if fresh_single_call(case, A, b, tr, {}) == 'raises':
                return k + 1, None
            return k + 1, {'check': 'raises_where_fresh_succeeds', 'signature': dict(sigbase, check='raises_where_fresh_succeeds',
                                                                                   exc=type(e).__name__),
                           'detail': {'seq': seq, 'step': k, 'error': str(e)[:300]}}
        res = rel_residual(A, x, b, tr) if x.shape == b.shape else float('inf')
        if not res <= 2 * w.tol:
            alone = fresh_single_call(case, A, b, tr, {})
            sig = dict(sigbase, check='residual') if alone == 'ok' else {'check': 'residual', 'cause': 'single_call',
                                                                         'trans': sigbase['trans']}
            return k + 1, {'check': 'residual', 'signature': sig,
                           'detail': {'seq': seq, 'step': k, 'residual': res, 'wrapper': wi, 'matrix': A, 'rhs': b}}
        if demand == 'yes' and inner.calls > calls0:
            return k + 1, {'check': 'no_reuse', 'signature': dict(sigbase, check='no_reuse'),
                           'detail': {'seq': seq, 'step': k, 'wrapper': wi}}
        model.record(tr, b)
    return len(seq), None


def expand(shape, rhs_names, name):
    """All op lists for a tail shape such as ['S'], ['U','S'], ['S','S']."""
    choices = []
    for s in shape:
        if s == 'S':
            choices.append(solve_ops(rhs_names))
        elif s == 's':
            choices.append(solve_ops(RHS_SMALL))
        elif s == 'm':
            choices.append(solve_ops(rhs_names))      # the magnitude levels: tails over the level's own alphabet
        elif s == 'X':
            choices.append([o + [g] for o in solve_ops(rhs_names) for g in ('x0zero', 'x0prev')])
        else:
            choices.append([['U', k] for k in UPD])
    return [list(c) for c in itertools.product(*choices)]


def execute(case):
    if case.get('kind') == 'pair':
        ops_a = solve_ops(case['rhs_alphabet'])
        seqs = [[[0] + o1[1:], [1] + o2[1:], [0] + o3[1:]] for o1 in ops_a for o2 in ops_a for o3 in ops_a] \
            if 'only' not in case else [case['only']]
        V, nops = [], 0
        for seq in seqs:
            n, v = run_pair(case, seq)
            nops += n
            if v is not None:
                v['case'] = dict(case, only=seq)
                if not any(x['signature'] == v['signature'] for x in V):
                    V.append(v)
        return {'states': len(seqs), 'transitions': nops, 'checks': nops, 'nontrivial': True,
                'key': [f"pair|{case['mat']}|{case['mat2']}|{i}" for i in range(len(seqs))], 'outcome': 'pair',
                'violations': V}
    seqs = []
    for shape in case['tails']:
        for tail in expand(shape, case['rhs_alphabet'], case['mat']):
            if case['flags'] == 'given' and any(o[0] == 'U' and o[1].startswith('class') for o in tail):
                continue
            seqs.append(case['prefix'] + tail)
    V = []
    ops = 0
    outcomes = set()
    keys = []
    nontriv = 0
    for seq in seqs:
        n, v, tag, nt = run_sequence(case, seq)
        ops += n
        outcomes.add(tag)
        nontriv += bool(nt)
        if v is not None:
            v['case'] = dict(case, prefix=seq, tails=[[]])
            if not any(x['signature'] == v['signature'] for x in V):
                V.append(v)
    return {'states': len(seqs), 'transitions': ops, 'checks': ops, 'nontrivial': nontriv > 0,
            'key': [f"{case['mat']}|{case['inner']}|{case['flags']}|{case['table']}|{case['prefix']}|{i}"
                    for i in range(nontriv)],
            'outcome': sorted(outcomes), 'violations': V}


def bounds(tier, seed):
    if tier == 'quick':
        return {'n': 3, 'matrices': len(all_matrix_names()), 'rhs': len(RHS_FULL), 'modes': 3,
                'histories': '[S], [S,S] over the full 12-entry rhs alphabet; [S,U,S] with 4 update kinds and [S, S with initial guess (zeros | previous answer)] over the 6-entry alphabet', 'inner': ['ref', 'lu(diagonal-free subset)'],
                'table': seed % len(VALS)}
    return {'n': 3, 'matrices': len(all_matrix_names()), 'rhs': len(RHS_FULL), 'modes': 3,
            'histories': 'levels in this order: depth2 (ref, LU subset); [S,S,S]; [S,U,S,S],[S,S,U,S] on the reduced rhs '
                         'alphabet; depth2 with flags given; depth2 with LU/QR/SparseLU inner solvers; [S,U,S,U,S]', 'inner': ['ref', 'lu', 'qr', 'splu'], 'table': seed % len(VALS)}


def generate(tier, seed):
    t = seed % len(VALS)
    names = all_matrix_names()
    if os.environ.get('PMC_C06_ONLY'):      # development aid: restrict the matrix set (never set by registered commands)
        names = [nm for nm in names if nm in os.environ['PMC_C06_ONLY'].split(',')]
    first = solve_ops(RHS_FULL)

    small_first = {tuple(o) for o in solve_ops(RHS_SMALL)}

    def level_depth2(inner, flags, mats):
        for nm in mats:
            for op1 in first:
                tails = [[], ['S'], ['U', 'S']]
                if tier == 'quick':
                    tails = [[], ['S'], ['U', 's']] if tuple(op1) in small_first else [[], ['S']]
                yield {'mat': nm, 'table': t, 'inner': inner, 'flags': flags, 'prefix': [op1],
                       'tails': tails, 'rhs_alphabet': RHS_FULL}

    yield {'__level__': 'depth2/ref'}
    yield from level_depth2('ref', 'none', names)
    sub = [nm for nm in names if nm.count('1') in (0, 2, 3, 6) and nm[:2] in ('r0', 'r1', 'c1', 'rs', 'ch', 'cs')][:24]
    yield {'__level__': 'depth2/lu-subset'}
    yield from level_depth2('lu', 'none', sub)
    # the wrapper handed sparse containers (its structure analysis runs on scipy.sparse objects then)
    yield {'__level__': 'depth2/sparse-containers'}
    for fmt_ in ('csr', 'csc', 'coo'):
        for nm in (names if (fmt_ == 'csr' or tier != 'quick') else
                   [m_ for m_ in names if m_ in sub or m_.startswith('rz') or m_.startswith('cz')]):
            for op1 in solve_ops(RHS_SMALL):
                yield {'mat': nm, 'table': t, 'inner': 'ref:' + fmt_, 'flags': 'none', 'prefix': [op1],
                       'tails': [[], ['S']] if tier == 'quick' else [[], ['S'], ['U', 's']], 'rhs_alphabet': RHS_SMALL}
    yield {'__level__': 'depth2/initial-guess'}
    guess_mats = names if tier != 'quick' else [nm for nm in names if nm.count('1') in (0, 1, 3, 6) or nm[:2] in ('rs', 'ch', 'cs')]
    for inner in ('ref', 'lu'):
        for nm in (guess_mats if inner == 'ref' else sub):
            for op1 in solve_ops(RHS_SMALL):
                yield {'mat': nm, 'table': t, 'inner': inner, 'flags': 'none', 'prefix': [op1],
                       'tails': [['X']], 'rhs_alphabet': RHS_SMALL}
    yield {'__level__': 'depth2/magnitudes'}
    mag_mats = [nm for nm in names if nm in ('r111111', 'rs111', 'c111111', 'ch111', 'cs111', 'r100100', 'r000001', 'rs001',
                                             'rz111111', 'rzs111', 'rzp1', 'rzc1', 'rzb1', 'czb1')]
    for nm in (names if tier != 'quick' else mag_mats):
        for op1 in solve_ops(RHS_SCALE):
            yield {'mat': nm, 'table': t, 'inner': 'ref', 'flags': 'none', 'prefix': [op1],
                   'tails': [['m']] if tier == 'quick' else [['m'], ['m', 'm']], 'rhs_alphabet': RHS_SCALE}
    for nm in (names if tier != 'quick' else mag_mats):
        for op1 in solve_ops(RHS_BIG):
            yield {'mat': nm, 'table': t, 'inner': 'ref', 'flags': 'none', 'prefix': [op1],
                   'tails': [['m']] if tier == 'quick' else [['m'], ['m', 'm']], 'rhs_alphabet': RHS_BIG}
    # blocks that mix a column the database already spans (first) with a new one (second), followed by one more solve
    yield {'__level__': 'depth3/mixed-blocks'}
    mix_alpha = ['blkmix', 'b3', 'b1+b2']
    for nm in (names if tier != 'quick' else sorted(set(sub + mag_mats))):
        for tr in 'NTH':
            yield {'mat': nm, 'table': t, 'inner': 'ref', 'flags': 'none', 'prefix': [['S', 'blk12', tr]],
                   'tails': [['S', 'S']], 'rhs_alphabet': mix_alpha}
    yield {'__level__': 'two-live-wrappers'}
    pairs = [('r111111', 'r110110'), ('c111111', 'c101101'), ('rs111', 'r111111'), ('ch111', 'c111111'),
             ('r100100', 'r111111'), ('cs111', 'cs011')]
    for m1, m2 in pairs:
        for inner in (('ref',) if tier == 'quick' else ('ref', 'lu')):
            yield {'kind': 'pair', 'mat': m1, 'mat2': m2, 'table': t, 'inner': inner, 'flags': 'none',
                   'rhs_alphabet': ['b1', 'b1+b2', 'bc', 'blk12'] if tier == 'quick' else RHS_SMALL}
    if tier == 'quick':
        return
    yield {'__level__': 'depth3/SSS/ref', 'count': len(names) * len(first)}
    for nm in names:
        for op1 in first:
            yield {'mat': nm, 'table': t, 'inner': 'ref', 'flags': 'none', 'prefix': [op1],
                   'tails': [['S', 'S']], 'rhs_alphabet': RHS_FULL}
    small = solve_ops(RHS_SMALL)
    yield {'__level__': 'depth4/with-updates/reduced-rhs'}
    for nm in names:
        for op1 in small:
            yield {'mat': nm, 'table': t, 'inner': 'ref', 'flags': 'none', 'prefix': [op1],
                   'tails': [['U', 'S', 'S'], ['S', 'U', 'S']], 'rhs_alphabet': RHS_SMALL}
    yield {'__level__': 'depth2/ref/flags-given'}
    yield from level_depth2('ref', 'given', names)
    for inner in ('lu', 'qr', 'splu'):
        yield {'__level__': f'depth2/{inner}'}
        yield from level_depth2(inner, 'none', names)
    yield {'__level__': 'depth5/SUSUS/reduced-rhs'}
    tiny = ['b1', 'bc', 'blkdep']
    for nm in names:
        for op1 in solve_ops(tiny):
            yield {'mat': nm, 'table': t, 'inner': 'ref', 'flags': 'none', 'prefix': [op1],
                   'tails': [['U', 'S', 'U', 'S']], 'rhs_alphabet': tiny}
