"""C05 -- every linear solver solves the requested (transposed / adjoint) system.

E1 lattice x short E2 history: for every point (solver configuration, matrix family, size, off-diagonal sparsity
pattern, storage, value table) a FRESH solver object runs the history

    update(A1); solve(b, trans[, x0]) for every (trans, rhs[, x0]);  update(A2 of the same class); solve(...) again

and every answer is judged against dense reference algebra (pmc.engine.tol.rel_residual, numpy only):
residual of op(A) x = b, shape, real/complex kind, finite values, right-hand side and matrix untouched."""
import numpy as np
from pmc.refs import fe
from pmc.refs import solver as rs
from pmc.engine.tol import rel_residual, exact_equal, mag

PROPERTY = 'C05'
RULE = ("lattice x history: solver configuration (Diagonal, DenseQR, DenseLU, DenseCholesky incl. forced LDL fall-back, "
        "DenseLDL(hermitian None/True/False), SparseLU, auto_determine_solver without and with the class flags, CG x "
        "{identity, DampedJacobi(0.5,1), SOR(1,1.5), ILU, GeometricMultigrid V/W, 1 and 2 levels, Jacobi/SOR smoothers}) "
        "x matrix family of the class the solver documents (diagonal, SPD/HPD, negative definite, symmetric/Hermitian "
        "indefinite incl. zero and all-positive diagonal, complex symmetric, general, lower/upper triangular; real and "
        "complex) x n in {1,2,3,5,8} with EVERY off-diagonal sparsity pattern for n<=3 (n=4 in the thorough tier) x "
        "storage dense/csc/csr, plus reference FE stiffness/Poisson matrices (pmc.refs.fe) on 2x2,4x2,4x4,2x2x2 grids for "
        "CG; per point the history update(A1), all solves, update(A2 same class, next value table), all solves, with "
        "trans N/T/H x right-hand sides (n),(n,1),(n,3) in C and Fortran order, dependent columns, zero column, zero "
        "vector, real and complex x (CG) initial guess None/0/exact/perturbed. A point is non-trivial if n>=2 and the "
        "matrix has an off-diagonal entry (or the solver is the diagonal one); distinct by (solver config, family, n, "
        "pattern, storage, table)")
RULE += " Round 8: CG with explicit restarts every 1..3 (5) iterations; initial guesses far from the solution."
ASSUMPTIONS = [
    "numpy dense algebra (matmul, linalg.cond/eigvalsh/solve) as the trusted reference kernel",
    "a solver is only given matrices of the class its docstring names (CG: Hermitian positive definite; Cholesky: "
    "Hermitian, with the documented LDL fall-back when not positive definite; LDL: Hermitian or symmetric; dense "
    "solvers: dense storage; SparseLU: sparse storage); condition number <= 1e4 (direct) / 1e3 (iterative), computed by "
    "the reference -- other points are skipped and counted",
    "real sparse matrix with complex right-hand side is documented as unsupported (LinSolve raises TypeError for it; "
    "SuperLU refuses the cast): executed, recorded under observed_only, never judged",
    "the CG initial guess is given in the dtype of the solution, and additionally as a REAL zero vector for complex problems (a real guess is \"a given initial guess\" of the statement: judged)",
    "'precision of b' is read as: float64/complex128 data gives a float64/complex128 answer; float32 is not tested",
    "direct solvers: per-column residual <= 1e-9*|b_j| + 1e-12 (ALG); CG: <= 2*tol with the tol the object was given "
    "(zero columns are judged absolutely); CG objects are given maxit = 20 + 2n (exact-arithmetic CG needs <= n "
    "steps; measured over the whole lattice, all tables, tol 1e-10: at most 0.4*maxit iterations are used)",
    "CG with a preconditioner that factorises with SuperLU (SOR, ILU, multigrid coarse level) and a REAL matrix raises "
    "TypeError for a complex right-hand side in every storage -- the same limitation as the documented one for real "
    "sparse matrices: executed, recorded under observed_only, never judged",
    "optional back-ends that are not installed (pardiso, scikit-sparse, cvxopt, umfpack) are out of scope",
    "once CG has produced a violation on a right-hand side with a zero column, the remaining zero-column points of "
    "that one history are not run (counted under observed_only); they would spend maxit iterations on NaN and repeat "
    "the same signature",
    "GeometricMultigrid stores its `cycle` argument but never reads it (V and W run the same code); both are "
    "executed, the property only demands that CG with that preconditioner solves the system",
]

NT = 5          # number of pre-declared value tables


# ----------------------------------------------------------------------------------------------------------------
# value tables: fractional parts of square roots of primes, scaled to (-1, 1); no RNG
# ----------------------------------------------------------------------------------------------------------------
def _primes(m):
    s = np.ones(m, dtype=bool)
    s[:2] = False
    for i in range(2, int(m ** 0.5) + 1):
        if s[i]:
            s[i * i::i] = False
    return np.nonzero(s)[0]


_SQ = np.sqrt(_primes(1000).astype(float))     # 168 entries
_SQ = _SQ[np.abs(_SQ - np.round(_SQ)) > 1e-9]  # (no perfect squares among primes; kept for clarity)


def tab(m, stream, t):
    """m numbers in (-1,1); deterministic in (stream, table)"""
    i = np.arange(m)
    idx = (i * 5 + stream * 11 + t * 31) % len(_SQ)
    v = _SQ[idx] * (1.0 + 0.618 * (i // len(_SQ)))
    return (v - np.floor(v)) * 2 - 1


# ----------------------------------------------------------------------------------------------------------------
# matrix families
# ----------------------------------------------------------------------------------------------------------------
SYM_FAMS = ('spd_r', 'hpd_c', 'nd_r', 'nd_c', 'symi_r', 'hermi_c', 'symip_r', 'hermip_c', 'csym_c', 'symzd_r',
            'hermzd_c')
GEN_FAMS = ('gen_r', 'gen_c')
TRI_FAMS = ('lower_r', 'lower_c', 'upper_r', 'upper_c')
DIAG_FAMS = ('diag_r', 'diag_c')
HERM_FAMS = ('spd_r', 'hpd_c', 'nd_r', 'nd_c', 'symi_r', 'hermi_c', 'symip_r', 'hermip_c', 'symzd_r', 'hermzd_c')
REALSYM_FAMS = ('spd_r', 'nd_r', 'symi_r', 'symip_r', 'symzd_r')
PD_FAMS = ('spd_r', 'hpd_c')
FE_FAMS = ('fe_elast_r', 'fe_elast_c', 'fe_poisson_r', 'fe_poisson_c')


def _full(fam, n, t):
    R = tab(n * n, 1, t).reshape(n, n)
    I = tab(n * n, 2, t).reshape(n, n)
    C = R + 1j * I
    alt = np.where(np.arange(n) % 2 == 0, 2.0, -2.0)
    if fam == 'diag_r':
        return np.diag(1.5 + tab(n, 3, t))
    if fam == 'diag_c':
        return np.diag(1.5 + tab(n, 3, t) + 1j * tab(n, 4, t))
    if fam == 'gen_r':
        return R + 0.8 * n * np.eye(n)
    if fam == 'gen_c':
        return C + 0.8 * n * np.eye(n)
    if fam == 'lower_r':
        return np.tril(R) + 2 * np.eye(n)
    if fam == 'lower_c':
        return np.tril(C) + 2 * np.eye(n)
    if fam == 'upper_r':
        return np.triu(R) + 2 * np.eye(n)
    if fam == 'upper_c':
        return np.triu(C) + 2 * np.eye(n)
    if fam == 'spd_r':
        return R @ R.T + n * np.eye(n)
    if fam == 'hpd_c':
        return C @ C.conj().T + n * np.eye(n)
    if fam == 'nd_r':
        return -(R @ R.T + n * np.eye(n))
    if fam == 'nd_c':
        return -(C @ C.conj().T + n * np.eye(n))
    if fam == 'symi_r':
        return R + R.T + np.diag(alt)
    if fam == 'hermi_c':
        return C + C.conj().T + np.diag(alt)
    if fam == 'symip_r':        # positive diagonal, yet indefinite once off-diagonal entries are present
        M = 1.5 * (R + R.T)
        return M - np.diag(np.diag(M)) + np.diag(1.0 + 0.5 * np.abs(tab(n, 5, t)))
    if fam == 'hermip_c':
        M = 1.5 * (C + C.conj().T)
        return M - np.diag(np.diag(M)) + np.diag(1.0 + 0.5 * np.abs(tab(n, 5, t)))
    if fam == 'csym_c':
        return C + C.T + 2 * np.eye(n)
    if fam == 'symzd_r':
        M = R + R.T
        return M - np.diag(np.diag(M))
    if fam == 'hermzd_c':
        M = C + C.conj().T
        return M - np.diag(np.diag(M))
    raise KeyError(fam)


def npatterns(fam, n):
    if fam in SYM_FAMS:
        return 2 ** (n * (n - 1) // 2)
    if fam in GEN_FAMS:
        return 2 ** (n * (n - 1))
    return 1


def gen_matrix(fam, n, pat, t):
    """Family member with the off-diagonal sparsity pattern `pat` (bit k = k-th position kept; -1 = full)."""
    A = _full(fam, n, t)
    if pat < 0 or fam in TRI_FAMS or fam in DIAG_FAMS:
        return A
    mask = np.eye(n, dtype=bool)
    if fam in SYM_FAMS:
        for k, (i, j) in enumerate(rs.upper_positions(n)):
            if (pat >> k) & 1:
                mask[i, j] = mask[j, i] = True
    else:
        for k, (i, j) in enumerate(rs.offdiag_positions(n)):
            if (pat >> k) & 1:
                mask[i, j] = True
    return np.where(mask, A, 0)


_FE = {}


def fe_matrix(fam, grid, t):
    """Reference FE matrix (pmc.refs.fe): density-scaled element sum, nodes of the face x=0 constrained."""
    key = (fam, tuple(grid), t)
    if key in _FE:
        return _FE[key]
    nx, ny, nz = grid
    dim = fe.dims(nx, ny, nz)
    size = (1.0, 1.0, 1.0)
    if 'elast' in fam:
        ndof = dim
        Ke = fe.stiffness_element(dim, size, 1.0, 0.3)
    else:
        ndof = 1
        Ke = fe.poisson_element(dim, size, 1.0)
    x = 0.3 + 0.6 * np.abs(tab(fe.nel(nx, ny, nz), 21, t))
    K = fe.scatter(nx, ny, nz, ndof, x, Ke)
    K = 0.5 * (K + K.T)
    bc = [fe.node_number(nx, ny, nz, i, j, k) * ndof + d for (i, j, k) in fe.node_indices(nx, ny, nz) if i == 0
          for d in range(ndof)]
    K = fe.apply_bc(K, bc, float(np.mean(np.diag(K))))
    if fam.endswith('_c'):
        n = K.shape[0]
        G = tab(n * n, 22, t).reshape(n, n)
        S = np.triu(0.03 * np.abs(K) * G, 1)      # Hermitian imaginary part on the pattern of K
        K = K + 1j * (S - S.T)
    K.setflags(write=False)
    _FE[key] = K
    return K


_PROPS = {}


def props(A):
    """Reference classification of a matrix."""
    key = A.tobytes() + str(A.dtype).encode() + str(A.shape).encode()
    if key in _PROPS:
        return _PROPS[key]
    with np.errstate(all='ignore'):
        try:
            cond = float(np.linalg.cond(A))
        except np.linalg.LinAlgError:
            cond = float('inf')
    if not np.isfinite(cond):
        cond = float('inf')
    herm = rs.is_hermitian(A)
    p = {'cond': cond, 'herm': herm, 'sym': rs.is_symmetric(A), 'complex': bool(np.iscomplexobj(A)),
         'diag': bool(np.count_nonzero(A - np.diag(np.diag(A))) == 0), 'pd': False, 'n': A.shape[0]}
    if herm and cond < float('inf'):
        p['pd'] = bool(np.linalg.eigvalsh(A).min() > 0)
    if len(_PROPS) < 20000:
        _PROPS[key] = p
    return p


def build_matrix(case, t):
    if case['fam'] in FE_FAMS:
        return np.array(fe_matrix(case['fam'], case['grid'], t))
    return gen_matrix(case['fam'], case['n'], case['pat'], t)


def admissible(case, A):
    """None if the matrix belongs to the class the solver documents, else the reason."""
    p = props(A)
    limit = 1e3 if case['solver'] == 'CG' else 1e4
    if not p['cond'] <= limit:
        return 'singular' if p['cond'] == float('inf') or p['cond'] > 1e12 else 'illconditioned'
    fam = case['fam']
    if (fam in PD_FAMS or fam in FE_FAMS) and not p['pd']:
        return 'not_positive_definite'
    return None


# ----------------------------------------------------------------------------------------------------------------
# right-hand sides and initial guesses
# ----------------------------------------------------------------------------------------------------------------
RHS_REAL = ['vec', 'col', 'blk3', 'blk3f', 'blkdep', 'blkz', 'zero']
RHS_CPLX = ['cvec', 'ccol', 'cblk3', 'cblkdep', 'cblkz']
RHS_ALL = RHS_REAL + RHS_CPLX
X0_ALL = ['none', 'zero', 'exact', 'pert', 'far']


def make_rhs(name, n, t):
    b1, b2, b3 = tab(n, 7, t), tab(n, 8, t), tab(n, 9, t)
    z = np.zeros(n)
    c1 = b1 + 1j * b2
    out = {
        'vec': b1, 'col': b1.reshape(n, 1), 'blk3': np.stack([b1, b2, b3], 1), 'blk3f': np.stack([b3, b1, b2], 1),
        'blkdep': np.stack([b1, 2 * b1, b2], 1),
        'blkz': np.stack([b1, z, b2], 1), 'zero': z,
        'cvec': c1, 'ccol': c1.reshape(n, 1), 'cblk3': np.stack([c1, b2 - 1j * b3, b3 + 0j], 1),
        'cblkdep': np.stack([c1, b2 + 0j, 1j * b1], 1), 'cblkz': np.stack([c1, z + 0j], 1),
    }[name]
    return np.ascontiguousarray(out)


def layout(b, name):
    """'blk3f' is the (n,3) block in Fortran (column-major) memory order"""
    return np.asfortranarray(b) if name.endswith('f') else b


def has_zero_column(b):
    bb = b.reshape(b.shape[0], -1)
    return bool(np.any(np.linalg.norm(bb, axis=0) == 0))


def make_x0(kind, Aref, b, tr, t):
    if kind == 'none':
        return None
    dt = np.result_type(Aref.dtype, b.dtype, float)
    if kind == 'zero':
        return np.zeros(b.shape, dtype=dt)
    if kind == 'zero_real':
        return np.zeros(b.shape)
    xe = np.linalg.solve(rs.op(Aref, tr), b).astype(dt)
    if kind == 'exact':
        return xe
    if kind == 'far':        # the solution of a load case 2000 times larger (a previous design / time step far away)
        return (2000.0 * xe).astype(dt)
    g = tab(b.size, 12, t).reshape(b.shape)
    return (1.1 * xe + 0.05 * g).astype(dt)


# ----------------------------------------------------------------------------------------------------------------
# solver configurations
# ----------------------------------------------------------------------------------------------------------------
ALL_GEN = DIAG_FAMS + GEN_FAMS + TRI_FAMS + SYM_FAMS

SOLVERS = {
    # name: (families, storages)
    'Diagonal': (DIAG_FAMS, ('dense', 'csc', 'csr')),
    'DenseQR': (ALL_GEN, ('dense',)),
    'DenseLU': (ALL_GEN, ('dense',)),
    'DenseCholesky': (HERM_FAMS + ('diag_r',), ('dense',)),
    'DenseLDL/None': (SYM_FAMS + DIAG_FAMS, ('dense',)),
    'DenseLDL/True': (HERM_FAMS + ('diag_r',), ('dense',)),
    'DenseLDL/False': (REALSYM_FAMS + ('csym_c', 'diag_r', 'diag_c'), ('dense',)),
    'SparseLU': (ALL_GEN, ('csc', 'csr')),
    'auto': (ALL_GEN, ('dense', 'csc', 'csr', 'coo', 'dia', 'dia0')),
    'auto/flags': (ALL_GEN, ('dense', 'csc', 'csr')),       # class flags handed over with their (reference) values
}
PRECS_PLAIN = ['id', 'jac0.5', 'jac1', 'sor1', 'sor1.5', 'ilu']
PRECS_MG = ['mgV', 'mgW', 'mgV/jac/1', 'mgV/sor/2', 'mgW/sor/1', 'mg2V', 'mg2W/sor/2']


def make_precond(name, grid):
    import pymoto as pym
    from pymoto.solvers import iterative as it
    if name == 'id':
        return it.Preconditioner()
    if name.startswith('jac'):
        return it.DampedJacobi(w=float(name[3:]))
    if name.startswith('sor'):
        return it.SOR(w=float(name[3:]))
    if name == 'ilu':
        return it.ILU()
    if name.startswith('mg'):
        parts = name.split('/')
        two = parts[0].startswith('mg2')
        cycle = parts[0][-1]
        kw = {}
        if len(parts) == 3:
            kw = {'smoother': it.SOR(w=1.0) if parts[1] == 'sor' else it.DampedJacobi(w=0.5),
                  'smooth_steps': int(parts[2])}
        nx, ny, nz = grid
        dom = pym.DomainDefinition(nx, ny, nz)
        if two:
            sub = pym.DomainDefinition(nx // 2, ny // 2, nz // 2, 2.0, 2.0, 2.0)
            kw2 = {}
            if len(parts) == 3:
                kw2 = {'smoother': it.SOR(w=1.0) if parts[1] == 'sor' else it.DampedJacobi(w=0.5),
                       'smooth_steps': int(parts[2])}
            kw['inner_level'] = it.GeometricMultigrid(sub, cycle=cycle, **kw2)
        return it.GeometricMultigrid(dom, cycle=cycle, **kw)
    raise KeyError(name)


def superlu_prec(name):
    return name.startswith(('sor', 'ilu', 'mg'))


def mg_admissible(name, grid):
    nx, ny, nz = grid
    if any(g % 2 for g in grid):
        return False
    if name.startswith('mg2'):
        return all(g % 4 == 0 for g in grid)
    return True


def make_solver(case, A_init=None):
    """Fresh solver object for the descriptor; `A_init` is handed to the constructor when given."""
    import pymoto.solvers as ps
    name = case['solver']
    args = () if A_init is None else (A_init,)
    if name == 'Diagonal':
        return ps.SolverDiagonal(*args)
    if name == 'DenseQR':
        return ps.SolverDenseQR(*args)
    if name == 'DenseLU':
        return ps.SolverDenseLU(*args)
    if name == 'DenseCholesky':
        return ps.SolverDenseCholesky(*args)
    if name.startswith('DenseLDL'):
        h = {'None': None, 'True': True, 'False': False}[name.split('/')[1]]
        return ps.SolverDenseLDL(*args, hermitian=h)
    if name == 'SparseLU':
        return ps.SolverSparseLU(*args)
    if name == 'CG':
        pre = make_precond(case['prec'], case.get('grid'))
        kw_ = {'restart': int(case['restart'])} if case.get('restart') else {}
        return ps.CG(A_init, preconditioner=pre, tol=case['tol'], maxit=case['maxit'], **kw_)
    raise KeyError(name)


def store(A, storage):
    import scipy.sparse as sps
    if storage == 'dense':
        return np.array(A)
    if storage == 'csc':
        return sps.csc_matrix(A)
    if storage == 'csr':
        return sps.csr_matrix(A)
    if storage == 'coo':
        return sps.coo_matrix(A)
    if storage in ('dia', 'dia0'):
        # DIA storage; 'dia0' lists the main diagonal first (as scipy.sparse.diags([main, lower, upper], [0, -1, 1]))
        A = np.asarray(A)
        n = A.shape[0]
        offs = [k for k in range(-n + 1, n) if np.any(np.diagonal(A, k) != 0)]
        if storage == 'dia0' and 0 in offs:
            offs = [0] + [k for k in offs if k != 0]
        data = np.zeros((len(offs), n), dtype=A.dtype)
        for r, k in enumerate(offs):
            d = np.diagonal(A, k)
            if k >= 0:
                data[r, k:k + len(d)] = d
            else:
                data[r, :len(d)] = d
        M = sps.dia_matrix((data, np.array(offs)), shape=(n, n))
        assert np.array_equal(M.toarray(), A)
        return M
    raise KeyError(storage)


def snapshot(Ain):
    if isinstance(Ain, np.ndarray):
        return (Ain.copy(),)
    if Ain.format == 'coo':
        return (Ain.data.copy(), Ain.row.copy(), Ain.col.copy(), np.array(Ain.shape))
    if Ain.format == 'dia':
        return (Ain.data.copy(), Ain.offsets.copy(), np.array(Ain.shape))
    return (Ain.data.copy(), Ain.indices.copy(), Ain.indptr.copy(), np.array(Ain.shape))


def same_as_snapshot(Ain, snap):
    if isinstance(Ain, np.ndarray):
        return Ain.dtype == snap[0].dtype and exact_equal(Ain, snap[0])
    now = snapshot(Ain)
    return len(now) == len(snap) and now[0].dtype == snap[0].dtype and all(exact_equal(a_, b_) for a_, b_ in zip(now, snap))


# ----------------------------------------------------------------------------------------------------------------
# execution
# ----------------------------------------------------------------------------------------------------------------
def solver_label(s):
    nm = type(s).__name__
    return nm[len('Solver'):] if nm.startswith('Solver') else nm


def variant(case, s):
    """The option of the object that matters for the root cause."""
    nm = type(s).__name__
    if nm == 'SolverDenseCholesky':
        return 'cholesky' if s.success else 'ldl_fallback'
    if nm == 'SolverDenseLDL':
        return f"hermitian={s.hermitian}"
    if nm == 'CG':
        pr = case['prec']
        return ('multigrid' if pr.startswith('mg') else 'jacobi' if pr.startswith('jac') else 'sor'
                if pr.startswith('sor') else pr)
    return ''


def where_raised(exc):
    import traceback
    from pmc.engine.run import REPO_PKG, REPO_ROOT
    import os
    tb = traceback.extract_tb(exc.__traceback__)
    fr = [f for f in tb if f.filename.startswith(REPO_PKG)]
    if fr:
        return f"{os.path.relpath(fr[-1].filename, REPO_ROOT)}:{fr[-1].name}"
    return 'outside'


def execute_batch(case):
    """One descriptor holding several sparsity patterns of the same lattice line (keeps a case above a few ms)."""
    agg = {'states': 0, 'transitions': 0, 'checks': 0, 'nontrivial': False, 'key': [], 'outcome': set(),
           'observed_only': [], 'violations': []}
    nskip = 0
    for p in case['pats']:
        one = {k: v for k, v in case.items() if k != 'pats'}
        one['pat'] = p
        o = execute(one)
        if o.get('skipped'):
            nskip += 1
            agg['observed_only'].append('inadmissible_point:' + o['skipped'])
            continue
        for k in ('states', 'transitions', 'checks'):
            agg[k] += o[k]
        agg['nontrivial'] = agg['nontrivial'] or o['nontrivial']
        agg['key'].append(o['key'])
        agg['outcome'].update(o['outcome'])
        agg['observed_only'] += o['observed_only']
        for v in o['violations']:
            v.setdefault('case', one)
            if not any(w['signature'] == v['signature'] for w in agg['violations']):
                agg['violations'].append(v)
    if nskip == len(case['pats']):
        return {'skipped': 'all_patterns_inadmissible'}
    agg['outcome'] = sorted(agg['outcome'])
    return agg


def int_matrix(fam, n, t):
    """integer-typed members of a family (an integer matrix is a real matrix): small integers, diagonally dominant"""
    R = np.rint(3 * tab(n * n, 11, t)).astype(np.int64).reshape(n, n)
    if fam.startswith('diag'):
        d = np.array([2, -3, 4, 5, -2, 3, 7, -4][:n], dtype=np.int64)
        return np.diag(d)
    if fam in ('spd_r',):
        return R @ R.T + (4 * n) * np.eye(n, dtype=np.int64)
    if fam in ('symi_r',):
        return R + R.T + np.diag(np.where(np.arange(n) % 2 == 0, 7, -7)).astype(np.int64)
    return R + (4 * n) * np.eye(n, dtype=np.int64)


def exec_isolation(case):
    """Two live solver objects of the same configuration on two different matrices, used interleaved (each must answer
    for its own matrix), and integer-typed matrices.  sub-kind 'iso' | 'int'."""
    t = case['table']
    n = case['n']
    name = case['solver']
    V, nsolve = [], 0

    def mk(A_store, Aref):
        if name.startswith('auto'):
            import pymoto.solvers as ps
            return ps.auto_determine_solver(A_store)
        return make_solver(case)

    def judge(s, Aref, b, tr, what, sig):
        nonlocal nsolve
        nsolve += 1
        try:
            x = np.asarray(s.solve(b.copy(), trans=tr))
        except Exception as e:  # noqa
            V.append({'check': 'raised', 'signature': dict(sig, check='raised', exc=type(e).__name__),
                      'detail': {'what': what, 'trans': tr, 'error': str(e)[:300], 'matrix': Aref}})
            return
        res = rel_residual(Aref, x, b, tr) if x.shape == b.shape else float('inf')
        if not res <= 1e-9:
            V.append({'check': 'residual', 'signature': dict(sig, check='residual'),
                      'detail': {'what': what, 'trans': tr, 'residual': res, 'matrix': Aref, 'rhs': b, 'x': x}})

    if case['sub'] == 'int':
        A = int_matrix(case['fam'], n, t)
        if not props(A.astype(float))['cond'] <= 1e4:
            return {'skipped': 'illconditioned'}
        Ain = store(A, case['storage'])
        s = mk(Ain, A)
        try:
            s.update(Ain)
        except Exception as e:  # noqa
            return {'states': 1, 'transitions': 1, 'violations': [{
                'check': 'raised', 'signature': {'check': 'raised', 'solver': solver_label(s), 'matrix': 'integer_dtype',
                                                 'stage': 'update', 'exc': type(e).__name__},
                'detail': {'error': str(e)[:300], 'matrix': A}}], 'key': f"int|{case}"}
        for tr in 'NTH':
            for rn in ('vec', 'blk3', 'cvec'):
                if rn == 'cvec' and case['storage'] != 'dense':
                    continue
                judge(s, A.astype(float), make_rhs(rn, n, t), tr, 'integer matrix',
                      {'solver': solver_label(s), 'matrix': 'integer_dtype'})
    else:
        A1 = gen_matrix(case['fam'], n, case['pat'], t)
        A2 = gen_matrix(case['fam2'], n, case['pat'], (t + 1) % NT)
        for A_, f_ in ((A1, case['fam']), (A2, case['fam2'])):
            why = admissible(dict(case, fam=f_), A_)
            if why:
                return {'skipped': why}
        S1, S2 = store(A1, case['storage']), store(A2, case['storage'])
        s1, s2 = mk(S1, A1), mk(S2, A2)
        s1.update(S1)
        s2.update(S2)
        sig = {'solver': solver_label(s1), 'cause': 'two_live_solver_objects'}
        for tr in 'NTH':
            for rn in ('vec', 'blk3'):
                b = make_rhs(rn, n, t)
                judge(s1, A1, b, tr, 'first object after the second was updated', sig)
                judge(s2, A2, b, tr, 'second object', sig)
        # update the first again with a third matrix, then ask the second
        A3 = gen_matrix(case['fam'], n, case['pat'], (t + 2) % NT)
        if not admissible(case, A3):
            s1.update(store(A3, case['storage']))
            judge(s2, A2, make_rhs('vec', n, t), 'N', 'second object after the first was updated again', sig)
            judge(s1, A3, make_rhs('vec', n, t), 'T', 'first object on its third matrix', sig)
    uniq = []
    for v in V:
        if not any(u['signature'] == v['signature'] for u in uniq):
            uniq.append(v)
    return {'states': 1, 'transitions': nsolve, 'checks': nsolve, 'nontrivial': True,
            'key': f"{case['sub']}|{name}|{case['fam']}|{case.get('fam2')}|{case['storage']}|{n}",
            'outcome': f"{case['sub']}:{'viol' if V else 'ok'}", 'violations': uniq}


def isolation_cases(t):
    for name, (fams, storages) in SOLVERS.items():
        gf = [f for f in fams if f not in FE_FAMS]
        for storage in storages:
            for f1 in gf:
                for f2 in gf:
                    if f1.endswith('_c') != f2.endswith('_c'):
                        continue
                    yield {'kind': 'iso', 'sub': 'iso', 'solver': name, 'fam': f1, 'fam2': f2, 'n': 3,
                           'pat': npatterns(f1, 3) - 1, 'storage': storage, 'table': t}
            for f1 in gf:
                if f1 in ('diag_r', 'gen_r', 'spd_r', 'symi_r'):
                    for n in (2, 3):
                        yield {'kind': 'iso', 'sub': 'int', 'solver': name, 'fam': f1, 'n': n, 'storage': storage,
                               'table': t}


def execute(case):
    if case.get('kind') == 'iso':
        return exec_isolation(case)
    if 'pats' in case:
        return execute_batch(case)
    import warnings
    warnings.simplefilter('ignore')
    from pymoto.solvers import auto_determine_solver
    t = case['table']
    hist = case.get('hist', 2)
    mats = []
    for k in range(hist):
        A = build_matrix(case, (t + k) % NT)
        why = admissible(case, A)
        if why is not None:
            if k == 0:
                return {'skipped': why}
            break
        mats.append(A)
    observed_only = []
    if len(mats) < hist:
        observed_only.append('second_matrix_inadmissible')
    if case['solver'] == 'CG' and case['prec'].startswith('mg') and not mg_admissible(case['prec'], case['grid']):
        return {'skipped': 'multigrid_needs_even_grid'}

    only_step = case.get('only_step')    # narrowed replay: every update up to that step, solves only there
    is_cg = case['solver'] == 'CG'
    n = mats[0].shape[0]
    V = []
    nsolve = nchecks = 0
    outcomes = set()
    zc_hit = [False]

    def viol(check, sig, detail, point):
        sig = dict({'check': check}, **sig)
        if sig.get('rhs') == 'zero_column':
            zc_hit[0] = True
        if any(v['signature'] == sig for v in V):
            return
        narrowed = case
        if point is not None:
            narrowed = dict(case, hist=point[0] + 1, only_step=point[0], trans=point[1], rhs=[point[2]], x0=[point[3]])
        V.append({'check': check, 'signature': sig, 'detail': detail, 'case': narrowed})

    storage = case['storage']
    s = None
    for step, Aref in enumerate(mats):
        Ain = store(Aref, storage)
        snap = snapshot(Ain)
        pA = props(Aref)
        mclass = case['fam']
        # ---- update -------------------------------------------------------------------------------------------
        try:
            if step == 0:
                if case['solver'] == 'auto':
                    s = auto_determine_solver(Ain)
                    s.update(Ain)
                elif case['solver'] == 'auto/flags':
                    s = auto_determine_solver(Ain, isdiagonal=pA['diag'], ishermitian=pA['herm'], issymmetric=pA['sym'])
                    s.update(Ain)
                elif case.get('ctor', 'update') == 'init':
                    s = make_solver(case, Ain)
                else:
                    s = make_solver(case)
                    s.update(Ain)
            else:
                s.update(Ain)
        except Exception as e:  # noqa
            lab = solver_label(s) if s is not None else case['solver']
            viol('raised', {'solver': lab, 'stage': 'update', 'exc': type(e).__name__, 'where': where_raised(e),
                            'matrix': mclass}, {'error': str(e)[:300], 'matrix': Aref, 'step': step}, None)
            outcomes.add(f"{case['solver']}>{lab}/{mclass}/update_raised")
            break
        lab = solver_label(s)
        var = variant(case, s)
        nchecks += 1
        if not same_as_snapshot(Ain, snap):
            viol('matrix_mutated', {'solver': lab, 'opt': var, 'stage': 'update', 'storage': storage},
                 {'matrix': Aref, 'step': step}, None)
            break
        tol = 2 * case['tol'] if is_cg else None
        ok = True
        stop = False        # set when the matrix was modified: later answers of this history would be meaningless
        # ---- solves -------------------------------------------------------------------------------------------
        for tr in case['trans']:
            for rn in case['rhs']:
                x0s = case.get('x0', ['none']) if is_cg else ['none']
                for x0k in x0s:
                    point = [step, tr, rn, x0k]
                    if stop or (only_step is not None and step != only_step):
                        continue
                    b = make_rhs(rn, n, t)
                    if is_cg and zc_hit[0] and only_step is None and has_zero_column(b):
                        # the history of this case stops exploring zero columns once they have produced a violation
                        observed_only.append('zero_column_point_not_run_after_first_zero_column_violation')
                        continue
                    bc = np.iscomplexobj(b)
                    judged = True
                    tagx = ''
                    if storage != 'dense' and not pA['complex'] and bc:
                        judged = False                 # documented non-support
                        tagx = 'real_sparse_complex_rhs'
                    elif is_cg and superlu_prec(case['prec']) and not pA['complex'] and bc:
                        judged = False                 # same limitation: the preconditioner factorises with SuperLU
                        tagx = 'real_matrix_complex_rhs_superlu_preconditioner'
                    if x0k == 'zero_real':
                        if not (pA['complex'] or bc):
                            continue
                        # a real-typed initial guess (e.g. zeros, or the previous real solution) for a complex problem
                        # is "a given initial guess" of the statement: judged (unless the point is unsupported anyway)
                        tagx = tagx or ''
                    b = layout(b, rn)
                    b_in = b.copy(order='K')
                    x0 = make_x0(x0k, Aref, b, tr, t)
                    x0_in = None if x0 is None else x0.copy()
                    zc = has_zero_column(b)
                    rkind = 'complex' if bc else 'real'
                    mkind = 'complex' if pA['complex'] else 'real'
                    base = {'solver': lab, 'opt': var}
                    det = {'matrix': Aref, 'rhs': b, 'trans': tr, 'x0': x0k, 'step': step, 'storage': storage,
                           'family': mclass, 'config': case['solver'], 'prec': case.get('prec'),
                           'tol': case.get('tol')}
                    try:
                        if is_cg or x0k != 'none':
                            x = s.solve(b_in, x0=x0_in, trans=tr)
                        else:
                            x = s.solve(b_in, trans=tr)
                    except Exception as e:  # noqa
                        if not judged:
                            observed_only.append(f"{tagx}:{lab}:raises")
                            continue
                        nsolve += 1
                        nchecks += 1
                        if x0k == 'zero_real' and type(e).__name__ == 'UFuncTypeError':
                            sig = {'solver': lab, 'x0': 'real_guess_for_complex_problem', 'exc': type(e).__name__}
                        elif zc and is_cg:
                            sig = {'solver': lab, 'rhs': 'zero_column', 'exc': type(e).__name__}
                        else:
                            sig = dict(base, stage='solve', exc=type(e).__name__, where=where_raised(e),
                                       matrix=mkind, rhs=rkind)
                        viol('raised', sig, dict(det, error=str(e)[:300]), point)
                        ok = False
                        continue
                    if not judged:
                        good = (np.shape(x) == b.shape and np.all(np.isfinite(x))
                                and rel_residual(Aref, x, b, tr) <= (tol or 1e-9))
                        observed_only.append(f"{tagx}:{lab}:{'solves' if good else 'wrong'}")
                        continue
                    nsolve += 1
                    nchecks += 6
                    x = np.asarray(x)
                    # right-hand side and matrix untouched (EXACT)
                    if not (b_in.dtype == b.dtype and exact_equal(b_in, b)):
                        viol('rhs_mutated', base, det, point)
                        ok = False
                    if not same_as_snapshot(Ain, snap):
                        viol('matrix_mutated', dict(base, stage='solve', storage=storage), det, point)
                        ok = False
                        stop = True
                        continue
                    if x.shape != b.shape:
                        viol('shape', dict(base, rhs_ndim=b.ndim), dict(det, got=list(x.shape), want=list(b.shape)),
                             point)
                        ok = False
                        continue
                    if not np.all(np.isfinite(x)):
                        if zc:
                            sig = {'solver': lab, 'rhs': 'zero_column'}
                        else:
                            sig = dict(base, trans=tr, matrix=mkind, rhs=rkind)
                        viol('nan', sig, dict(det, x=x), point)
                        ok = False
                        continue
                    want_c = pA['complex'] or bc
                    if np.iscomplexobj(x) != want_c or x.dtype not in (np.float64, np.complex128):
                        viol('kind', dict(base, matrix=mkind, rhs=rkind, got=str(x.dtype)), det, point)
                        ok = False
                    # residual of the requested system
                    if is_cg:
                        res = rel_residual(Aref, x, b, tr)
                        good = res <= tol
                        bound = tol
                    else:
                        r = rs.op(Aref, tr) @ x - b
                        rn_ = np.linalg.norm(r.reshape(n, -1), axis=0)
                        bn_ = np.linalg.norm(b.reshape(n, -1), axis=0)
                        good = bool(np.all(rn_ <= 1e-9 * bn_ + 1e-12))
                        res = float(np.max(rn_ / np.where(bn_ == 0, 1.0, bn_)))
                        bound = 1e-9
                    if not good:
                        sig = dict(base, trans=tr, matrix=mkind, rhs=rkind)
                        viol('residual', sig, dict(det, residual=res, bound=bound, x=x, magnitude=mag(res)), point)
                        ok = False
        outcomes.add(f"{case['solver']}>{lab}/{var}/{mclass}/{'ok' if ok else 'bad'}")
        if stop:
            break

    # a narrowed descriptor must reproduce its own violation; otherwise keep the full case
    if only_step is None:
        for v in V:
            c = v['case']
            if c is not case:
                try:
                    again = execute(c)
                    if not any(w['signature'] == v['signature'] for w in again.get('violations', [])):
                        v['case'] = case
                except Exception:  # noqa
                    v['case'] = case
    pA0 = props(mats[0])
    nontrivial = pA0['n'] >= 2 and (not pA0['diag'] or case['solver'] == 'Diagonal')
    key = '|'.join(str(case.get(k)) for k in ('solver', 'prec', 'tol', 'fam', 'n', 'grid', 'pat', 'storage', 'table',
                                               'ctor'))
    return {'states': len(mats), 'transitions': nsolve, 'checks': nchecks, 'nontrivial': bool(nontrivial and nsolve > 0),
            'key': key, 'outcome': sorted(outcomes), 'observed_only': sorted(set(observed_only)), 'violations': V}


# ----------------------------------------------------------------------------------------------------------------
# enumeration
# ----------------------------------------------------------------------------------------------------------------
def matrix_points(fams, sizes, pattern_max_n):
    """(fam, n, pat) simplest first: every pattern for n <= pattern_max_n, the full pattern above."""
    pts = []
    for n in sizes:
        for fam in fams:
            if fam in TRI_FAMS and n <= pattern_max_n:
                continue            # triangular matrices of that size are among the patterns of the general family
            if fam in ('symzd_r', 'hermzd_c') and n == 1:
                continue            # the 1x1 zero matrix
            if n <= pattern_max_n and fam not in TRI_FAMS and fam not in DIAG_FAMS:
                pats = sorted(range(npatterns(fam, n)), key=lambda p: (bin(p).count('1'), p))
            else:
                pats = [-1]
            for p in pats:
                pts.append((fam, n, p))
    pts.sort(key=lambda q: (q[1], 0 if q[2] < 0 else bin(q[2]).count('1')))
    return pts


def direct_cases(t, sizes, pattern_max_n, ctor='update', batch=1):
    pts = matrix_points(ALL_GEN, sizes, pattern_max_n)
    if batch > 1:       # group the patterns of one (family, n) line, `batch` per descriptor, same order
        lines = {}
        for fam, n, pat in pts:
            lines.setdefault((fam, n), []).append(pat)
        pts = [(fam, n, pats[i:i + batch]) for (fam, n), pats in lines.items() for i in range(0, len(pats), batch)]
    for fam, n, pat in pts:
        for name, (fams, storages) in SOLVERS.items():
            if fam not in fams:
                continue
            if ctor == 'init' and name.startswith('auto'):
                continue
            for st in storages:
                c = {'solver': name, 'fam': fam, 'n': n, 'pat': pat, 'storage': st, 'table': t, 'ctor': ctor,
                     'trans': 'NTH', 'rhs': RHS_ALL, 'hist': 2}
                if batch > 1:
                    c['pats'] = c.pop('pat')
                yield c


def cg_gen_cases(t, sizes, pattern_max_n, tols, storages, x0_rhs, ctor='update'):
    for fam, n, pat in matrix_points(PD_FAMS, sizes, pattern_max_n):
        for prec in PRECS_PLAIN:
            for tol in tols:
                for st in storages:
                    base = {'solver': 'CG', 'prec': prec, 'tol': tol, 'maxit': 20 + 2 * n, 'fam': fam, 'n': n,
                            'pat': pat, 'storage': st, 'table': t, 'ctor': ctor, 'trans': 'NTH', 'hist': 2}
                    yield from split_x0(base, x0_rhs)


def split_x0(base, x0_rhs):
    """all right-hand sides without a guess + the chosen ones with every kind of guess (two descriptors)"""
    yield dict(base, rhs=RHS_ALL, x0=['none'])
    yield dict(base, rhs=[r for r in RHS_ALL if r in x0_rhs], x0=['zero', 'exact', 'pert', 'zero_real', 'far'])


def cg_fe_cases(t, grids, fams, precs, tols, storages, x0_rhs, ctor='update'):
    for grid in grids:
        for fam in fams:
            for prec in precs:
                if prec.startswith('mg') and not mg_admissible(prec, grid):
                    continue
                for tol in tols:
                    for st in storages:
                        ndof = 1 if 'poisson' in fam else fe.dims(*grid)
                        nn = fe.nnodes(*grid) * ndof
                        base = {'solver': 'CG', 'prec': prec, 'tol': tol, 'maxit': 20 + 2 * nn, 'fam': fam,
                                'grid': list(grid), 'n': nn,
                                'pat': -1, 'storage': st, 'table': t, 'ctor': ctor, 'trans': 'NTH', 'hist': 2}
                        yield from split_x0(base, x0_rhs)


SIZES = [1, 2, 3, 5, 8]
GRIDS_Q = [(2, 2, 0), (4, 2, 0), (4, 4, 0), (2, 2, 2)]
GRIDS_T = [(2, 4, 0), (4, 6, 0), (2, 2, 4), (4, 4, 2)]
X0_RHS_Q = ['vec', 'blkdep', 'blkz', 'cvec']
X0_RHS_T = RHS_ALL


def bounds(tier, seed):
    t = seed % NT
    b = {'table': t, 'second_matrix_table': (t + 1) % NT, 'n': SIZES, 'all_patterns_up_to_n': 3, 'trans': 'NTH',
         'rhs': RHS_ALL, 'history': 'update(A1); solves; update(A2); solves',
         'solvers': list(SOLVERS) + ['CG/' + p for p in PRECS_PLAIN + PRECS_MG],
         'cond_max': {'direct': 1e4, 'iterative': 1e3}, 'cg_maxit': '20+2n'}
    if tier == 'quick':
        b.update({'cg_tol': [1e-7], 'fe_grids': GRIDS_Q, 'fe_families': ['fe_elast_r', 'fe_elast_c', 'fe_poisson_r'],
                  'cg_storage_generated': ['dense', 'csc', 'csr'], 'fe_storage': ['csc'],
                  'x0': {'kinds': X0_ALL, 'on_rhs': X0_RHS_Q}, 'constructor': ['update']})
    else:
        b.update({'cg_tol': [1e-7, 1e-10], 'fe_grids': GRIDS_Q + GRIDS_T, 'fe_families': list(FE_FAMS),
                  'cg_storage_generated': ['dense', 'csc', 'csr'], 'fe_storage': ['csc', 'csr'],
                  'x0': {'kinds': X0_ALL, 'on_rhs': X0_RHS_T}, 'constructor': ['update', 'init'],
                  'extra_levels': 'n=4 with every sparsity pattern; all value tables'})
    return b


def generate(tier, seed):
    t = seed % NT
    yield {'__level__': 'direct/n<=8/patterns<=3'}
    yield from direct_cases(t, SIZES, 3)
    yield {'__level__': 'two-live-objects-and-integer-matrices'}
    yield from isolation_cases(t)
    if tier == 'quick':
        yield {'__level__': 'cg/generated'}
        yield from cg_gen_cases(t, SIZES, 3, [1e-7], ['dense', 'csc', 'csr'], X0_RHS_Q)
        yield {'__level__': 'cg/fe'}
        yield from cg_fe_cases(t, GRIDS_Q, ['fe_elast_r', 'fe_elast_c', 'fe_poisson_r'], PRECS_PLAIN + PRECS_MG,
                               [1e-7], ['csc'], X0_RHS_Q)
        # explicit restarts (residual recomputed every k-th iteration) reached within the few iterations small systems need
        yield {'__level__': 'cg/explicit restart every 1, 2, 3 iterations'}
        for rs_ in (1, 2, 3):
            for c_ in cg_gen_cases(t, [3, 5, 8], 0, [1e-7], ['csc'], X0_RHS_Q):
                if c_['prec'] in ('id', 'jac1', 'sor1'):
                    yield dict(c_, restart=rs_)
            for c_ in cg_fe_cases(t, GRIDS_Q[:2], ['fe_elast_r', 'fe_elast_c'], ['id', 'sor1'], [1e-7], ['csc'], X0_RHS_Q):
                yield dict(c_, restart=rs_)
        return
    yield {'__level__': 'cg/generated'}
    yield from cg_gen_cases(t, SIZES, 3, [1e-7, 1e-10], ['dense', 'csc', 'csr'], X0_RHS_T)
    yield {'__level__': 'cg/fe'}
    yield from cg_fe_cases(t, GRIDS_Q, FE_FAMS, PRECS_PLAIN + PRECS_MG, [1e-7, 1e-10], ['csc', 'csr'], X0_RHS_T)
    yield {'__level__': 'cg/explicit restart every 1, 2, 3, 5 iterations'}
    for rs_ in (1, 2, 3, 5):
        for c_ in cg_gen_cases(t, SIZES, 3, [1e-7], ['csc', 'dense'], X0_RHS_Q):
            yield dict(c_, restart=rs_)
        for c_ in cg_fe_cases(t, GRIDS_Q, FE_FAMS, ['id', 'jac1', 'sor1'], [1e-7], ['csc'], X0_RHS_Q):
            yield dict(c_, restart=rs_)
    yield {'__level__': 'constructor-given-matrix'}
    yield from direct_cases(t, SIZES, 3, ctor='init')
    yield from cg_gen_cases(t, SIZES, 2, [1e-7], ['csc'], X0_RHS_Q, ctor='init')
    yield from cg_fe_cases(t, GRIDS_Q[:2], ['fe_elast_r', 'fe_elast_c'], PRECS_PLAIN + PRECS_MG, [1e-7], ['csc'],
                           X0_RHS_Q, ctor='init')
    yield {'__level__': 'direct/n=4/all-patterns'}
    yield from direct_cases(t, [4], 4, batch=16)
    yield {'__level__': 'cg/n=4/all-patterns'}
    yield from cg_gen_cases(t, [4], 4, [1e-7], ['csc'], X0_RHS_Q)
    yield {'__level__': 'cg/fe/larger-grids'}
    yield from cg_fe_cases(t, GRIDS_T, FE_FAMS, PRECS_PLAIN + PRECS_MG, [1e-7], ['csc'], X0_RHS_Q)
    for dt in range(1, NT):
        yield {'__level__': f'direct/table+{dt}'}
        yield from direct_cases((t + dt) % NT, SIZES, 3)
    for dt in range(1, NT):
        yield {'__level__': f'cg/table+{dt}'}
        yield from cg_gen_cases((t + dt) % NT, SIZES, 3, [1e-7], ['csc'], X0_RHS_Q)
        yield from cg_fe_cases((t + dt) % NT, GRIDS_Q, ['fe_elast_r', 'fe_elast_c'], PRECS_PLAIN + PRECS_MG, [1e-7],
                               ['csc'], X0_RHS_Q)
