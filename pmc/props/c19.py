"""C19 -- finite_difference is a faithful and non-destructive derivative check.

E3 + E1: harness modules/networks with known exact derivatives (and deliberately wrong variants) x input kinds x the full
option grid of finite_difference.  The harness records the seed each module is actually given, so no expectation depends
on RNG state (numpy's global RNG is re-seeded before every call anyway)."""
import io
import itertools
import contextlib
import numpy as np
import scipy.sparse as sps

PROPERTY = 'C19'
RULE = ("programs: harness modules lin (y=Mx), cube (x^3+2x), nonholo (z*conj(z)+z), scalar (python float/complex state), "
        "mat2d (2-D state), sparse_out (sparse-matrix output), two_in (a*b+a), and 2-3 module networks with fromsig/tosig "
        "subsets incl. intermediate signals after a prior response; each in a correct and in deliberately wrong variants "
        "(scaled, sign, missing term, one entry off, transposed); inputs as plain signal / basic slice / integer-array "
        "slice, real / complex, with / without an exactly-zero entry; options: full product dx{1e-4,1e-6,1e-8} x "
        "relative_dx x random x use_df x keep_zero_structure. Oracle per call: number and order of test_fn calls, "
        "analytic value == the module's own back-propagation of the seed it recorded, numeric value == true directional "
        "derivative within 1.5*(h/2)*|w||f''| + roundoff, wrong modules give >= 1 non-matching pair and correct ones none, "
        "all input states restored EXACTLY (value, dtype, type), no sensitivity left. Non-trivial = at least one pair was "
        "judged; distinct by descriptor")
RULE += " Round 8: the step handed to test_fn is dx (or dx*|x0|) for every entry."
ASSUMPTIONS = ["exact directional derivatives of the harness functions are obtained by Richardson-extrapolated central "
               "differences of the harness's own numpy implementation (polynomials: accurate to 1e-11)",
               "sparse-matrix INPUTS are not demanded (statement unclear, raises today): observed only",
               "stdout of finite_difference is discarded"]

EPS = np.finfo(float).eps
M33 = np.array([[1.0, -2.0, 0.5], [0.3, 0.7, -1.1], [0.9, 0.2, 1.3]])
M33C = M33 + 1j * np.array([[0.2, 0.0, -0.4], [0.5, -0.3, 0.1], [0.0, 0.6, 0.2]])
C23 = np.array([[1.5, -0.5, 2.0], [0.7, 1.1, -1.3]])

_cls = {}


# ---- reference functions (pure numpy; inputs/outputs as arrays) -------------------------------------------------------
def f_lin(x, cplx):
    return ((M33C if cplx else M33) @ x,)


def f_cube(x, cplx):
    return (x ** 3 + 2 * x,)


def f_nonholo(z, cplx):
    return (z * np.conj(z) + z,)


def f_scalar(x, cplx):
    return (x * x + 3 * x,)


def f_mat2d(x, cplx):
    return (x * C23 + x * x,)


def f_sparse(x, cplx):
    D = np.diag(x * x).astype(x.dtype)
    D[0, 1] = x[0] * x[1]
    return (D,)


def f_two(a, b, cplx=False):
    return (a * b + a,)


def classes():
    if _cls:
        return _cls
    import pymoto as pym
    import pymoto.core_objects as co
    co.get_init_str = lambda: 'pmc'

    class Base(pym.Module):
        """records every seed it is handed; `wrong` switches on a deliberate error in the sensitivity"""

        def _prepare(self, wrong=None, cplx=False):
            self.wrong = wrong
            self.cplx = cplx
            self.seeds = []

        def rec(self, *dy):
            self.seeds.append([None if d is None else (d.copy() if hasattr(d, 'copy') else d) for d in dy])

        def spoil(self, g):
            if self.wrong == 'scaled':
                return g * 1.07
            if self.wrong == 'sign':
                return -g
            if self.wrong == 'entry':
                g = np.array(g, copy=True)
                if g.ndim == 0:
                    return g + 0.05
                g.flat[g.size - 1] += 0.05
                return g
            return g

    class Lin(Base):
        def _response(self, x):
            return (M33C if self.cplx else M33) @ x

        def _sensitivity(self, dy):
            self.rec(dy)
            M = M33C if self.cplx else M33
            g = (M if self.wrong == 'transposed' else M.T) @ dy
            if not np.iscomplexobj(self.sig_in[0].state):
                g = np.real(g)
            return self.spoil(g)

    class Cube(Base):
        def _response(self, x):
            return x ** 3 + 2 * x

        def _sensitivity(self, dy):
            self.rec(dy)
            x = self.sig_in[0].state
            g = dy * (3 * x ** 2 + (0 if self.wrong == 'missing' else 2))
            if not np.iscomplexobj(x):
                g = np.real(g)
            return self.spoil(g)

    class NonHolo(Base):
        def _response(self, z):
            return z * np.conj(z) + z

        def _sensitivity(self, dy):
            self.rec(dy)
            z = self.sig_in[0].state
            x, y = np.real(z), np.imag(z)
            wr, wi = np.real(dy), np.imag(dy)
            gx = wr * (2 * x + 1)
            gy = wr * 2 * y - (0 if self.wrong == 'missing' else wi)
            return self.spoil(gx - 1j * gy)

    class Scalar(Base):
        def _response(self, x):
            return x * x + 3 * x

        def _sensitivity(self, dy):
            self.rec(dy)
            x = self.sig_in[0].state
            g = dy * (2 * x + (0 if self.wrong == 'missing' else 3))
            if not np.iscomplexobj(x):
                g = float(np.real(g))
            return self.spoil(g) if self.wrong in ('scaled', 'sign') else (g + 0.05 if self.wrong == 'entry' else g)

    class Mat2D(Base):
        def _response(self, x):
            return x * C23 + x * x

        def _sensitivity(self, dy):
            self.rec(dy)
            x = self.sig_in[0].state
            g = dy * ((0 if self.wrong == 'missing' else C23) + 2 * x)
            if not np.iscomplexobj(x):
                g = np.real(g)
            return self.spoil(g)

    class SparseOut(Base):
        def _response(self, x):
            D = sps.lil_matrix((x.size, x.size), dtype=x.dtype)
            D.setdiag(x * x)
            D[0, 1] = x[0] * x[1]
            return D.tocsr()

        def _sensitivity(self, dA):
            self.rec(dA)
            x = self.sig_in[0].state
            W = np.asarray(dA.todense()) if hasattr(dA, 'todense') else np.asarray(dA)
            g = 2 * x * np.diag(W)
            g = np.array(g, dtype=np.result_type(g, W))
            if self.wrong != 'missing':
                g[0] += W[0, 1] * x[1]
                g[1] += W[0, 1] * x[0]
            if not np.iscomplexobj(x):
                g = np.real(g)
            return self.spoil(g)

    class MixedOut(Base):
        def _response(self, x):
            D = sps.lil_matrix((x.size, x.size), dtype=x.dtype)
            D.setdiag(x * x)
            D[0, 1] = x[0] * x[1]
            return D.tocsr(), x * x * x + 2 * x

        def _sensitivity(self, dA, dv):
            self.rec(dA, dv)
            x = self.sig_in[0].state
            g = np.zeros(x.shape, dtype=complex)
            if dA is not None:
                W = np.asarray(dA.todense()) if hasattr(dA, 'todense') else np.asarray(dA)
                g = g + 2 * x * np.diag(W)
                if self.wrong != 'missing':
                    g[0] += W[0, 1] * x[1]
                    g[1] += W[0, 1] * x[0]
            if dv is not None:
                g = g + dv * (3 * x * x + 2)
            if not np.iscomplexobj(x):
                g = np.real(g)
            return self.spoil(g)

    class TwoIn(Base):
        def _response(self, a, b):
            return a * b + a

        def _sensitivity(self, dy):
            self.rec(dy)
            a, b = [s.state for s in self.sig_in]
            ga = dy * (b + (0 if self.wrong == 'missing' else 1))
            gb = dy * a
            if not np.iscomplexobj(a):
                ga = np.real(ga)
            if not np.iscomplexobj(b):
                gb = np.real(gb)
            return self.spoil(ga), gb
    _cls.update(pym=pym, Lin=Lin, Cube=Cube, NonHolo=NonHolo, Scalar=Scalar, Mat2D=Mat2D, SparseOut=SparseOut,
                TwoIn=TwoIn, MixedOut=MixedOut)
    return _cls


PROGS = {
    # name: (module class, reference fn, input shapes, wrong variants, complex allowed)
    'lin': ('Lin', f_lin, [(3,)], ['scaled', 'sign', 'entry', 'transposed'], True),
    'cube': ('Cube', f_cube, [(3,)], ['scaled', 'missing'], True),
    'nonholo': ('NonHolo', f_nonholo, [(3,)], ['sign', 'missing'], 'only'),
    'scalar': ('Scalar', f_scalar, [()], ['scaled', 'missing', 'entry'], True),
    'mat2d': ('Mat2D', f_mat2d, [(2, 3)], ['sign', 'missing'], True),
    'sparse_out': ('SparseOut', f_sparse, [(3,)], ['scaled', 'missing'], True),
    'two_in': ('TwoIn', f_two, [(3,), (3,)], ['missing', 'entry'], True),
    # two outputs of different kinds (a sparse matrix and a dense vector), listed in either order in tosig
    'mixed_out:Kv': ('MixedOut', None, [(3,)], ['scaled', 'missing'], True),
    'mixed_out:vK': ('MixedOut', None, [(3,)], ['scaled', 'missing'], True),
}
NETS = ['net2', 'net3:a', 'net3:b', 'net3:mid', 'net3:mid_to_mid2', 'net3:a_to_mid', 'net2b:ab', 'net2b:ba']


def base_values(shape, k, cplx, zeros):
    n = int(np.prod(shape)) if shape else 1
    v = 0.4 + 0.35 * np.cos(1.0 + 1.7 * np.arange(n) + k)
    if cplx:
        v = v + 1j * (0.3 * np.sin(0.5 + 1.3 * np.arange(n) + k))
    v = v.reshape(shape) if shape else v.reshape(())
    if zeros and n > 1:
        v.flat[1] = 0.0
    return v


def make_input(pym, shape, kind, k, cplx, zeros, tag):
    """returns (signal to hand to the module, base signal, function giving the module-visible state)"""
    v = base_values(shape, k, cplx, zeros)
    if shape == ():
        val_ = complex(v) if cplx else float(v)
        s = pym.Signal(tag, val_)
        return s, s
    if kind == 'plain':
        s = pym.Signal(tag, v.copy())
        return s, s
    if kind == 'strided':
        # same values, other memory layout: Fortran order for matrices, a negative-stride view for vectors
        arr = np.asfortranarray(v.copy()) if len(shape) > 1 else np.ascontiguousarray(v[::-1])[::-1]
        assert np.array_equal(arr, v) and (len(shape) == 1 or not arr.flags['C_CONTIGUOUS'])
        s = pym.Signal(tag, arr)
        return s, s
    n = shape[0]
    big_shape = (2 * n - 1,) + tuple(shape[1:])
    big = np.full(big_shape, 9.25, dtype=v.dtype)
    if kind == 'basic_slice':
        big[1:1 + n] = v
        b = pym.Signal(tag, big)
        return b[1:1 + n], b
    idx = np.arange(0, 2 * n - 1, 2)
    big[idx] = v
    b = pym.Signal(tag, big)
    return b[idx], b


def build(desc):
    """returns dict(blk, fromsig, tosig, ins=[(signal, base)], fn(list of input arrays)->list of output arrays, mods)"""
    c = classes()
    pym = c['pym']
    prog, cplx, zeros, kind, wrong = desc['prog'], desc['cplx'], desc['zeros'], desc['input'], desc['wrong']
    if prog.startswith('mixed_out'):
        ins = [make_input(pym, (3,), kind, 0, cplx, zeros, 'in0')]
        m = c['MixedOut']([ins[0][0]], [pym.Signal('K'), pym.Signal('v')], wrong=wrong, cplx=cplx)
        fmix = lambda xs: (f_sparse(xs[0], cplx)[0], f_cube(xs[0], cplx)[0])  # noqa: E731
        if prog.endswith(':Kv'):
            return dict(blk=m, fromsig=None, tosig=[m.sig_out[0], m.sig_out[1]], ins=ins, outs=m.sig_out, fn=fmix,
                        mods=[m], fd_ins=[ins[0][0]], fd_outs=[m.sig_out[0], m.sig_out[1]], out_pos=[0, 1])
        return dict(blk=m, fromsig=None, tosig=[m.sig_out[1], m.sig_out[0]], ins=ins, outs=m.sig_out,
                    fn=lambda xs: fmix(xs)[::-1], mods=[m], fd_ins=[ins[0][0]], fd_outs=[m.sig_out[1], m.sig_out[0]],
                    out_pos=[1, 0])
    if prog in PROGS:
        cls, fn, shapes, _, _ = PROGS[prog]
        ins = [make_input(pym, shp, kind, 3 * i, cplx, zeros, f'in{i}') for i, shp in enumerate(shapes)]
        m = c[cls]([s for s, _ in ins], pym.Signal('out'), wrong=wrong, cplx=cplx)
        return dict(blk=m, fromsig=None, tosig=None, ins=ins, outs=m.sig_out, fn=lambda xs: fn(*xs, cplx), mods=[m],
                    fd_ins=[s for s, _ in ins], fd_outs=m.sig_out)
    if prog == 'net2':
        ins = [make_input(pym, (3,), kind, 0, cplx, zeros, 'in0')]
        m1 = c['Cube']([ins[0][0]], pym.Signal('mid'), wrong=None, cplx=cplx)
        m2 = c['Lin'](m1.sig_out, pym.Signal('out'), wrong=wrong, cplx=cplx)
        net = pym.Network(m1, m2)
        return dict(blk=net, fromsig=None, tosig=[m2.sig_out[0]], ins=ins, outs=m2.sig_out, mods=[m1, m2],
                    fn=lambda xs: f_lin(f_cube(xs[0], cplx)[0], cplx), fd_ins=[ins[0][0]], fd_outs=m2.sig_out,
                    prior_response=True)
    if prog.startswith('net2b'):
        # cube(a) -> mid ; two_in(mid, b) -> out, with BOTH inputs listed in fromsig, in either order (the input listed
        # first is consumed by the later module in the order 'ba')
        ia = make_input(pym, (3,), kind, 0, cplx, zeros, 'a')
        ib = make_input(pym, (3,), 'plain', 3, cplx, False, 'b')
        m1 = c['Cube']([ia[0]], pym.Signal('mid'), wrong=wrong, cplx=cplx)
        m2 = c['TwoIn']([m1.sig_out[0], ib[0]], pym.Signal('out'), wrong=None, cplx=cplx)
        net = pym.Network(m1, m2)
        if prog.endswith(':ab'):
            return dict(blk=net, fromsig=[ia[0], ib[0]], tosig=[m2.sig_out[0]], ins=[ia, ib], outs=m2.sig_out,
                        mods=[m1, m2], fn=lambda xs: f_two(f_cube(xs[0], cplx)[0], xs[1]), fd_ins=[ia[0], ib[0]],
                        fd_outs=m2.sig_out, prior_response=True)
        return dict(blk=net, fromsig=[ib[0], ia[0]], tosig=[m2.sig_out[0]], ins=[ia, ib], outs=m2.sig_out,
                    mods=[m1, m2], fn=lambda xs: f_two(f_cube(xs[1], cplx)[0], xs[0]), fd_ins=[ib[0], ia[0]],
                    fd_outs=m2.sig_out, prior_response=True)
    # three-module network: two_in(a,b) -> cube -> lin
    sub = prog.split(':')[1]
    ia = make_input(pym, (3,), kind, 0, cplx, zeros, 'a')
    ib = make_input(pym, (3,), 'plain', 3, cplx, False, 'b')
    m1 = c['TwoIn']([ia[0], ib[0]], pym.Signal('mid'), wrong=None, cplx=cplx)
    m2 = c['Cube'](m1.sig_out, pym.Signal('mid2'), wrong=wrong if sub in ('mid', 'mid_to_mid2') else None, cplx=cplx)
    m3 = c['Lin'](m2.sig_out, pym.Signal('out'), wrong=wrong if sub in ('a', 'b') else None, cplx=cplx)
    if sub == 'a_to_mid':
        m1.wrong = wrong
    net = pym.Network(m1, m2, m3)
    full = lambda a, b: f_lin(f_cube(f_two(a, b)[0], cplx)[0], cplx)  # noqa
    if sub == 'a':
        return dict(blk=net, fromsig=[ia[0]], tosig=[m3.sig_out[0]], ins=[ia, ib], outs=m3.sig_out, mods=[m1, m2, m3],
                    fn=lambda xs: full(xs[0], ib[1].state), fd_ins=[ia[0]], fd_outs=m3.sig_out, prior_response=True)
    if sub == 'b':
        return dict(blk=net, fromsig=[ib[0]], tosig=[m3.sig_out[0]], ins=[ia, ib], outs=m3.sig_out, mods=[m1, m2, m3],
                    fn=lambda xs: full(ia[0].state, xs[0]), fd_ins=[ib[0]], fd_outs=m3.sig_out, prior_response=True)
    if sub == 'mid':
        return dict(blk=net, fromsig=[m1.sig_out[0]], tosig=[m3.sig_out[0]], ins=[ia, ib], outs=m3.sig_out, mods=[m1, m2, m3],
                    fn=lambda xs: f_lin(f_cube(xs[0], cplx)[0], cplx), fd_ins=[m1.sig_out[0]], fd_outs=m3.sig_out,
                    prior_response=True)
    if sub == 'mid_to_mid2':
        return dict(blk=net, fromsig=[m1.sig_out[0]], tosig=[m2.sig_out[0]], ins=[ia, ib], outs=m2.sig_out,
                    mods=[m1, m2, m3], fn=lambda xs: f_cube(xs[0], cplx), fd_ins=[m1.sig_out[0]], fd_outs=m2.sig_out,
                    prior_response=True)
    if sub == 'a_to_mid':
        return dict(blk=net, fromsig=[ia[0]], tosig=[m1.sig_out[0]], ins=[ia, ib], outs=m1.sig_out, mods=[m1, m2, m3],
                    fn=lambda xs: f_two(xs[0], ib[1].state), fd_ins=[ia[0]], fd_outs=m1.sig_out, prior_response=True)
    raise KeyError(prog)


def snapshot(x):
    if x is None:
        return ('None',)
    if isinstance(x, (int, float, complex)) and not isinstance(x, np.generic):
        return (type(x).__name__, repr(x))
    a = np.asarray(x)
    return (type(x).__name__, a.shape, str(a.dtype), a.tobytes())


def richardson(F, x, v):
    """directional derivative of F at x along v (F returns a flat complex array)"""
    def D(h):
        return (F(x + h * v) - F(x - h * v)) / (2 * h)
    h = 1e-2
    return (4 * D(h / 2) - D(h)) / 3


def second(F, x, v, h=1e-3):
    return (F(x + h * v) - 2 * F(x) + F(x - h * v)) / h ** 2


def execute(case):
    d = case['desc']
    c = classes()
    pym = c['pym']
    w = build(d)
    blk = w['blk']
    opts = d['opts']
    if w.get('prior_response'):
        blk.response()
    fd_ins, fd_outs = w['fd_ins'], w['fd_outs']
    # use_df
    use_df = None
    if opts['use_df']:
        if not w.get('prior_response'):
            blk.response()
        use_df = []
        for k, s in enumerate(fd_outs):
            y = s.state
            shape = y.shape if hasattr(y, 'shape') else ()
            n = int(np.prod(shape)) if shape else 1
            df = (0.6 + 0.3 * np.sin(2.0 + 1.1 * np.arange(n) + k)).reshape(shape)
            if np.iscomplexobj(y.data if sps.issparse(y) else y):
                df = df + 1j * (0.2 + 0.3 * np.cos(1.0 + 0.7 * np.arange(n))).reshape(shape)
            use_df.append(df if shape else (complex(df) if np.iscomplexobj(df) else float(df)))
    before_states = [snapshot(b.state) for _, b in w['ins']] + [snapshot(s.state) for s in fd_ins]
    x_in = [np.array(s.state, copy=True) for s in fd_ins]
    # entries are reported one after the other without an index: they are matched in numpy's iteration order over the
    # state as the signal holds it (memory order), and each report's x0 must be the value of that entry
    orders = []
    for s_ in fd_ins:
        st_ = s_.state
        if isinstance(st_, np.ndarray) and st_.ndim:
            it_ = np.nditer(st_, flags=['multi_index'])
            orders.append([it_.multi_index for _ in it_])
        else:
            orders.append([()])
    for m in w['mods']:
        m.seeds.clear()
    calls = []
    np.random.seed(12345 + case.get('rng', 0))
    sink = io.StringIO()
    V = []
    sigbase = {'input': d['input'] if d['prog'] != 'scalar' else 'pyscalar', 'cplx': d['cplx']}

    def viol(check, detail, **sig):
        s = {'check': check, **sigbase, **sig}
        if not any(v['signature'] == s for v in V):
            V.append({'check': check, 'signature': s, 'detail': dict(detail, desc=d)})
    try:
        with contextlib.redirect_stdout(sink):
            pym.finite_difference(blk, fromsig=w['fromsig'], tosig=w['tosig'], dx=opts['dx'],
                                  relative_dx=opts['relative_dx'], random=opts['random'], use_df=use_df,
                                  keep_zero_structure=opts['keep_zero'], verbose=False,
                                  test_fn=lambda x0, dx, an, fd: calls.append((x0, dx, an, fd)))
    except Exception as e:  # noqa
        import traceback
        from pmc.engine.run import REPO_PKG
        if not any(f.filename.startswith(REPO_PKG) for f in traceback.extract_tb(e.__traceback__)):
            raise
        viol('raised', {'error': ''.join(traceback.format_exception_only(type(e), e))[-400:]}, exc=type(e).__name__)
        return {'states': 1, 'transitions': 1, 'violations': V, 'key': key(d)}
    nchk = 0
    # --- non-destructive
    after_states = [snapshot(b.state) for _, b in w['ins']] + [snapshot(s.state) for s in fd_ins]
    nchk += 1
    if after_states != before_states:
        viol('input_state_not_restored', {'before': [b[:3] for b in before_states], 'after': [a[:3] for a in after_states]})
    left = [s.tag for s in list(fd_ins) + list(fd_outs) + [b for _, b in w['ins']]
            if s.sensitivity is not None and np.any(np.asarray(s.sensitivity if not hasattr(s.sensitivity, 'todense')
                                                               else s.sensitivity.todense()) != 0)]
    nchk += 1
    if left:
        viol('sensitivity_left', {'signals': left})
    # --- the seeds actually used: recorded by the last module producing each output (one back-propagation per output,
    # in the order of tosig; a module with several outputs is handed the seed of one output at a time)
    last = w['mods'][-1] if d['prog'] not in ('net3:mid_to_mid2', 'net3:a_to_mid') else \
        (w['mods'][1] if d['prog'] == 'net3:mid_to_mid2' else w['mods'][0])
    nout = len(fd_outs)
    if len(last.seeds) < nout:
        viol('no_seed_recorded', {})
        return {'states': 1, 'transitions': nchk, 'violations': V, 'key': key(d)}
    out_pos = w.get('out_pos', list(range(nout)))      # position of each fd output among the module's outputs
    seeds = []
    for o in range(nout):
        rec_ = last.seeds[o]
        seeds.append(rec_[out_pos[o]] if len(rec_) > 1 else rec_[0])
    if opts['use_df']:
        for o in range(nout):
            nchk += 1
            ws_ = seeds[o]
            if ws_ is None or not np.array_equal(np.asarray(ws_ if not hasattr(ws_, 'todense') else ws_.todense()),
                                                 np.asarray(use_df[o])):
                viol('use_df_not_used', {'output': o})
    if any(sd_ is None for sd_ in seeds):
        viol('no_seed_recorded', {})
        return {'states': 1, 'transitions': nchk, 'violations': V, 'key': key(d)}
    Ws = [np.asarray(sd_.todense() if hasattr(sd_, 'todense') else sd_).astype(complex).ravel() for sd_ in seeds]

    def F(xs, o):
        ys = w['fn'](xs)
        y = ys[o]
        return np.asarray(y.todense() if hasattr(y, 'todense') else y).astype(complex).ravel()
    # --- expected call list
    exp = []
    for i, x in enumerate(x_in):
        for idx in orders[i]:
            x0 = x[idx] if x.ndim else x[()]
            if x0 == 0 and opts['keep_zero']:
                continue
            sf = abs(x0) if (opts['relative_dx'] and abs(x0) != 0) else 1.0
            exp.append((i, idx, 're', x0, sf))
            if np.iscomplexobj(x):
                exp.append((i, idx, 'im', x0, sf))
    nchk += 1
    if len(calls) != len(exp) * nout:
        viol('number_of_reported_pairs', {'got': len(calls), 'expected': len(exp) * nout})
        return {'states': 1, 'transitions': nchk, 'violations': V, 'key': key(d)}
    # --- analytic value: the module's own back-propagation for the recorded seed of each output
    own = []
    for o in range(nout):
        for m in w['mods']:
            m.seeds.clear()
        blk.reset()
        blk.response()
        fd_outs[o].sensitivity = seeds[o].copy() if hasattr(seeds[o], 'copy') else seeds[o]
        blk.sensitivity()
        own.append([None if s_.sensitivity is None else np.array(s_.sensitivity, dtype=complex) for s_ in fd_ins])
        blk.reset()
    mism = 0
    visible_wrong = 0
    stop = False
    for e_, (i, idx, part, x0, sf) in enumerate(exp):
        for o in range(nout):
            (cx0, cdx, an, fd) = calls[e_ * nout + o]
            nchk += 3
            if not (np.asarray(cx0).shape == () and complex(cx0) == complex(x0)):
                viol('reported_x0_is_not_the_value_of_the_entry', {'entry': [i, list(idx), part], 'got': cx0, 'want': x0})
                stop = True
                break
            # the step handed to test_fn is the requested dx (or dx scaled by |x0| under relative_dx): one step per entry,
            # not something that drifts from entry to entry
            try:
                cdxf = float(np.real(cdx))
            except Exception:  # noqa
                cdxf = float('nan')
            if not any(abs(cdxf - ref_) <= 1e-12 * abs(ref_) for ref_ in (opts['dx'], opts['dx'] * sf)):
                viol('reported_dx_is_not_the_step_of_the_entry',
                     {'entry': [i, list(idx), part], 'got': cdx, 'dx': opts['dx'], 'relative_scale': sf},
                     relative_dx=bool(opts['relative_dx']))
                stop = True
                break
            g = own[o][i]
            gk = 0.0 if g is None else (g[idx] if g.ndim else g[()])
            want_an = float(np.real(gk)) if part == 're' else float(np.imag(gk))
            sigo = {'output': o} if nout > 1 else {}
            if abs(an - want_an) > 1e-9 * max(1.0, abs(want_an)):
                viol('analytic_value_not_the_backpropagated_one',
                     {'entry': [i, list(idx), part], 'output': o, 'got': an, 'want': want_an}, part=part, **sigo)
            xs = [np.array(v, dtype=complex if d['cplx'] else float) for v in x_in]
            e = np.zeros_like(xs[i])
            if e.ndim:
                e[idx] = 1.0 if part == 're' else 1j
            else:
                e = np.asarray(1.0 if part == 're' else 1j)

            def Fi(xi, i=i, xs=xs, o=o):
                return F([xi if j == i else xs[j] for j in range(len(xs))], o)
            dF = richardson(Fi, xs[i], e)
            W = Ws[o]
            exact = float(np.real(np.sum(W * dF)))
            if part == 'im':
                exact = -exact          # reported value approximates Im(g) = -dF/dy
            h = opts['dx'] * sf
            # Lagrange remainder: sup of |f''| over the step (the harness functions have monotone f'' on that interval)
            d2 = np.maximum(np.abs(second(Fi, xs[i], e)), np.abs(second(Fi, xs[i] + h * e, e)))
            f0 = Fi(xs[i])
            scale_f = float(np.sum(np.abs(W) * (np.abs(f0) + np.abs(Fi(xs[i] + h * e)))))
            bound = 1.5 * 0.5 * h * float(np.sum(np.abs(W) * d2)) + 200 * EPS * scale_f / h + 1e-9 * abs(exact) + 1e-12
            if abs(fd - exact) > bound:
                viol('numerical_value_not_the_directional_derivative',
                     {'entry': [i, list(idx), part], 'output': o, 'got': fd, 'exact': exact, 'bound': bound, 'h': h},
                     part=part, **sigo)
            if abs(an - fd) > bound + 1e-9 * abs(an):
                mism += 1
            if abs(want_an - exact) > 10 * bound + 1e-6 * abs(exact):
                visible_wrong += 1
        if stop:
            break
    nchk += 1
    if d['wrong'] is None and mism and not V:
        viol('correct_module_reported_with_non_matching_pair', {'pairs': mism})
    # a wrong module must show up if its error is on an entry that was perturbed (zero entries may be skipped)
    if d['wrong'] is not None and visible_wrong > 0 and mism == 0 and not V:
        viol('wrong_module_reported_with_matching_pairs_only', {'wrong': d['wrong']}, wrong=d['wrong'])
    return {'states': 1, 'transitions': nchk, 'checks': nchk, 'nontrivial': len(calls) > 0, 'key': key(d),
            'outcome': f"{d['prog']}:{len(calls)}:{mism > 0}", 'violations': V}


def key(d):
    import json
    return json.dumps(d, sort_keys=True)


def option_grid(tier):
    dxs = [1e-4, 1e-6, 1e-8]
    for dx, rel, rnd, udf, kz in itertools.product(dxs, (False, True), (True, False), (False, True), (True, False)):
        if udf and not rnd:
            continue      # use_df overrides random: one of the two combinations is enough
        yield dict(dx=dx, relative_dx=rel, random=rnd, use_df=udf, keep_zero=kz)


def descriptors(tier):
    for prog, (cls, fn, shapes, wrongs, cplx_ok) in PROGS.items():
        kinds = ['plain'] if shapes[0] == () else ['plain', 'basic_slice', 'fancy_slice', 'strided']
        for kind in kinds:
            for cplx in ((True,) if cplx_ok == 'only' else ((False, True) if cplx_ok else (False,))):
                for zeros in ((False,) if shapes[0] == () else (False, True)):
                    for wrong in [None] + wrongs:
                        yield dict(prog=prog, input=kind, cplx=cplx, zeros=zeros, wrong=wrong)
    for prog in NETS:
        for kind in ('plain', 'basic_slice', 'fancy_slice', 'strided'):
            if prog.endswith(('mid', 'mid_to_mid2')) and kind != 'plain':
                continue
            for cplx in (False, True):
                for wrong in (None, 'scaled', 'sign'):
                    yield dict(prog=prog, input=kind, cplx=cplx, zeros=False, wrong=wrong)


def bounds(tier, seed):
    return {'programs': list(PROGS) + NETS, 'options': 'full product dx x relative_dx x (random|ones|use_df) x keep_zero = 36 combinations',
            'rng_offsets': [seed] if tier == 'quick' else [seed, seed + 1]}


def generate(tier, seed):
    grid = list(option_grid(tier))
    for d in descriptors(tier):
        for o in grid:
            yield {'desc': dict(d, opts=o), 'rng': seed}
    if tier == 'thorough':
        yield {'__level__': 'second rng offset'}
        for d in descriptors(tier):
            for o in grid:
                yield {'desc': dict(d, opts=o), 'rng': seed + 1}
