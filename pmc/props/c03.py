"""C03 -- results depend on current inputs and seeds only, never on call history.

E2 stateless sequence explorer on nine small networks containing every caching component.  Alphabet: I0 I1 I2 (set the
design input to table value k), R (response), S0 S1 (seed output j), B (sensitivity), Z (reset); protocol: S and B only
after an R that follows the last I.  Every sequence of length <= d is replayed on a FRESH network and followed by clean
cycles Z, I_k, R, S_j, B; after each clean cycle every signal state and the source sensitivities must equal those of a
freshly built identical network evaluated once."""
import itertools
import traceback
import numpy as np
import scipy.sparse as sps
from pmc import modspecs as ms

PROPERTY = 'C03'
RULE = ("stateless exploration of call histories on 17 networks (N1 filter+stiffness+sparse LinSolve, N2 block rhs, N3 "
        "CG(SOR) with initial-guess memory, N4 sparse EigenSolve, N5 OverhangFilter+KS, N6 SystemOfEquations, N7 "
        "StaticCondensation, N8 complex dynamic stiffness + LinSolve + ComplexNorm, N9 bare dense LinSolve whose matrix "
        "table holds different matrix classes, N10 the same with definite -> indefinite -> definite symmetric matrices, N11 CG with geometric multigrid, N12 sparse eigenvectors seeded one mode at a time, N13 block right-hand side whose seeds mix seen and new columns, N14 CG on a block of load cases of which one changes, N15 bare LinSolve whose matrix table changes the sparsity pattern, N16 warm-started CG with loads of very different magnitude, N17 sparse eigenvectors of two almost decoupled chains); every protocol-respecting sequence over {I0,I1,I2,R,S0,S1,B,Z} up to the "
        "depth bound, each followed by clean cycles for all (k,j), j in {output 0, output 1, both outputs} (the first fresh after the sequence, rotating); on every "
        "intermediate state: after Z no sensitivity is left, B without a seed changes nothing, R,R equals R. Level 'reseeded-passes': "
        "every clean cycle followed by every cycle (k,j,j2[,j3]) = clean cycle (k,j) then reset+seed j2+sensitivity WITHOUT a new response, "
        "each pass compared with the fresh network's (k,j2). "
        "Non-trivial = the sequence contains at least one R; distinct by (network, sequence, first clean cycle)")
ASSUMPTIONS = ["documented memories (Scaling first value, damped AggScaling, writer counters) are not part of the networks",
               "N3 and N11 (iterative solvers) are compared with SOLVER tolerance 1e-6 relative, all others ALG 1e-9",
               "pymoto.core_objects.get_init_str (diagnostic only) replaced by a constant"]

OPS = ['I0', 'I1', 'I2', 'R', 'S0', 'S1', 'B', 'Z']
NETS = ['N1', 'N2', 'N3', 'N4', 'N5', 'N6', 'N7', 'N8', 'N9', 'N10', 'N11', 'N12', 'N13', 'N14', 'N15', 'N16', 'N17']


def _xs(nel, t):
    return [0.3 + 0.1 * np.arange(nel) + 0.01 * t, np.full(nel, 0.5 + 0.02 * t), 1.0 - 0.12 * np.arange(nel) / max(1, nel / 6)]


def build(name, t=0):
    """returns dict(net, sources=[signals], tables=[[state per source] for k], outs=[signals], seeds=[values], sigs=[all])"""
    pym = ms._pym()
    import pymoto.solvers as ps
    dom = pym.DomainDefinition(3, 2)
    nel = dom.nel
    bc = np.sort(np.concatenate([dom.get_nodenumber(0, np.arange(3)) * 2, dom.get_nodenumber(0, np.arange(3)) * 2 + 1]))
    f = np.zeros(dom.nnodes * 2)
    f[dom.get_nodenumber(3, 1) * 2 + 1] = -1.0
    xs = _xs(nel, t)
    net = pym.Network()
    x = pym.Signal('x', xs[0].copy())
    sources, tables = [x], [[v] for v in xs]
    seeds = [1.0, 1.0]
    if name in ('N1', 'N2', 'N3'):
        xf = net.append(pym.DensityFilter(x, domain=dom, radius=1.5))
        K = net.append(pym.AssembleStiffness(xf, domain=dom, bc=bc))
        rhs = pym.Signal('f', f.copy() if name != 'N2' else np.stack([f, np.roll(f, 2) * 0.5], axis=1))
        kw = {}
        if name == 'N3':
            kw['solver'] = ps.CG(preconditioner=ps.SOR(), tol=1e-11)
        u = net.append(pym.LinSolve([K, rhs], **kw))
        c = net.append(pym.EinSum([u, rhs], expression='i,i->' if name != 'N2' else 'ij,ij->'))
        v = net.append(pym.EinSum([xf], expression='i->'))
        outs = [c, v]
    elif name == 'N4':
        K = net.append(pym.AssembleStiffness(x, domain=dom, bc=bc))
        M = net.append(pym.AssembleMass(x, domain=dom, bc=bc, ndof=2, bcdiagval=1.0))
        lam, Q = net.append(pym.EigenSolve([K, M], nmodes=3, hermitian=True))
        l0 = net.append(pym.EinSum([lam], expression='i->'))
        q0 = net.append(pym.EinSum([Q, Q], expression='ij,ij->'))
        outs = [l0, q0]
    elif name == 'N12':
        # sparse eigenvectors seeded directly, one mode at a time (exact-zero seed columns for the other modes)
        K = net.append(pym.AssembleStiffness(x, domain=dom, bc=bc))
        M = net.append(pym.AssembleMass(x, domain=dom, bc=bc, ndof=2, bcdiagval=1.0))
        lam, Q = net.append(pym.EigenSolve([K, M], nmodes=3, hermitian=True))
        outs = [Q, Q]
        nd = dom.nnodes * 2
        g0, g1 = np.zeros((nd, 3)), np.zeros((nd, 3))
        g0[:, 0] = np.cos(1.0 + np.arange(nd))
        g1[:, 1] = np.sin(0.5 + 0.7 * np.arange(nd))
        seeds = [g0, g1]
    elif name == 'N13':
        # block right-hand side; the seeds of the solution mix a column the solver has already seen (a load column: the
        # matrix is symmetric, so its adjoint solution is known) with a column that is new
        xf = net.append(pym.DensityFilter(x, domain=dom, radius=1.5))
        K = net.append(pym.AssembleStiffness(xf, domain=dom, bc=bc))
        nd = dom.nnodes * 2
        # generic load values (not unit loads): reconstruction residuals are round-off, not exact zeros
        F = np.stack([np.cos(0.9 + 1.3 * np.arange(nd)), 0.5 * np.sin(0.2 + 0.6 * np.arange(nd))], axis=1)
        F[bc] = 0
        rhs = pym.Signal('f', F.copy())
        u = net.append(pym.LinSolve([K, rhs]))
        outs = [u, u]
        new1, new2 = np.cos(0.3 + np.arange(nd)), np.sin(1.0 + 0.9 * np.arange(nd))
        new1[bc] = 0
        new2[bc] = 0
        seeds = [np.stack([F[:, 0], new1], axis=1), np.stack([new2, F[:, 1]], axis=1)]
    elif name == 'N14':
        # CG (warm-started from its previous solution) with a block of load cases of which only ONE changes between the
        # tables; the matrix and the other load case stay the same
        nd = dom.nnodes * 2
        Ks = pym.Signal('K')
        pym.AssembleStiffness(pym.Signal('xk', xs[0].copy()), Ks, domain=dom, bc=bc).response()
        base = np.cos(0.9 + 1.3 * np.arange(nd))
        base[bc] = 0
        Fs = []
        for k_ in range(3):
            col = np.sin(0.2 + (0.6 + 0.5 * k_) * np.arange(nd)) * (1.0 + k_)
            col[bc] = 0
            Fs.append(np.stack([base, col], axis=1))
        rhs = pym.Signal('f', Fs[0].copy())
        net = pym.Network()
        u = net.append(pym.LinSolve([Ks, rhs], solver=ps.CG(preconditioner=ps.SOR(), tol=1e-11)))
        c = net.append(pym.EinSum([u, rhs], expression='ij,ij->'))
        v = net.append(pym.EinSum([u, u], expression='ij,ij->'))
        sources, tables = [rhs], [[F_] for F_ in Fs]
        outs = [c, v]
        x = rhs
    elif name == 'N5':
        xo = net.append(pym.OverhangFilter(x, domain=dom, direction=[0, 1]))
        a = net.append(pym.KSFunction(xo, rho=3.0))
        b = net.append(pym.EinSum([xo, xo], expression='i,i->'))
        outs = [a, b]
    elif name == 'N6':
        K = net.append(pym.AssembleStiffness(x, domain=dom))
        pres = bc
        free = np.setdiff1d(np.arange(dom.nnodes * 2), pres)
        bf = pym.Signal('bf', f[free].copy())
        xp = pym.Signal('xp', 0.01 * np.cos(np.arange(pres.size)))
        u, b = net.append(pym.SystemOfEquations([K, bf, xp], free=free, prescribed=pres))
        c = net.append(pym.EinSum([u, b], expression='i,i->'))
        s = net.append(pym.EinSum([b, b], expression='i,i->'))
        outs = [c, s]
    elif name == 'N7':
        K = net.append(pym.AssembleStiffness(x, domain=dom))
        main = np.array([dom.get_nodenumber(3, 1) * 2, dom.get_nodenumber(3, 1) * 2 + 1, dom.get_nodenumber(3, 0) * 2 + 1])
        free = np.setdiff1d(np.arange(dom.nnodes * 2), np.concatenate([bc, main]))
        Ar = net.append(pym.StaticCondensation(K, main=main, free=free))
        tr = net.append(pym.EinSum([Ar], expression='ii->'))
        sm = net.append(pym.EinSum([Ar, Ar], expression='ij,ij->'))
        outs = [tr, sm]
    elif name == 'N8':
        K = net.append(pym.AssembleStiffness(x, domain=dom, bc=bc))
        M = net.append(pym.AssembleMass(x, domain=dom, bc=bc, ndof=2, bcdiagval=0.0))

        class Dyn(pym.Module):
            w, al, be = 0.7, 0.05, 0.1

            def _response(self, Km, Mm):
                return Km * (1 + 1j * self.w * self.al) + Mm * (-self.w ** 2 + 1j * self.w * self.be)

            def _sensitivity(self, dZ):
                return (dZ * (1 + 1j * self.w * self.al)).real, (dZ * (-self.w ** 2 + 1j * self.w * self.be)).real
        Z = net.append(Dyn([K, M]))
        rhs = pym.Signal('f', f.astype(complex))
        u = net.append(pym.LinSolve([Z, rhs]))
        # the norm is not differentiable where u is exactly 0 (the clamped dofs): take it of the free dofs only
        free8 = np.setdiff1d(np.arange(dom.nnodes * 2), bc)
        A = net.append(pym.ComplexNorm(u[free8]))
        c = net.append(pym.EinSum([A], expression='i->'))
        ur = net.append(pym.RealPart(u))
        d = net.append(pym.EinSum([ur, ur], expression='i,i->'))
        outs = [c, d]
    elif name == 'N9':
        S = np.array([[4., 1, 0.5], [1, 3, 0.2], [0.5, 0.2, 5]])
        N = np.array([[4., 1, 0.5], [-0.7, 3, 0.2], [0.1, 0.9, 5]])
        C = N + 1j * np.array([[0, 0.3, 0], [0.2, 0, 0.1], [0, 0.5, 0.4]])
        A = pym.Signal('A', S.copy())
        b = pym.Signal('b', np.array([1., 2., -1.]))
        net = pym.Network()
        u = net.append(pym.LinSolve([A, b]))
        sources, tables = [A, b], [[S, b.state], [N, b.state], [C, b.state]]
        outs = [u, u]
        seeds = [np.array([1.0, 0.0, 0.0]), np.array([0.3, -0.7, 1.1])]
        x = A
    elif name == 'N15':
        # bare dense LinSolve whose matrix table changes the SPARSITY PATTERN: a dof that is decoupled (only its diagonal
        # entry) for one input is coupled for the next one and the other way round
        D0 = np.array([[4., 1, 0], [1, 3, 0], [0, 0, 5]])
        D1 = np.array([[4., 1, 0.5], [1, 3, 0.2], [0.5, 0.2, 5]])
        D2 = np.array([[4., 0, 0.5], [0, 3, 0], [0.5, 0, 5]])
        A = pym.Signal('A', D0.copy())
        b = pym.Signal('b', np.array([1., 2., -1.]))
        net = pym.Network()
        u = net.append(pym.LinSolve([A, b]))
        sources, tables = [A, b], [[D0, b.state], [D1, b.state], [D2, b.state]]
        outs = [u, u]
        seeds = [np.array([1.0, 0.0, 0.0]), np.array([0.3, -0.7, 1.1])]
        x = A
    elif name == 'N16':
        # warm-started CG whose load changes MAGNITUDE by orders between the tables (the previous solution is a poor guess)
        nd = dom.nnodes * 2
        Ks = pym.Signal('K')
        pym.AssembleStiffness(pym.Signal('xk', xs[0].copy()), Ks, domain=dom, bc=bc).response()
        base = np.cos(0.9 + 1.3 * np.arange(nd))
        base[bc] = 0
        other = np.sin(0.2 + 0.6 * np.arange(nd))
        other[bc] = 0
        # (a guess that is 1e7 times too large limits the attainable accuracy to about eps*1e7*cond, far below the 1e-4
        # this net is judged with; a tolerance test relative to the initial residual would be off by 1e-3)
        Fs = [1e6 * base, other, 1e-1 * (base + other)]
        rhs = pym.Signal('f', Fs[0].copy())
        net = pym.Network()
        u = net.append(pym.LinSolve([Ks, rhs], solver=ps.CG(preconditioner=ps.SOR(), tol=1e-9)))
        c = net.append(pym.EinSum([u, rhs], expression='i,i->'))
        v = net.append(pym.EinSum([u, u], expression='i,i->'))
        sources, tables = [rhs], [[F_] for F_ in Fs]
        outs = [c, v]
        x = rhs
    elif name == 'N17':
        # sparse eigenvectors of two almost decoupled chains; which chain carries the lowest mode changes with the input
        import scipy.sparse as sps_

        def chains(k1, k2):
            T = 2 * np.eye(4) - np.eye(4, k=1) - np.eye(4, k=-1)
            A_ = np.zeros((8, 8))
            A_[:4, :4] = k1 * T
            A_[4:, 4:] = k2 * T
            A_[3, 4] = A_[4, 3] = -1e-9
            return sps_.csc_matrix(A_)
        mats = [chains(1.0, 3.0), chains(3.0, 1.0), chains(1.0, 5.0)]
        A = pym.Signal('A', mats[0].copy())
        net = pym.Network()
        lam, Q = net.append(pym.EigenSolve([A], nmodes=2, hermitian=True))
        sources, tables = [A], [[M_] for M_ in mats]
        outs = [Q, Q]
        g0, g1 = np.zeros((8, 2)), np.zeros((8, 2))
        g0[:, 0] = np.cos(1.0 + np.arange(8))
        g1[:, 1] = np.sin(0.5 + 0.7 * np.arange(8))
        seeds = [g0, g1]
        x = A
    elif name == 'N11':
        # CG with a geometric multigrid preconditioner (interpolation set up once, coarse solver chosen at the first update)
        dom = pym.DomainDefinition(4, 2)
        nel = dom.nel
        bc = np.sort(np.concatenate([dom.get_nodenumber(0, np.arange(3)) * 2, dom.get_nodenumber(0, np.arange(3)) * 2 + 1]))
        f = np.zeros(dom.nnodes * 2)
        f[dom.get_nodenumber(4, 1) * 2 + 1] = -1.0
        xs = _xs(nel, t)
        x = pym.Signal('x', xs[0].copy())
        sources, tables = [x], [[v] for v in xs]
        net = pym.Network()
        K = net.append(pym.AssembleStiffness(x, domain=dom, bc=bc))
        rhs = pym.Signal('f', f.copy())
        u = net.append(pym.LinSolve([K, rhs], solver=ps.CG(preconditioner=ps.GeometricMultigrid(dom), tol=1e-11)))
        c = net.append(pym.EinSum([u, rhs], expression='i,i->'))
        v = net.append(pym.EinSum([u, u], expression='i,i->'))
        outs = [c, v]
    elif name == 'N10':
        # dense symmetric matrices with positive diagonal: definite -> indefinite -> definite (Cholesky with LDL fallback)
        P1 = np.array([[4., 1, 0.5], [1, 3, 0.2], [0.5, 0.2, 5]])
        IN = np.array([[1., 3, 0.5], [3, 1, 0.2], [0.5, 0.2, 2]])
        P2 = np.array([[3., -1, 0.4], [-1, 4, 0.6], [0.4, 0.6, 2.5]])
        A = pym.Signal('A', P1.copy())
        b = pym.Signal('b', np.stack([np.array([1., 2., -1.]), np.array([0.5, -1.0, 2.0])], axis=1))
        net = pym.Network()
        u = net.append(pym.LinSolve([A, b]))
        sources, tables = [A, b], [[P1, b.state], [IN, b.state], [P2, b.state]]
        outs = [u, u]
        seeds = [np.array([[1.0, 0.0], [0.0, 0.0], [0.0, 1.0]]), np.array([[0.3, -0.7], [1.1, 0.2], [-0.4, 0.9]])]
        x = A
    sigs = []
    for m in net.mods:
        for q in list(m.sig_in) + list(m.sig_out):
            if not any(q is s for s in sigs):
                sigs.append(q)
    return dict(net=net, sources=sources, tables=tables, outs=outs, seeds=seeds, sigs=sigs)


def snap_states(w):
    return [ms.dense(s.state) for s in w['sigs']]


def snap_sens(w):
    return [ms.dense(s.sensitivity) for s in w['sigs']]


def src_sens(w):
    return [ms.dense(s.sensitivity) for s in w['sources']]


def set_input(w, k):
    for s, v in zip(w['sources'], w['tables'][k]):
        s.state = ms.copy_obj(v)


def seed(w, j):
    """j = 0, 1: seed that output; j = 2: seed both outputs (contributions meet on shared upstream signals)"""
    if j == 2:
        if w['outs'][0] is w['outs'][1]:
            v = w['seeds'][0] + w['seeds'][1]
            w['outs'][0].sensitivity = v.copy() if isinstance(v, np.ndarray) else v
        else:
            seed(w, 0)
            seed(w, 1)
        return
    v = w['seeds'][j]
    w['outs'][j].sensitivity = v.copy() if isinstance(v, np.ndarray) else v


def clean_cycle(w, k, j):
    w['net'].reset()
    set_input(w, k)
    w['net'].response()
    seed(w, j)
    w['net'].sensitivity()
    return snap_states(w), src_sens(w)


_REF = {}


def reference(name, t, k, j):
    """fresh network evaluated once; None if that single evaluation itself raises inside the code under test (then the
    point says nothing about history dependence: it is left to C01 and counted as observed_only)"""
    key = (name, t, k, j)
    if key not in _REF:
        w = build(name, t)
        try:
            _REF[key] = clean_cycle(w, k, j)
        except Exception as e:  # noqa
            if not _in_repo(e):
                raise
            _REF[key] = None
    return _REF[key]


def close(a, b, tol):
    if a is None or b is None:
        if a is None and b is None:
            return True, 0.0
        z = a if a is not None else b
        return bool(np.all(z == 0)), float(np.max(np.abs(z))) if z.size else 0.0
    if a.shape != b.shape:
        if a.size == b.size:
            a = a.reshape(b.shape)
        else:
            return False, float('inf')
    if a.size == 0:
        return True, 0.0
    sc = max(float(np.max(np.abs(b))), 1e-300)
    d = float(np.max(np.abs(a - b))) / sc
    return d <= tol, d


def protocol_ok(seq):
    fresh = False
    for o in seq:
        if o[0] == 'I':
            fresh = False
        elif o == 'R':
            fresh = True
        elif o in ('B', 'S0', 'S1') and not fresh:
            return False
    return True


def _in_repo(e):
    from pmc.engine.run import REPO_PKG
    return any(f.filename.startswith(REPO_PKG) for f in traceback.extract_tb(e.__traceback__))


def class_change(name, seq, cycles):
    if name != 'N9':
        return False
    ks = [int(o[1]) for o in seq if o[0] == 'I'] + [k for k, _ in cycles]
    return len(set([0] + ks)) > 1


def run_history(name, t, seq, cycles):
    """returns (ops, violation tuple or None)"""
    tol = 1e-4 if name == 'N16' else 1e-6 if name in ('N3', 'N11', 'N14') else 1e-9
    w = build(name, t)
    net = w['net']
    seeded = False
    last_R_states = None
    nops = 0
    cur_k = 0
    hist_k = [0]
    try:
        for i, o in enumerate(seq):
            nops += 1
            if o[0] == 'I':
                cur_k = int(o[1])
                hist_k.append(cur_k)
                set_input(w, cur_k)
                last_R_states = None
            elif o == 'R':
                net.response()
                st = snap_states(w)
                if last_R_states is not None:
                    for a, b in zip(st, last_R_states):
                        ok, d = close(a, b, tol)
                        if not ok:
                            return nops, ('repeated_response_differs', {'net': name}, {'seq': seq, 'step': i, 'rel': d})
                last_R_states = st
            elif o[0] == 'S':
                seed(w, int(o[1]))
                seeded = True
            elif o == 'B':
                before = snap_sens(w)
                net.sensitivity()
                if not seeded:
                    after = snap_sens(w)
                    for a, b in zip(after, before):
                        ok, d = close(a, b, 0.0)
                        if not ok:
                            return nops, ('sensitivity_without_seed_changed_something', {'net': name},
                                          {'seq': seq, 'step': i})
            elif o == 'Z':
                net.reset()
                seeded = False
                for s in w['sigs']:
                    g = ms.dense(s.sensitivity)
                    if g is not None and np.any(g != 0):
                        return nops, ('sensitivity_left_after_reset', {'net': name}, {'seq': seq, 'step': i,
                                                                                      'signal': s.tag})
        for c, cyc in enumerate(cycles):
            k, j, more = cyc[0], cyc[1], list(cyc[2:])
            ref = reference(name, t, k, j)
            if ref is None:
                continue
            nops += 5
            hist_k.append(k)
            st, gs = clean_cycle(w, k, j)
            rst, rgs = ref
            changed = len(set(hist_k)) > 1 and name in ('N9', 'N10')
            for idx, (a, b) in enumerate(zip(st, rst)):
                ok, d = close(a, b, tol)
                if not ok:
                    return nops, ('state_differs_from_fresh', {'net': name, 'input_class_changed': changed},
                                  {'seq': seq, 'cycles': cycles[:c + 1], 'signal': w['sigs'][idx].tag, 'rel': d})
            for idx, (a, b) in enumerate(zip(gs, rgs)):
                ok, d = close(a, b, tol * (1e3 if name in ('N3', 'N11', 'N14') else 1))
                if not ok:
                    return nops, ('sensitivity_differs_from_fresh', {'net': name, 'input_class_changed': changed},
                                  {'seq': seq, 'cycles': cycles[:c + 1], 'source': idx, 'rel': d})
            # further sensitivity passes for other seeds WITHOUT a new response (one response, several seeds: what
            # finite_difference and the optimizers do)
            for q, j2 in enumerate(more):
                ref2 = reference(name, t, k, j2)
                if ref2 is None:
                    break
                nops += 3
                net.reset()
                seed(w, j2)
                net.sensitivity()
                for idx, (a, b) in enumerate(zip(snap_states(w), rst)):
                    ok, d = close(a, b, tol)
                    if not ok:
                        return nops, ('state_changed_by_sensitivity_pass', {'net': name},
                                      {'seq': seq, 'cycles': cycles[:c + 1], 'signal': w['sigs'][idx].tag, 'rel': d})
                for idx, (a, b) in enumerate(zip(src_sens(w), ref2[1])):
                    ok, d = close(a, b, tol * (1e3 if name in ('N3', 'N11', 'N14') else 1))
                    if not ok:
                        return nops, ('reseeded_pass_differs_from_fresh', {'net': name, 'input_class_changed': changed},
                                      {'seq': seq, 'cycles': cycles[:c + 1], 'pass': q + 2, 'source': idx, 'rel': d})
    except Exception as e:  # noqa
        if not _in_repo(e):
            raise
        changed = len(set(hist_k)) > 1 and name in ('N9', 'N10')
        return nops, ('raised', {'net': name, 'exc': type(e).__name__, 'input_class_changed': changed},
                      {'seq': seq, 'cycles': cycles, 'error': ''.join(traceback.format_exception_only(type(e), e))[-500:]})
    return nops, None


ALL_CYCLES = [(k, j) for k in range(3) for j in range(3)]


def execute(case):
    name, t = case['net'], case['table']
    V = []
    nops = 0
    n = 0
    nontrivial = 0
    hist = case['histories']
    for h in hist:
        seq, cycles = h['seq'], [tuple(c) for c in h['cycles']]
        k, v = run_history(name, t, seq, cycles)
        nops += k
        n += 1
        nontrivial += 'R' in seq
        if v:
            sig = {'check': v[0], **v[1]}
            if not any(x['signature'] == sig for x in V):
                V.append({'check': v[0], 'signature': sig, 'detail': v[2],
                          'case': dict(case, histories=[{'seq': seq, 'cycles': [list(c) for c in cycles]}])})
    obs = [f'fresh_reference_raises:{name}:k{k}j{j}' for (nm, tt, k, j), r in _REF.items()
           if r is None and nm == name and tt == t]
    return {'states': n, 'transitions': nops, 'checks': nops, 'nontrivial': nontrivial > 0, 'observed_only': obs,
            'key': [f"{name}|{t}|{h['seq']}|{h['cycles'][0]}" for h in hist if 'R' in h['seq']],
            'outcome': f"{name}:{'viol' if V else 'ok'}", 'violations': V}


def sequences(depth):
    out = [[]]
    for d in range(1, depth + 1):
        for seq in itertools.product(OPS, repeat=d):
            if protocol_ok(seq):
                out.append(list(seq))
    return out


def bounds(tier, seed):
    return {'networks': NETS, 'alphabet': OPS,
            'levels': ['depth<=2, first clean cycle every (k,j) fresh', 'depth 3, rotating first clean cycle, all six chained']
            if tier == 'quick' else ['depth<=2 all first cycles', 'depth 3 rotating', 'depth 3 all first cycles',
                                     'depth 4 rotating', 'depth 5 rotating'], 'table': seed % 3}


def generate(tier, seed):
    t = seed % 3

    def chunks(lst, n):
        for i in range(0, len(lst), n):
            yield lst[i:i + n]

    def level(depth_lo, depth_hi, all_first):
        seqs = [s for s in sequences(depth_hi) if len(s) >= depth_lo]
        for name in NETS:
            hs = []
            for idx, s in enumerate(seqs):
                if all_first:
                    for c in ALL_CYCLES:
                        hs.append({'seq': s, 'cycles': [list(c)]})
                else:
                    r = idx % len(ALL_CYCLES)
                    cyc = ALL_CYCLES[r:] + ALL_CYCLES[:r]
                    hs.append({'seq': s, 'cycles': [list(c) for c in cyc]})
            for ch in chunks(hs, 40):
                yield {'net': name, 'table': t, 'histories': ch}
    def reseed_level(tier_):
        # every clean cycle (k, j) followed by every cycle with one or two further seeded passes on the same response
        second = [(k, j, j2) for k in range(3) for j in range(3) for j2 in range(3)]
        if tier_ != 'quick':
            second += [(k, j, j2, j3) for k in range(3) for j in range(3) for j2 in range(3) for j3 in range(3)]
        for name in NETS:
            hs = [{'seq': [], 'cycles': [list(c2)]} for c2 in second]
            hs += [{'seq': [], 'cycles': [list(c1), list(c2)]} for c1 in ALL_CYCLES for c2 in second]
            for ch in chunks(hs, 30):
                yield {'net': name, 'table': t, 'histories': ch}

    yield {'__level__': 'depth<=2/all-first-cycles'}
    yield from level(0, 2, True)
    yield {'__level__': 'reseeded-passes'}
    yield from reseed_level(tier)
    yield {'__level__': 'depth3/rotating'}
    yield from level(3, 3, False)
    if tier == 'quick':
        return
    yield {'__level__': 'depth3/all-first-cycles'}
    yield from level(3, 3, True)
    yield {'__level__': 'depth4/rotating'}
    yield from level(4, 4, False)
    yield {'__level__': 'depth5/rotating'}
    yield from level(5, 5, False)
