"""C15 -- DyadCarrier behaves exactly like the dense matrix it represents.

E2 explicit-state BFS on real DyadCarrier objects with the dense matrix (pmc.refs.dyad) in lock-step.  A state is
reached by replaying its operation path on fresh carriers; paths are merged only if shape, dtype and the exact bytes
of every u/v vector agree.  At every new state 24+ observations are compared; after every operation all operands and all
earlier carriers of the path are checked to be unchanged (EXACT)."""
import numpy as np
import scipy.sparse as sps
from pmc.refs import dyad as rd

PROPERTY = 'C15'
RULE = ("explicit-state BFS over DyadCarrier operation sequences: initial states {empty with shape, rank-1 real, rank-2 "
        "real, rank-1 complex, mixed real/complex, block-constructed, built from all-zero vectors without shape=} x shapes (3,2),(2,2),(2,3); 30 state-changing "
        "operations (+,- with real/complex/empty carriers from both sides, unary +-, +=, -=, scalar products from both "
        "sides incl. 0 and 1j, matrix products from both sides incl. complex and rectangular, T, conj, real, imag, copy, "
        "basic/stepped/fancy slicing, zeroing rows/columns); at each new state ~27 observations (todense, shape, dtype "
        "kind, diagonals, element/row/column/fancy access, contract in 8 forms, contract_multi, dot/@ from both sides "
        "with real and complex vectors, dense +/-, iscomplex). Steps whose dense counterpart raises are inadmissible and "
        "not taken. Non-trivial = carrier holds >= 1 dyad; distinct by full byte content")
RULE += " Extended in seeding rounds 6-7:  zero-length dimensions, empty sparse operands, boolean masks in contract, scalar + 2-D index element access."
ASSUMPTIONS = ["an exactly-zero result may be real-typed even where numpy would return a complex zero (the carrier drops "
               "zero dyads by design)",
               "operand tables are fixed generic numbers (fractional parts of scaled square roots of primes)"]

INITS = ['empty', 'r1', 'r2', 'c1', 'mix', 'blk', 'zero_u', 'zero_v', 'zero_mixed', 'blk_cancel', 'sym', 'sym_c', 'tiny',
         'tiny_big', 'tiny_c']
# magnitude unit of an initial state: values of order 1e-9 are judged relative to 1e-9 (a matrix of small numbers is a
# matrix like any other)
UNIT = {'tiny': 1e-9, 'tiny_c': 1e-9}
SHAPES = [(3, 2), (2, 2), (2, 3)]


def make_init(name, shape, seed):
    from pymoto import DyadCarrier as DC
    r, c = shape
    if name == 'blk':
        p = rd.dyads('r2', r, c, seed)
        U = np.stack([p[0][0], p[1][0]])
        V = np.stack([p[0][1], p[1][1]])
        return DC(U, V), np.outer(U.sum(0), V.sum(0))
    if name in ('zero_u', 'zero_v', 'zero_mixed', 'blk_cancel'):
        # constructed from vectors WITHOUT shape=: every dyad has an all-zero u or v, the matrix is an (r, c) zero matrix
        p = rd.dyads('r2', r, c, seed)
        if name == 'zero_u':
            return DC(np.zeros(r), p[0][1].copy()), np.zeros((r, c))
        if name == 'zero_v':
            return DC([p[0][0].copy(), p[1][0].copy()], [np.zeros(c), np.zeros(c)]), np.zeros((r, c))
        if name == 'zero_mixed':
            return DC([np.zeros(r), p[1][0].copy()], [p[0][1].copy(), np.zeros(c)]), np.zeros((r, c))
        U = np.stack([p[0][0], -p[0][0]])
        V = np.stack([p[0][1], p[1][1]])
        return DC(U, V), np.zeros((r, c))
    if name in ('sym', 'sym_c'):
        # symmetric construction: v omitted (u (x) u); square shapes only
        if r != c:
            return None, None
        p = rd.dyads('r2' if name == 'sym' else 'mix', r, c, seed)
        us = [p[0][0].copy(), p[1][0].copy()]
        return DC(us), rd.dense_of([(u, u) for u in us], r, c)
    if name in ('tiny', 'tiny_big', 'tiny_c'):
        # vectors of order 1e-9 (with partners of order 1, or of order 1e9 so that the matrix is of order 1)
        p = rd.dyads('mix' if name == 'tiny_c' else 'r2', r, c, seed)
        f = 1e9 if name == 'tiny_big' else 1.0
        pairs = [(1e-9 * p[0][0], f * p[0][1]), (p[1][0] * (1.0 if name == 'tiny_big' else 1e-9), p[1][1])]
        return DC([q[0].copy() for q in pairs], [q[1].copy() for q in pairs]), rd.dense_of(pairs, r, c)
    pairs = rd.dyads(name, r, c, seed)
    if not pairs:
        return DC(shape=(r, c)), np.zeros((r, c))
    return DC([p[0].copy() for p in pairs], [p[1].copy() for p in pairs]), rd.dense_of(pairs, r, c)


class Ctx:
    """operands for the current shape; all created fresh per replay and snapshot-checked afterwards"""

    def __init__(self, seed):
        self.seed = seed
        self.operands = []   # (name, object, snapshot)

    def carrier(self, name, r, c):
        from pymoto import DyadCarrier as DC
        pairs = rd.dyads(name, r, c, self.seed)
        d = DC([p[0].copy() for p in pairs], [p[1].copy() for p in pairs], shape=(r, c)) if pairs else DC(shape=(r, c))
        self.operands.append((name, d, snap_carrier(d)))
        return d, rd.dense_of(pairs, r, c)

    def matrix(self, r, c, k, cplx=False):
        m = rd.mat(r, c, k, self.seed, cplx)
        self.operands.append((f'mat{k}', m, m.copy()))
        return m

    def operands_changed(self):
        out = []
        for name, o, s in self.operands:
            now = snap_carrier(o) if not isinstance(o, np.ndarray) else o
            same = (now == s) if not isinstance(o, np.ndarray) else bool(np.array_equal(o, s))
            if not same:
                out.append(name)
        return out


def snap_carrier(d):
    return (tuple(d.shape), str(d.dtype), tuple(u.tobytes() for u in d.u), tuple(v.tobytes() for v in d.v))


# ---- state-changing operations: name -> (impl(D, ctx, r, c), ref(R, ctx-values...)) ---------------------------------
def _binary(opname, operand, left):
    def f(D, R, ctx):
        r, c = R.shape
        P, Pref = ctx.carrier(operand, r, c)
        if opname == 'add':
            return ((P + D) if left else (D + P)), (Pref + R)
        return ((P - D) if left else (D - P)), ((Pref - R) if left else (R - Pref))
    return f


def _inplace(opname, operand):
    def f(D, R, ctx):
        r, c = R.shape
        P, Pref = ctx.carrier(operand, r, c)
        if opname == 'iadd':
            D += P
            return D, R + Pref
        D -= P
        return D, R - Pref
    return f


def _iadd_self(D, R, ctx):
    # the operand IS the carrier (dense: R += R doubles it; a carrier that iterates over the lists it appends to never
    # returns -- the engine's case timeout reports that as no_return)
    D += D
    return D, R + R


def _isub_self(D, R, ctx):
    D -= D
    return D, R - R


def _zero_rows(D, R, ctx):
    D[np.array([0]), :] = 0.0
    return D, rd.zero_rows(R, np.array([0]))


def _zero_cols(D, R, ctx):
    D[:, 1:] = 0.0
    return D, rd.zero_cols(R, slice(1, None))


def _zero_row_slice(D, R, ctx):
    D[0:2, :] = 0
    return D, rd.zero_rows(R, slice(0, 2))


OPS = {
    'add_r': _binary('add', 'Pr', False), 'add_c': _binary('add', 'Pc', False), 'add_0': _binary('add', 'empty', False),
    'radd_r': _binary('add', 'Pr', True), 'radd_c': _binary('add', 'Pc', True),
    'sub_r': _binary('sub', 'Pr', False), 'sub_c': _binary('sub', 'Pc', False), 'rsub_c': _binary('sub', 'Pc', True),
    'sub_0': _binary('sub', 'empty', False),
    'neg': lambda D, R, ctx: (-D, -R), 'pos': lambda D, R, ctx: (+D, +R),
    'iadd_r': _inplace('iadd', 'Pr'), 'iadd_c': _inplace('iadd', 'Pc'), 'isub_r': _inplace('isub', 'Pr'),
    'isub_c': _inplace('isub', 'Pc'),
    'iadd_self': _iadd_self, 'isub_self': _isub_self,
    'add_self': lambda D, R, ctx: (D + D, R + R), 'sub_self': lambda D, R, ctx: (D - D, R - R),
    'lmul2': lambda D, R, ctx: (2.0 * D, 2.0 * R), 'rmul2': lambda D, R, ctx: (D * 2.0, R * 2.0),
    'lmulj': lambda D, R, ctx: (1j * D, 1j * R), 'rmulj': lambda D, R, ctx: (D * 1j, R * 1j),
    'mul0': lambda D, R, ctx: (D * 0.0, R * 0.0),
    'lmul_tiny': lambda D, R, ctx: (1e-9 * D, 1e-9 * R), 'rmul_big': lambda D, R, ctx: (D * 1e9, R * 1e9),
    'lmat': lambda D, R, ctx: (lambda M: (M @ D, M @ R))(ctx.matrix(R.shape[0], R.shape[0], 1)),
    'lmatc': lambda D, R, ctx: (lambda M: (M @ D, M @ R))(ctx.matrix(R.shape[0], R.shape[0], 2, True)),
    'lmat_rect': lambda D, R, ctx: (lambda M: (M @ D, M @ R))(ctx.matrix(5 - R.shape[0], R.shape[0], 3)),
    'rmat': lambda D, R, ctx: (lambda M: (D @ M, R @ M))(ctx.matrix(R.shape[1], R.shape[1], 4)),
    'rmatc': lambda D, R, ctx: (lambda M: (D @ M, R @ M))(ctx.matrix(R.shape[1], R.shape[1], 5, True)),
    'rmat_rect': lambda D, R, ctx: (lambda M: (D @ M, R @ M))(ctx.matrix(R.shape[1], 5 - R.shape[1], 6)),
    'T': lambda D, R, ctx: (D.T, R.T), 'conj': lambda D, R, ctx: (D.conj(), R.conj()),
    'real': lambda D, R, ctx: (D.real, R.real), 'imag': lambda D, R, ctx: (D.imag, R.imag),
    'copy': lambda D, R, ctx: (D.copy(), R.copy()),
    'sl_rows': lambda D, R, ctx: (D[0:2, :], R[0:2, :]),
    'sl_cols': lambda D, R, ctx: (D[:, 1:], R[:, 1:]),
    'sl_fancy': lambda D, R, ctx: (D[np.array([2, 0]), :], R[np.array([2, 0]), :]),
    'sl_step': lambda D, R, ctx: (D[::2, ::-1], R[::2, ::-1]),
    'zero_row': _zero_rows, 'zero_col': _zero_cols, 'zero_rowslice': _zero_row_slice,
    # empty selections: the result has a dimension of length zero (and can be sliced, transposed, ... again)
    'sl_norows': lambda D, R, ctx: (D[1:1, :], R[1:1, :]),
    'sl_nocols': lambda D, R, ctx: (D[:, np.array([], dtype=int)], R[:, np.array([], dtype=int)]),
}
INPLACE = {'iadd_r', 'iadd_c', 'isub_r', 'isub_c', 'iadd_self', 'isub_self', 'zero_row', 'zero_col', 'zero_rowslice'}
OPS_QUICK = ['add_r', 'add_c', 'add_0', 'radd_c', 'sub_c', 'rsub_c', 'neg', 'iadd_r', 'isub_c', 'iadd_self', 'isub_self', 'add_self', 'lmul2', 'rmulj', 'mul0',
             'lmul_tiny', 'rmul_big',
             'lmatc', 'rmat', 'rmat_rect', 'T', 'conj', 'real', 'imag', 'copy', 'sl_rows', 'sl_fancy', 'sl_step',
             'zero_row', 'zero_col', 'sl_norows', 'sl_nocols']


def ref_admissible(name, R, seed):
    """evaluate the dense side alone (operands are pure tables) -- if it raises the step is not taken"""
    class Dummy:
        pass
    try:
        ctx = RefOnlyCtx(seed)
        OPS_REF(name, R, ctx)
        return True
    except Exception:  # noqa
        return False


class RefOnlyCtx:
    def __init__(self, seed):
        self.seed = seed

    def carrier(self, name, r, c):
        return None, rd.dense_of(rd.dyads(name, r, c, self.seed), r, c)

    def matrix(self, r, c, k, cplx=False):
        if r <= 0 or c <= 0:
            raise ValueError('no such operand')
        return rd.mat(r, c, k, self.seed, cplx)


class _Absorb:
    """stand-in for the carrier on the reference-only pass: every operation returns itself"""
    T = real = imag = property(lambda self: self)

    def __getattr__(self, item):
        return lambda *a, **k: self

    def _same(self, *a, **k):
        return self
    __add__ = __radd__ = __sub__ = __rsub__ = __mul__ = __rmul__ = __matmul__ = __rmatmul__ = __neg__ = __pos__ = _same
    __iadd__ = __isub__ = __getitem__ = _same
    __array_priority__ = 1000.0

    def __setitem__(self, k, v):
        pass


def OPS_REF(name, R, ctx):
    return OPS[name](_Absorb(), R, ctx)[1]


# ---- observations -------------------------------------------------------------------------------------------------
def observations(D, R, seed):
    """list of (name, impl thunk, ref thunk)"""
    r, c = R.shape
    if r == 0 or c == 0:
        # a carrier with a dimension of length zero: shape, dense value and what slicing it again gives
        obs = [('todense', lambda: D.todense(), lambda: R), ('shape', lambda: np.array(D.shape), lambda: np.array(R.shape)),
               ('T_of_empty', lambda: D.T.todense(), lambda: R.T),
               ('reslice_rows', lambda: D[0:1, :].todense(), lambda: R[0:1, :]),
               ('reslice_cols', lambda: D[:, 0:1].todense(), lambda: R[:, 0:1]),
               ('reslice_fancy_rows', lambda: D[np.array([0, 0]), :].todense(), lambda: R[np.array([0, 0]), :]),
               ('reslice_fancy_cols', lambda: D[:, np.array([0, 0])].todense(), lambda: R[:, np.array([0, 0])]),
               ('col_of_empty', lambda: D[:, 0], lambda: R[:, 0]), ('row_of_empty', lambda: D[0, :], lambda: R[0, :])]
        return obs
    B = rd.mat(r, c, 20, seed)
    Bc = rd.mat(r, c, 21, seed, True)
    obs = [
        ('todense', lambda: D.todense(), lambda: R),
        ('toarray', lambda: D.toarray(), lambda: R),
        ('shape', lambda: np.array(D.shape), lambda: np.array(R.shape)),
        ('iscomplex', lambda: np.array(bool(D.iscomplex())), lambda: np.array(bool(np.iscomplexobj(R)))),
    ]
    for k in (-1, 0, 1):
        obs.append((f'diagonal', (lambda k=k: D.diagonal(k)), (lambda k=k: np.diagonal(R, k))))
    obs += [
        ('elem', lambda: D[1, 0], lambda: R[1, 0]),
        ('row', lambda: D[1, :], lambda: R[1, :]),
        ('col', lambda: D[:, 0], lambda: R[:, 0]),
        ('fancy_elem', lambda: D[np.array([0, 1]), np.array([1, 0])], lambda: R[np.array([0, 1]), np.array([1, 0])]),
        ('contract_dense', lambda: D.contract(B), lambda: np.sum(R * B)),
        ('contract_complex', lambda: D.contract(Bc), lambda: np.sum(R * Bc)),
        ('contract_sparse', lambda: D.contract(sps.csr_matrix(B)), lambda: np.sum(R * B)),
    ]
    if r == c:
        obs.append(('contract_trace', lambda: D.contract(), lambda: np.trace(R)))
    Bb = np.stack([B, 2 * B + 1, -B])
    obs.append(('contract_batch', lambda: D.contract(Bb), lambda: np.array([np.sum(R * b) for b in Bb])))
    rows1 = np.array([1, 0])
    obs.append(('contract_rows', lambda: D.contract(B[rows1, :], rows1), lambda: np.sum(R[rows1, :] * B[rows1, :])))
    cols1 = np.array([1, 0])
    obs.append(('contract_cols', lambda: D.contract(B[:, cols1], cols=cols1),
                lambda: np.sum(R[:, cols1] * B[:, cols1])))
    rows = np.array([[0, 1], [1, 0]])
    cols = np.array([[0, 1], [1, 1]])
    Bs = rd.mat(2, 4, 22, seed).reshape(2, 2, 2)
    obs.append(('contract_batch_sliced', lambda: D.contract(Bs, rows, cols),
                lambda: np.array([np.sum(R[np.ix_(rows[p], cols[p])] * Bs[p]) for p in range(2)])))
    obs.append(('contract_batch_rows', lambda: D.contract(B[rows1, :], rows),
                lambda: np.array([np.sum(R[rows[p], :] * B[rows1, :]) for p in range(2)])))
    mats = [sps.coo_matrix(B), sps.coo_matrix(2 * B + 1)]
    obs.append(('contract_multi', lambda: D.contract_multi(mats),
                lambda: np.array([np.sum(R * B), np.sum(R * (2 * B + 1))])))
    # None placeholders in the operand list contribute 0 at their own position (the code handles them explicitly)
    mats_n = [sps.coo_matrix(B), None, sps.coo_matrix(2 * B + 1), None, sps.coo_matrix(-B)]
    obs.append(('contract_multi_none', lambda: D.contract_multi(mats_n),
                lambda: np.array([np.sum(R * B), 0.0, np.sum(R * (2 * B + 1)), 0.0, -np.sum(R * B)])))
    # rows / columns selected by BOOLEAN masks (as numpy indexing allows), with and without a matrix
    mr = np.array([(i % 2 == 0) for i in range(r)])
    mc = np.array([(j != 1) for j in range(c)])
    obs.append(('contract_rows_mask', lambda: D.contract(B[mr, :], rows=mr), lambda: np.sum(R[mr, :] * B[mr, :])))
    obs.append(('contract_cols_mask', lambda: D.contract(B[:, mc], cols=mc), lambda: np.sum(R[:, mc] * B[:, mc])))
    obs.append(('contract_both_masks', lambda: D.contract(B[np.ix_(mr, mc)], rows=mr, cols=mc),
                lambda: np.sum(R[np.ix_(mr, mc)] * B[np.ix_(mr, mc)])))
    # element access with a scalar on one axis and a 2-D index array on the other (result has the shape of the array)
    I2 = np.array([[0, r - 1], [r - 1, 1 % r]])
    J2 = np.array([[c - 1, 0, 1 % c], [0, 0, c - 1]])
    obs += [('elem_2d_rows', lambda: D[I2, 0], lambda: R[I2, 0]), ('elem_2d_cols', lambda: D[1, J2], lambda: R[1, J2]),
            ('elem_2d_cols_neg', lambda: D[-1, J2.T], lambda: R[-1, J2.T])]
    # sparse operands WITHOUT stored entries (first, in the middle, last): they contribute 0 at their own position
    empty = sps.coo_matrix((r, c))
    for nm, lst, refl in (('first', [empty, sps.coo_matrix(B)], lambda: [0.0, np.sum(R * B)]),
                          ('middle', [sps.coo_matrix(B), empty, sps.coo_matrix(2 * B + 1)],
                           lambda: [np.sum(R * B), 0.0, np.sum(R * (2 * B + 1))]),
                          ('last', [sps.coo_matrix(B), empty], lambda: [np.sum(R * B), 0.0])):
        obs.append(('contract_multi_empty', (lambda lst=lst: D.contract_multi(lst)), (lambda refl=refl: np.array(refl()))))
    x = rd.vec(c, 23, seed)
    xc = rd.vec(c, 24, seed, True)
    y = rd.vec(r, 25, seed)
    yc = rd.vec(r, 26, seed, True)
    obs += [
        ('dot_real', lambda: D.dot(x), lambda: R @ x), ('dot_complex', lambda: D.dot(xc), lambda: R @ xc),
        ('matvec_real', lambda: D @ x, lambda: R @ x), ('matvec_complex', lambda: D @ xc, lambda: R @ xc),
        ('rmatvec_real', lambda: y @ D, lambda: y @ R), ('rmatvec_complex', lambda: yc @ D, lambda: yc @ R),
        ('add_dense', lambda: D + B, lambda: R + B), ('radd_dense', lambda: B + D, lambda: B + R),
        ('rsub_dense', lambda: B - D, lambda: B - R), ('sub_dense', lambda: D - Bc, lambda: R - Bc),
        ('add_zero_scalar', lambda: (D + 0).todense(), lambda: R + 0),
    ]
    return obs


def to_dense(a):
    if hasattr(a, 'todense') and not isinstance(a, np.ndarray):
        a = a.todense()
    return np.asarray(a)


def judge(a, b, unit=1.0):
    """None if impl value a conforms to reference b, else a short reason; unit = magnitude floor of the comparison"""
    a_ = to_dense(a)
    b = np.asarray(b)
    if a_.dtype.kind == 'b' or b.dtype.kind == 'b':
        return None if (a_.shape == b.shape and bool(np.all(a_ == b))) else 'value'
    if a_.shape != b.shape:
        return f'shape'
    scale = max(unit, float(np.abs(b).max())) if b.size else unit
    if b.size and not np.all(np.abs(a_ - b) <= 1e-9 * scale + 1e-12 * unit):
        return 'value'
    ak, bk = np.iscomplexobj(a_), np.iscomplexobj(b)
    if ak and not bk:
        return 'kind:complex_for_real'
    if bk and not ak and b.size and np.abs(b.imag).max() > 0:
        return 'kind:real_for_complex'     # cannot happen together with a correct value, kept for completeness
    return None


def carrier_kind(D):
    if len(D.u) == 0:
        return 'empty'
    return 'complex' if D.iscomplex() else 'real'


def run_path(init, shape, seed, path, observe):
    """Replay on fresh objects. Returns (D, R, ncompared, violation|None, admissible)."""
    D, R = make_init(init, tuple(shape), seed)
    if D is None:
        return None, None, 0, None, False
    unit = UNIT.get(init, 1.0)
    ctx = Ctx(seed)
    alive = [(D, snap_carrier(D))]
    ncmp = 0
    for k, name in enumerate(path):
        if not ref_admissible(name, R, seed):
            return D, R, ncmp, None, False
        kind_before = carrier_kind(D)
        before_id = id(D)
        try:
            D2, R2 = OPS[name](D, R, ctx)
        except Exception as e:  # noqa
            sig = {'check': 'op_raised', 'op': name, 'carrier': kind_before, 'exc': type(e).__name__}
            return D, R, ncmp, {'check': 'op_raised', 'signature': sig,
                                'detail': {'init': init, 'shape': shape, 'path': path, 'step': k,
                                           'error': str(e)[:300]}}, True
        # magnitude floor of the comparison: an operand of order 1 raises it to 1 (rounding of the sum is relative to the
        # larger term), scaling by a constant scales it
        if name.split('_')[0] in ('add', 'radd', 'sub', 'rsub', 'iadd', 'isub') and not name.endswith('_0'):
            unit = max(unit, 1.0)
        unit *= {'lmul_tiny': 1e-9, 'rmul_big': 1e9}.get(name, 1.0)
        ncmp += 1
        why = judge(D2, R2, unit) if hasattr(D2, 'todense') else 'result_not_a_carrier'
        if why is None and tuple(D2.shape) != R2.shape:
            why = 'shape'
        if why:
            sig = {'check': 'op_result', 'op': name, 'carrier': kind_before, 'why': why}
            return D, R, ncmp, {'check': 'op_result', 'signature': sig,
                                'detail': {'init': init, 'shape': shape, 'path': path, 'step': k, 'why': why,
                                           'impl': to_dense(D2), 'ref': R2}}, True
        # operands and earlier carriers untouched (the in-place target is exempt)
        changed = ctx.operands_changed()
        for obj, s in alive:
            if name in INPLACE and obj is D:
                continue
            if snap_carrier(obj) != s:
                changed.append('earlier_carrier')
        ncmp += 1
        if name in INPLACE and D2 is not D:
            changed.append('inplace_returned_new_object')
        if changed:
            sig = {'check': 'operand_changed', 'op': name, 'what': sorted(set(changed))[0]}
            return D, R, ncmp, {'check': 'operand_changed', 'signature': sig,
                                'detail': {'init': init, 'shape': shape, 'path': path, 'step': k,
                                           'changed': sorted(set(changed))}}, True
        if name in INPLACE:
            alive = [(o, (snap_carrier(o) if o is D else s)) for o, s in alive]
        D, R = D2, R2
        if not any(o is D for o, _ in alive):
            alive.append((D, snap_carrier(D)))
    if observe:
        kind_now = carrier_kind(D)
        snap_before_obs = snap_carrier(D)
        found = []
        for oname, fi, fr in observations(D, R, seed):
            try:
                want = fr()
            except Exception:  # noqa
                continue    # observation not defined on the dense side for this shape
            ncmp += 1
            try:
                got = fi()
            except Exception as e:  # noqa
                sig = {'check': 'obs_raised', 'obs': oname, 'carrier': kind_now, 'exc': type(e).__name__}
                found.append({'check': 'obs_raised', 'signature': sig,
                              'detail': {'init': init, 'shape': shape, 'path': path, 'obs': oname,
                                         'error': str(e)[:300]}})
                continue
            if oname == 'iscomplex':
                # a carrier whose value has no imaginary part may be real-typed (zero dyads are dropped by design)
                why = None
                if bool(got) and not bool(want):
                    why = 'kind:complex_for_real'
                elif bool(want) and not bool(got) and (R.size > 0 and np.abs(np.imag(R)).max() > 0):
                    why = 'kind:real_for_complex'
            else:
                why = judge(got, want, unit)
            if why:
                sig = {'check': 'obs_result', 'obs': oname, 'carrier': kind_now, 'why': why}
                found.append({'check': 'obs_result', 'signature': sig,
                              'detail': {'init': init, 'shape': shape, 'path': path, 'obs': oname, 'why': why,
                                         'impl': to_dense(got), 'ref': want}})
        # observations must not change the carrier or the operands
        ncmp += 1
        if snap_carrier(D) != snap_before_obs or ctx.operands_changed():
            sig = {'check': 'observation_changed_carrier'}
            found.append({'check': 'observation_changed_carrier', 'signature': sig,
                          'detail': {'init': init, 'shape': shape, 'path': path}})
        if found:
            return D, R, ncmp, found, True
    return D, R, ncmp, None, True


def execute(case):
    init, shape, seed, depth = case['init'], case['shape'], case['seed'], case['depth']
    ops = OPS_QUICK if case.get('alphabet') == 'quick' else list(OPS)
    prefix = case['prefix']
    V = []

    def addv(vs, path):
        for v in (vs if isinstance(vs, list) else [vs]):
            v['case'] = dict(case, prefix=path, depth=len(path))
            if not any(x['signature'] == v['signature'] for x in V):
                V.append(v)

    D, R, ncmp, v, adm = run_path(init, shape, seed, prefix, True)
    if not adm:
        return {'skipped': 'dense counterpart of the prefix raises (shape/index), or the initial state does not exist for '
                           'this shape'}
    transitions = len(prefix)
    if v:
        addv(v, prefix)
        return {'states': 1, 'transitions': transitions, 'checks': ncmp, 'violations': V, 'outcome': 'viol'}
    seen = {snap_carrier(D)}
    frontier = [prefix]
    nontrivial = 1 if len(D.u) else 0
    kinds = set()
    for d in range(len(prefix), depth):
        nxt = []
        for path in frontier:
            for name in ops:
                p2 = path + [name]
                D, R, n, v, adm = run_path(init, shape, seed, p2, False)
                if not adm:
                    continue
                transitions += 1
                ncmp += n
                if v:
                    addv(v, p2)
                    continue
                k = snap_carrier(D)
                if k in seen:
                    continue
                seen.add(k)
                D, R, n, v, adm = run_path(init, shape, seed, p2, True)
                ncmp += n
                if v:
                    addv(v, p2)
                    continue
                nxt.append(p2)
                nontrivial += 1 if len(D.u) else 0
                kinds.add(f"{carrier_kind(D)}{len(D.u)}{D.shape}")
        frontier = nxt
        if not frontier:
            break
    return {'states': len(seen), 'transitions': transitions, 'traces': transitions, 'checks': ncmp,
            'nontrivial': nontrivial > 0,
            'key': [f"{init}|{shape}|{prefix}|{i}" for i in range(nontrivial)],
            'outcome': sorted(kinds)[:50], 'violations': V}


def bounds(tier, seed):
    return {'inits': INITS, 'shapes': SHAPES, 'ops_full': len(OPS), 'ops_quick': len(OPS_QUICK),
            'levels': ['depth1 full alphabet', 'depth2 quick alphabet'] if tier == 'quick' else
            ['depth2 full', 'depth3 quick alphabet', 'depth3 full', 'depth4 quick alphabet'], 'table': seed % 3}


def generate(tier, seed):
    s = seed % 3
    plan = [(1, 'full'), (2, 'quick')] if tier == 'quick' else [(2, 'full'), (3, 'quick'), (3, 'full'), (4, 'quick')]
    for depth, alpha in plan:
        yield {'__level__': f'depth{depth}/{alpha}'}
        ops = OPS_QUICK if alpha == 'quick' else list(OPS)
        for shape in SHAPES:
            for init in INITS:
                if depth == 1:
                    yield {'init': init, 'shape': list(shape), 'seed': s, 'depth': 1, 'prefix': [], 'alphabet': alpha}
                elif depth <= 3:
                    for o in ops:
                        yield {'init': init, 'shape': list(shape), 'seed': s, 'depth': depth, 'prefix': [o],
                               'alphabet': alpha}
                else:
                    for o1 in ops:
                        for o2 in ops:
                            yield {'init': init, 'shape': list(shape), 'seed': s, 'depth': depth, 'prefix': [o1, o2],
                                   'alphabet': alpha}
