"""C01 -- every module's sensitivity is the exact adjoint of its response (E1 lattice over pmc.modspecs)."""
import traceback
import numpy as np
import scipy.sparse as sps
from pmc import modspecs as ms
from pmc.engine import values as val
from pmc.engine.tol import q as quant

PROPERTY = 'C01'
RULE = ("lattice of module instances (pmc/modspecs.py: constructor options x grids x matrix classes x storage x shapes x "
        "real/complex); per instance the schedule response; for every seed (seed; sensitivity; read; reset) on the SAME "
        "object; seeds = every basis seed of every output one output at a time (others None; imaginary unit for complex "
        "outputs; capped at 40-48 entries per output, first and last half), one generic seed on all outputs, dyadic "
        "seeds for matrix outputs; directions = every class-preserving basis direction of every input (real and imaginary); "
        "oracle Re sum(g*v) == d/dt Re sum(w*y(x+tv)): exact difference for linear modules (ALG), Richardson-extrapolated "
        "central differences with a convergence test otherwise (DERIV). Non-trivial = at least one non-zero Jacobian entry; "
        "distinct by descriptor")
RULE += " Extended in seeding rounds 6-7:  seeds that copy an input state, dyadic seeds (no dyads / two dyads) on sparse outputs, complex-typed loads holding real values, matrix-shaped aggregation inputs."
RULE += " Round 8: complex matrix with an uncoupled dof and a non-real diagonal entry."
ASSUMPTIONS = ["numerical derivatives: Richardson (4D(h/2)-D(h))/3 accepted only if two step sizes agree to 1e-6*scale, "
               "independent of the analytic value; unconverged points are inconclusive, never violations",
               "matrix inputs are perturbed only inside the class the module detected or was told (symmetric pairs, "
               "Hermitian pairs, sparsity pattern)",
               "Aggregation scaling and Scaling's first-value normalisation are frozen at the base response (by design "
               "not differentiated)",
               "configurations with an iterative solver are compared with the same module using the direct solver",
               "pymoto.core_objects.get_init_str (diagnostic only) replaced by a constant"]


def sig_extras(desc):
    fam = desc['fam']
    ex = {}
    if fam == 'OverhangFilter':
        g = desc['grid']
        ax = int(np.argmax(np.abs(desc['direction'])))
        n = [g[0], g[1], max(g[2], 1)][ax]
        ex['layers'] = 'single' if n == 1 else 'multi'
    if fam == 'LinSolve':
        ex['storage'] = 'sparse' if desc.get('storage', 'dense') != 'dense' else 'dense'
        ex['solver'] = desc.get('solver', 'auto')
    if fam in ('EinSum',):
        ex['mixed'] = len(set(desc['kinds'])) > 1
    if fam == 'ConcatSignal' or fam == 'MathGeneral' or fam in ('MakeComplex', 'RealPart', 'ImagPart', 'ComplexNorm',
                                                                  'Scaling'):
        shp = desc.get('shapes', [desc.get('shape')])
        ex['pyscalar'] = 'py' in shp
    if fam in ('SystemOfEquations', 'StaticCondensation', 'Inverse', 'EigenSolve'):
        ex['cls'] = desc.get('cls')
    return ex


def flat_out(states):
    return [ms.dense(s).ravel() if s is not None else np.zeros(0, complex) for s in states]


def admissible(desc, spec, seed):
    """reference-side margins (DESIGN 3.1); returns None or a reason"""
    fam = desc['fam']
    if fam == 'MathGeneral':
        try:
            import sympy  # noqa
        except ImportError:
            return 'sympy not installed (setup.sh could not install it): MathGeneral sub-lattice not explored'
    if fam in ('PNorm', 'SoftMinMax', 'KSFunction') and desc.get('active', 'none') != 'none':
        x = spec.inputs[0].base
        h = 4 * spec.h
        xs = np.sort(x)
        if np.min(np.diff(xs)) < 4 * h:
            return 'active set: sorted values closer than the difference step'
        if desc['active'] == 'band':
            xr = (x - x.min()) / (x.max() - x.min())
            if np.min(np.abs(xr - 0.2)) < 0.02 or np.min(np.abs(xr - 0.9)) < 0.02:
                return 'active set: value within 0.02 of a band limit'
    if fam == 'EigenSolve':
        A = spec.inputs[0].base
        B = spec.inputs[1].base if len(spec.inputs) > 1 else np.eye(A.shape[0])
        w, V = np.linalg.eig(np.linalg.solve(B, A))
        gaps = np.abs(w[:, None] - w[None, :]) + np.eye(len(w)) * 10
        if gaps.min() < 0.3:
            return 'eigenvalue gap < 0.3'
        for i in range(len(w)):
            v = V[:, i]
            nrm = np.sqrt(v @ B @ v)
            if abs(nrm) < 1e-3:
                return 'isotropic eigenvector'
            v = v / nrm
            if abs(np.real(np.mean(v))) < 0.05:
                return 'eigenvector mean within 0.05 of the sign switch'
    if fam == 'EigenSolveSparse':
        K = np.asarray(spec.inputs[0].base.todense())
        M = np.asarray(spec.inputs[1].base.todense()) if len(spec.inputs) > 1 else np.eye(K.shape[0])
        w, V = np.linalg.eig(np.linalg.solve(M, K))
        order = np.argsort(np.abs(w - desc.get('sigma', 0.0)))
        w, V = np.real(w[order]), np.real(V[:, order])
        k = desc.get('nmodes', 3)
        for i in range(k):
            others = np.delete(w, i)
            if np.min(np.abs(others - w[i])) < 0.02 * abs(w[k]):
                return 'sparse pencil: a requested eigenvalue is not simple enough'
        for i in range(k):
            v = V[:, i] / np.sqrt(V[:, i] @ M @ V[:, i])
            if abs(np.mean(v)) < 0.02 * np.max(np.abs(v)):
                return 'eigenvector mean near the sign switch'
    return None


class Sweep:
    """response; all seeds (analytic); all directions (numeric); comparison"""

    def __init__(self, desc, seed):
        self.desc, self.seed = desc, seed
        self.V = []
        self.nchecks = 0
        self.inconclusive = 0
        self.nonzero = 0
        self.worst = 0.0

    def viol(self, check, detail, **sig):
        s = {'check': check, 'fam': self.desc['fam'], **sig, **sig_extras(self.desc)}
        if not any(v['signature'] == s for v in self.V):
            self.V.append({'check': check, 'signature': s, 'detail': dict(detail, desc=self.desc)})

    def run(self):
        desc = self.desc
        spec = ms.build(desc, self.seed)
        why = admissible(desc, spec, self.seed)
        if why:
            return {'skipped': why}
        try:
            m, sin, sout = spec.make()
        except Exception as e:  # noqa
            if _in_repo(e):
                self.viol('construct_raised', {'error': _tb(e)}, exc=type(e).__name__)
                return self.result()
            raise
        try:
            m.response()
        except Exception as e:  # noqa
            if not _in_repo(e):
                raise
            self.viol('response_raised', {'error': _tb(e)}, exc=type(e).__name__)
            return self.result()
        y0 = [ms.copy_obj(s.state) for s in sout]
        y0f = flat_out(y0)
        seeds = ms.basis_seeds(y0, spec.seed_cap)
        if spec.extra_seeds:
            seeds += spec.extra_seeds(y0)
        # a seed that is a copy of the state of an input of the same shape (the compliance seed of a solver is its load)
        for k_, y_ in enumerate(y0):
            if not isinstance(y_, np.ndarray) or y_.ndim == 0:
                continue
            src = [s_.state for s_ in sin if isinstance(s_.state, np.ndarray) and s_.state.shape == y_.shape
                   and (np.iscomplexobj(y_) or not np.iscomplexobj(s_.state))]
            if src:
                objs, dens = [None] * len(y0), [None] * len(y0)
                objs[k_] = np.array(src[0], copy=True)
                dens[k_] = np.array(src[0], copy=True)
                seeds.append((f'inputstate_out{k_}', objs, dens))
                break
        # sparse-matrix outputs seeded with dyadic sensitivities, as a solver behind them does: a carrier of the right
        # shape holding NO dyads (what the adjoint of an exactly zero solution is) and one holding two dyads
        for k_, y_ in enumerate(y0):
            if sps.issparse(y_) and y_.shape[0] == y_.shape[1]:
                from pymoto import DyadCarrier
                r_ = y_.shape[0]
                objs, dens = [None] * len(y0), [None] * len(y0)
                objs[k_], dens[k_] = DyadCarrier(shape=y_.shape), np.zeros(y_.shape)
                seeds.append((f'dyadzero_out{k_}', objs, dens))
                us = [val.tab(r_, 61, self.seed), val.tab(r_, 62, self.seed)]
                vs = [val.tab(r_, 63, self.seed), val.tab(r_, 64, self.seed)]
                objs, dens = [None] * len(y0), [None] * len(y0)
                objs[k_] = DyadCarrier([u.copy() for u in us], [v.copy() for v in vs])
                dens[k_] = np.outer(us[0], vs[0]) + np.outer(us[1], vs[1])
                seeds.append((f'dyadtwo_out{k_}', objs, dens))
                break
        G = []
        for (label, objs, dens) in seeds:
            for s, o in zip(sout, objs):
                if o is not None:
                    s.sensitivity = ms.copy_obj(o)
            try:
                m.sensitivity()
                G.append([ms.copy_obj(s.sensitivity) for s in sin])
            except Exception as e:  # noqa
                if not _in_repo(e):
                    raise
                G.append(None)
                self.viol('sensitivity_raised', {'seed': label, 'error': _tb(e)}, exc=type(e).__name__,
                          seed=label.split(':')[0] if label.startswith('out') else label)
            try:
                m.reset()
            except Exception as e:  # noqa
                if not _in_repo(e):
                    raise
                self.viol('reset_raised', {'seed': label, 'error': _tb(e)}, exc=type(e).__name__)
                for s in list(sin) + list(sout):
                    s.sensitivity = None
        if spec.iterative:
            self.differential(spec, seeds, G)
            return self.result()
        if spec.freeze:
            spec.freeze(m)
        # numerical side
        for i, inp in enumerate(spec.inputs):
            for (dl, Vd) in inp.dirs:
                try:
                    dY, conv, scale_y = self.derivative(spec, m, sin, sout, i, inp, Vd, y0f)
                except Exception as e:  # noqa
                    if not _in_repo(e):
                        raise
                    self.viol('response_raised_on_perturbed_input', {'input': i, 'direction': dl, 'error': _tb(e)},
                              exc=type(e).__name__, input=i)
                    sin[i].state = inp.fresh()
                    continue
                if not conv:
                    self.inconclusive += len(seeds)
                    continue
                for (label, objs, dens), g in zip(seeds, G):
                    if g is None:
                        continue
                    self.nchecks += 1
                    rhs = 0.0
                    for k, dn in enumerate(dens):
                        if dn is not None:
                            rhs += float(np.real(np.sum(np.asarray(dn).astype(complex).ravel() * dY[k])))
                    try:
                        lhs = ms.Inp.inner(g[i], Vd)
                    except ValueError as e:
                        self.viol('sensitivity_shape', {'seed': label, 'input': i, 'error': str(e)}, input=i)
                        continue
                    scale = max(abs(lhs), abs(rhs), scale_y * max(np.max(np.abs(np.asarray(dn))) for dn in dens
                                                                      if dn is not None))
                    tol = (1e-9 if spec.linear else 1e-5) * scale + 1e-12
                    err = abs(lhs - rhs)
                    if rhs != 0 or lhs != 0:
                        self.nonzero += 1
                    if scale > 0:
                        self.worst = max(self.worst, err / scale)
                    if not err <= tol:
                        ratio = quant(lhs / rhs) if rhs != 0 else ('inf' if lhs != 0 else 'nan')
                        self.viol('adjoint_mismatch',
                                  {'seed': label, 'input': i, 'direction': dl, 'analytic': lhs, 'numeric': rhs,
                                   'tol': tol},
                                  input=i, seedkind=_seedkind(label),
                                  ratio=ratio if ratio in ('0', '2', '-1', '0.5', '-2', 'inf') else 'other')
        # outputs after the sweep equal those before it
        try:
            for s, inp in zip(sin, spec.inputs):
                s.state = inp.fresh()
            m.response()
            yf = flat_out([s.state for s in sout])
            self.nchecks += 1
            for a, b in zip(yf, y0f):
                sc = max(1.0, np.max(np.abs(b))) if b.size else 1.0
                if a.shape != b.shape or (a.size and np.max(np.abs(a - b)) > 1e-9 * sc):
                    self.viol('outputs_changed_after_sweep', {'before': b, 'after': a})
        except Exception as e:  # noqa
            if not _in_repo(e):
                raise
            self.viol('response_raised_after_sweep', {'error': _tb(e)}, exc=type(e).__name__)
        self.second_point(spec, m, sin, sout, seeds)
        return self.result()

    def second_point(self, spec, m, sin, sout, seeds):
        """the same (by now much used) object at a second admissible input: its sensitivities must equal those of a
        fresh object evaluated once at that input (the adjoint property does not depend on what the object did before)"""
        if self.desc['fam'] == 'Scaling' and self.desc.get('mode') == 'objective':
            return      # documented memory: normalises by its first value
        if self.desc.get('scaling', 'none') != 'none':
            return      # the harness froze the aggregation scaling on the used object
        x2 = [inp.perturbed(inp.dirs[len(inp.dirs) // 2][1], 0.05) if inp.dirs else inp.fresh() for inp in spec.inputs]
        label, objs, dens = seeds[[sd[0] for sd in seeds].index('generic_all_outputs')]

        def cycle(mod, si, so):
            for s_, v in zip(si, x2):
                s_.state = ms.copy_obj(v)
            mod.response()
            for s_, o in zip(so, objs):
                s_.sensitivity = ms.copy_obj(o)
            mod.sensitivity()
            g = [ms.dense(s_.sensitivity) for s_ in si]
            y = flat_out([s_.state for s_ in so])
            mod.reset()
            return g, y
        try:
            g_used, y_used = cycle(m, sin, sout)
            m2, sin2, sout2 = spec.make()
            g_new, y_new = cycle(m2, sin2, sout2)
        except Exception as e:  # noqa
            if not _in_repo(e):
                raise
            self.viol('second_point_raised', {'error': _tb(e)}, exc=type(e).__name__)
            return
        for i, (a, b) in enumerate(zip(g_used, g_new)):
            self.nchecks += 1
            if (a is None) != (b is None):
                z = a if a is not None else b
                if np.any(z != 0):
                    self.viol('second_point_sensitivity_differs_from_fresh', {'input': i, 'used': a, 'fresh': b}, input=i)
                continue
            if a is None:
                continue
            sc = max(float(np.max(np.abs(b))) if b.size else 0.0, 1e-300)
            if a.shape != b.shape or (a.size and float(np.max(np.abs(a - b))) > 1e-8 * sc + 1e-12):
                self.viol('second_point_sensitivity_differs_from_fresh',
                          {'input': i, 'used': a, 'fresh': b, 'x2': [ms.dense(v) for v in x2]}, input=i)
        for a, b in zip(y_used, y_new):
            self.nchecks += 1
            sc = max(float(np.max(np.abs(b))) if b.size else 0.0, 1e-300)
            if a.shape != b.shape or (a.size and float(np.max(np.abs(a - b))) > 1e-8 * sc + 1e-12):
                self.viol('second_point_state_differs_from_fresh', {'used': a, 'fresh': b})

    def derivative(self, spec, m, sin, sout, i, inp, Vd, y0f):
        def Y(t):
            sin[i].state = inp.perturbed(Vd, t)
            m.response()
            return flat_out([s.state for s in sout])
        scale_y = max([1e-300] + [float(np.max(np.abs(y))) for y in y0f if y.size])
        if spec.linear:
            y1 = Y(1.0)
            sin[i].state = inp.fresh()
            return [a - b for a, b in zip(y1, y0f)], True, scale_y
        h = spec.h

        def D(hh):
            yp = Y(hh)
            ym = Y(-hh)
            return [(a - b) / (2 * hh) for a, b in zip(yp, ym)]
        d1, d2, d3 = D(h), D(h / 2), D(h / 4)
        sin[i].state = inp.fresh()
        R1 = [(4 * b - a) / 3 for a, b in zip(d1, d2)]
        R2 = [(4 * b - a) / 3 for a, b in zip(d2, d3)]
        sc = max([scale_y * 1e-3] + [float(np.max(np.abs(r))) for r in R2 if r.size])
        diff = max([0.0] + [float(np.max(np.abs(a - b))) for a, b in zip(R1, R2) if a.size])
        conv = bool(diff <= 1e-6 * sc) and all(np.all(np.isfinite(r)) for r in R2)
        return R2, conv, sc

    def differential(self, spec, seeds, G):
        """iterative solver: compare every sensitivity with the same module using the direct solver"""
        d2 = dict(self.desc, solver='auto')
        spec2 = ms.build(d2, self.seed)
        m, sin, sout = spec2.make()
        m.response()
        for (label, objs, dens), g in zip(seeds, G):
            for s, o in zip(sout, objs):
                if o is not None:
                    s.sensitivity = ms.copy_obj(o)
            m.sensitivity()
            g2 = [ms.copy_obj(s.sensitivity) for s in sin]
            m.reset()
            if g is None:
                continue
            for i, (a, b) in enumerate(zip(g, g2)):
                self.nchecks += 1
                A, B = ms.dense(a), ms.dense(b)
                if (A is None) != (B is None):
                    self.viol('differential_noneness', {'seed': label, 'input': i}, input=i)
                    continue
                if A is None:
                    continue
                sc = max(np.max(np.abs(B)), 1e-12)
                self.nonzero += 1
                if A.shape != B.shape or np.max(np.abs(A - B)) > 1e-6 * sc:
                    self.viol('differential_mismatch', {'seed': label, 'input': i, 'iterative': A, 'direct': B},
                              input=i)

    def result(self):
        return {'states': 1, 'transitions': self.nchecks, 'checks': self.nchecks, 'nontrivial': self.nonzero > 0,
                'key': ms_key(self.desc), 'inconclusive': self.inconclusive,
                'outcome': f"{self.desc['fam']}:{'viol' if self.V else 'ok'}", 'violations': self.V,
                'metrics': {'worst_rel_err': self.worst}}


def ms_key(desc):
    import json
    return json.dumps(desc, sort_keys=True, default=str)


def _seedkind(label):
    if label.startswith('out'):
        return 'basis' + label.split(':')[0][3:]
    return label.split('_')[0]


def _in_repo(e):
    from pmc.engine.run import REPO_PKG
    return any(f.filename.startswith(REPO_PKG) for f in traceback.extract_tb(e.__traceback__))


def _tb(e):
    return ''.join(traceback.format_exception(type(e), e, e.__traceback__))[-1500:]


def execute(case):
    return Sweep(case['desc'], case['table']).run()


def bounds(tier, seed):
    n = sum(1 for _ in ms.lattice(tier, seed))
    return {'module_instances': n, 'value_table': seed % 4, 'grids': '<= 2x1 / 1x1x1 (quick), <= 3x2 / 2x2x1 (thorough)',
            'dense_n': '3-4', 'seed_cap_per_output': '40-48'}


def generate(tier, seed):
    for desc in ms.lattice(tier, seed):
        yield {'desc': desc, 'table': seed % 4}
    if tier == 'thorough':
        yield {'__level__': 'second value table'}
        for desc in ms.lattice(tier, seed):
            yield {'desc': desc, 'table': (seed + 1) % 4}
