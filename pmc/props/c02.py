"""C02 -- network back-propagation yields the total derivative of any module graph (E3 program enumerator)."""
import itertools
import numpy as np
from pmc.refs import netad

PROPERTY = 'C02'
RULE = ("program enumeration: every type-correct sequence of k modules from a typed alphabet of 20 module kinds "
        "(user-defined Sq, Lin, Mul, Fan(two outputs), SMul, Diff, Add3 (one sensitivity object for three inputs), slice-consuming SlIn, RevIn, PermIn, slice-writing SlOut, and library "
        "EinSum('i,i->'), ConcatSignal, MakeComplex, ComplexNorm, RealPart, ImagPart), every wiring to any earlier signal (fan-out, diamonds, "
        "the same signal twice), every contiguous grouping into a nested Network, every seed subset of size <= 2 over all "
        "produced signals (sinks and intermediates); schedule response/seed/sensitivity, reset, and the same again. "
        "A case is one program; non-trivial = at least one signal is consumed twice or a slice/nested network is involved; "
        "distinct by program text")
RULE += " Extended in seeding rounds 6-7:  module Add3 handing one sensitivity object to three inputs (alphabet of 20 kinds)."
ASSUMPTIONS = ["local Jacobians of the alphabet modules are exact closed forms (pmc/refs/netad.py)",
               "pymoto.core_objects.get_init_str (diagnostic only) is replaced by a constant to make construction cheap",
               "complex signals: sensitivity g corresponds to the real gradient [Re g; -Im g] (documented convention)"]

SRC_TYPES = ['v3', 'v2']
SRC_TABLES = [
    (np.array([0.7, -1.2, 0.4]), np.array([1.5, 0.3])),
    (np.array([-0.9, 0.6, 1.3]), np.array([0.8, -1.7])),
    (np.array([1.1, 0.5, -0.6]), np.array([-0.4, 1.2])),
]

_cls = {}


def classes():
    if _cls:
        return _cls
    import pymoto as pym
    import pymoto.core_objects as co
    co.get_init_str = lambda: 'pmc'

    class Sq(pym.Module):
        def _response(self, x):
            return x * x + x

        def _sensitivity(self, dy):
            return dy * (2 * self.sig_in[0].state + 1)

    class Lin(pym.Module):
        def _prepare(self, M):
            self.M = M

        def _response(self, x):
            return self.M @ x

        def _sensitivity(self, dy):
            return self.M.T @ dy

    class Mul(pym.Module):
        def _response(self, a, b):
            return a * b

        def _sensitivity(self, dy):
            return dy * self.sig_in[1].state, dy * self.sig_in[0].state

    class Fan(pym.Module):
        def _response(self, x):
            return 2 * x, np.sum(x)

        def _sensitivity(self, d1, d2):
            g = np.zeros_like(self.sig_in[0].state)
            if d1 is not None:
                g = g + 2 * d1
            if d2 is not None:
                g = g + d2
            return g

    class SMul(pym.Module):
        def _response(self, s, x):
            return s * x

        def _sensitivity(self, dy):
            s, x = [sg.state for sg in self.sig_in]
            return np.sum(dy * x), dy * s
    class Diff(pym.Module):
        def _response(self, x):
            return x[0] - x[1]

        def _sensitivity(self, dy):
            g = np.zeros_like(self.sig_in[0].state)
            g[0], g[1] = dy, -dy
            return g
    class Add3(pym.Module):
        def _response(self, a, b, c_):
            return a + b + c_

        def _sensitivity(self, dy):
            return dy, dy, dy      # one array object for all inputs (what additive modules do)
    _cls.update(Sq=Sq, Lin=Lin, Mul=Mul, Fan=Fan, SMul=SMul, Diff=Diff, Add3=Add3, pym=pym)
    return _cls


def build(prog, a0, b0):
    """returns (list of signals by id, list of modules)"""
    c = classes()
    pym = c['pym']
    sigs = [pym.Signal('a', a0.copy()), pym.Signal('b', b0.copy())]
    mods = []
    for name, ins in prog:
        it, ot = netad.SPECS[name]
        si = [sigs[i] for i in ins]
        outs = [pym.Signal(f's{len(sigs) + j}') for j in range(len(ot))]
        if name in ('Sq3', 'Sq2'):
            m = c['Sq'](si, outs)
        elif name == 'L32':
            m = c['Lin'](si, outs, netad.M32)
        elif name == 'L23':
            m = c['Lin'](si, outs, netad.M23)
        elif name in ('Mul3', 'Mul2'):
            m = c['Mul'](si, outs)
        elif name == 'Fan3':
            m = c['Fan'](si, outs)
        elif name == 'Dot3':
            m = pym.EinSum(si, outs, expression='i,i->')
        elif name == 'SlIn':
            m = c['Sq'](si[0][0:2], outs)
        elif name == 'SlOut':
            base = pym.Signal(f's{len(sigs)}', np.zeros(3))
            outs = [base]
            m = c['Sq'](si, base[1:3])
        elif name == 'Diff3':
            m = c['Diff'](si, outs)
        elif name == 'Add3':
            m = c['Add3'](si, outs)
        elif name == 'RevIn':
            m = c['Sq'](si[0][::-1], outs)
        elif name == 'PermIn':
            m = c['Sq'](si[0][np.array([2, 0, 1])], outs)
        elif name == 'Cat':
            m = pym.ConcatSignal(si, outs)
        elif name == 'SMul3':
            m = c['SMul'](si, outs)
        elif name == 'MkC':
            m = pym.MakeComplex(si, outs)
        elif name == 'CNorm':
            m = pym.ComplexNorm(si, outs)
        elif name == 'Re':
            m = pym.RealPart(si, outs)
        elif name == 'Im':
            m = pym.ImagPart(si, outs)
        else:
            raise KeyError(name)
        mods.append(m)
        sigs += outs
    return sigs, mods


def seed_value(t, sid, table):
    n = {'v3': 3, 'v2': 2, 's': 1, 'c2': 2}[t]
    w = np.cos(1.0 + np.arange(n) * (sid + 1) + 0.3 * table)
    if t == 's':
        return float(0.7 + 0.1 * sid), np.array([0.7 + 0.1 * sid])
    if t == 'c2':
        wi = np.sin(0.5 + np.arange(n) * (sid + 2))
        return w + 1j * wi, np.concatenate([w, -wi])
    return w, w


def as_real(state, t):
    s = np.atleast_1d(np.asarray(state))
    if t == 'c2':
        return np.concatenate([s.real, s.imag])
    return s.astype(float) if not np.iscomplexobj(s) else s


def nestings(k):
    out = [None]
    for i in range(k):
        for j in range(i + 1, k + 1):
            if j - i >= 2 or (k <= 2):
                out.append([i, j])
    return out


def run_once(prog, table, seeds, nested, cycles=2):
    """returns list of mismatches (strings) and number of comparisons"""
    c = classes()
    pym = c['pym']
    a0, b0 = SRC_TABLES[table]
    types = list(SRC_TYPES) + [t for n, _ in prog for t in netad.SPECS[n][1]]
    vals, J = netad.evaluate(prog, [a0, b0])
    rseeds = []
    iseeds = []
    for sid in seeds:
        wi, wr = seed_value(types[sid], sid, table)
        iseeds.append((sid, wi))
        rseeds.append((sid, wr))
    g = netad.total_gradient(J, rseeds)
    sigs, mods = build(prog, a0, b0)
    # the same network with the (silent, threshold) timing option of Network, flat or on the inner network: a keyword
    # alternative of the same call, the derivative is the same
    timed = isinstance(nested, (list, tuple)) and len(nested) > 0 and nested[0] == 'timed'
    if timed:
        nested = nested[1] if len(nested) > 1 else None
    tkw = {'print_timing': 1e6} if timed else {}
    if nested is not None:
        i, j = nested
        net = pym.Network(mods[:i] + [pym.Network(mods[i:j], **tkw)] + mods[j:], **tkw)
    else:
        net = pym.Network(mods, **tkw)
    bad = []
    ncmp = 0
    for cyc in range(cycles):
        net.response()
        for s, v, t in zip(sigs, vals, types):
            ncmp += 1
            got = as_real(s.state, t)
            if got.shape != v.shape or not np.all(np.abs(got - v) <= 1e-9 * max(1.0, np.abs(v).max())):
                bad.append(f'state(cycle{cyc})')
                break
        for sid, w in iseeds:
            sigs[sid].sensitivity = w.copy() if isinstance(w, np.ndarray) else w
        net.sensitivity()
        ga, gb = sigs[0].sensitivity, sigs[1].sensitivity
        ncmp += 1
        for gg, n in ((ga, 3), (gb, 2)):
            if gg is not None and np.shape(gg) != (n,):
                bad.append(f'source_sensitivity_shape(cycle{cyc})')
        if not bad:
            got = np.concatenate([np.zeros(3) if ga is None else np.asarray(ga, dtype=float),
                                  np.zeros(2) if gb is None else np.asarray(gb, dtype=float)])
            if not np.all(np.abs(got - g) <= 1e-9 * max(1.0, np.abs(g).max())):
                bad.append(f'total_derivative(cycle{cyc})')
        if bad:
            return bad, ncmp, g
        net.reset()
        ncmp += 1
        for s in sigs[:2]:
            if s.sensitivity is not None and np.any(np.asarray(s.sensitivity) != 0):
                bad.append('source_sensitivity_left_after_reset')
        if bad:
            return bad, ncmp, g
    return bad, ncmp, g


def structure(prog):
    """features for the signature / non-triviality"""
    used = [i for _, ins in prog for i in ins]
    twice_by_one = any(len(set(ins)) < len(ins) for _, ins in prog)
    fanout = len(used) != len(set(used))
    names = {n for n, _ in prog}
    return {'double_use': twice_by_one, 'fanout': fanout, 'slices': bool(names & {'SlIn', 'SlOut'}),
            'complex': bool(names & {'MkC', 'CNorm', 'Re', 'Im'})}


def execute(case):
    prog = [(n, list(i)) for n, i in case['prog']]
    table = case['table']
    a0, b0 = SRC_TABLES[table]
    vals, _ = netad.evaluate(prog, [a0, b0])
    types = list(SRC_TYPES) + [t for n, _ in prog for t in netad.SPECS[n][1]]
    # admissibility: ComplexNorm away from its kink
    k0 = 2
    for (n, ins) in prog:
        if n == 'CNorm':
            z = vals[ins[0]]
            if np.min(np.sqrt(z[:2] ** 2 + z[2:] ** 2)) < 0.2:
                return {'skipped': 'ComplexNorm within 0.2 of its kink'}
        k0 += len(netad.SPECS[n][1])
    produced = list(range(2, len(types)))
    if 'seeds' in case:
        seedsets = [case['seeds']]
        nests = [case['nested']]
    else:
        seedsets = [[s] for s in produced] + [list(c) for c in itertools.combinations(produced, 2)]
        nests = nestings(len(prog))
        nests = nests + [['timed']] + [['timed', n_] for n_ in nests[1:2]]
    V = []
    nexec = 0
    ncmp = 0
    st = structure(prog)
    outcomes = set()
    for ss in seedsets:
        for nested in nests:
            nexec += 1
            try:
                bad, n, g = run_once(prog, table, ss, nested)
            except Exception as e:  # noqa
                import traceback
                tb = traceback.extract_tb(e.__traceback__)
                where = [f for f in tb if '/pymoto/' in f.filename]
                if not where:
                    raise
                bad, n, g = [f'raised:{type(e).__name__}'], 1, None
            ncmp += n
            if g is not None:
                outcomes.add(f"a{'0' if not np.any(g[:3]) else '1'}b{'0' if not np.any(g[3:]) else '1'}")
            if bad:
                sig = {'check': bad[0].split('(')[0], 'double_use': st['double_use'], 'slices': st['slices'],
                       'single_module': prog[0][0] if len(prog) == 1 else 'no'}
                v = {'check': sig['check'], 'signature': sig,
                     'detail': {'prog': prog, 'seeds': ss, 'nested': nested, 'mismatch': bad, 'expected_gradient': g},
                     'case': dict(case, seeds=ss, nested=nested)}
                if not any(x['signature'] == sig for x in V):
                    V.append(v)
    return {'states': nexec, 'transitions': nexec * (2 * len(prog) * 2 + 2), 'checks': ncmp,
            'nontrivial': st['double_use'] or st['fanout'] or st['slices'] or len(prog) >= 2,
            'key': str(prog) + f'|{table}', 'outcome': sorted(outcomes), 'violations': V}


def bounds(tier, seed):
    if tier == 'quick':
        return {'k_full_alphabet': 2, 'k_user_alphabet': 3, 'seed_subset_size': 2, 'tables': [seed % 3]}
    return {'k_full_alphabet': 3, 'k_reduced_alphabet': 4, 'seed_subset_size': 2, 'tables': [seed % 3, (seed + 1) % 3]}


REDUCED4 = ['Sq3', 'L32', 'Mul3', 'Fan3', 'SlOut', 'SMul3']


def generate(tier, seed):
    t = seed % 3
    full = list(netad.SPECS)
    for k in (1, 2):
        yield {'__level__': f'k{k}/full'}
        for prog in netad.programs(k, full, SRC_TYPES):
            yield {'prog': prog, 'table': t}
    yield {'__level__': 'k3/complex-sub-alphabet'}
    for prog in netad.programs(3, netad.COMPLEX_SUB, SRC_TYPES):
        if any(n == 'MkC' for n, _ in prog):
            yield {'prog': prog, 'table': t}
    if tier == 'quick':
        yield {'__level__': 'k3/user-defined'}
        for prog in netad.programs(3, netad.USER_ONLY, SRC_TYPES):
            yield {'prog': prog, 'table': t}
        return
    yield {'__level__': 'k2/full/second-table'}
    for prog in netad.programs(2, full, SRC_TYPES):
        yield {'prog': prog, 'table': (t + 1) % 3}
    yield {'__level__': 'k3/full'}
    for prog in netad.programs(3, full, SRC_TYPES):
        yield {'prog': prog, 'table': t}
    yield {'__level__': 'k4/reduced'}
    for prog in netad.programs(4, REDUCED4, SRC_TYPES):
        yield {'prog': prog, 'table': t}
