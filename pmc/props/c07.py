"""C07 -- the linear-system modules satisfy their defining equations.

E1 lattice explorer over LinSolve, Inverse, SystemOfEquations and StaticCondensation.  Every point of the lattice
(matrix family/pattern x size x storage x right-hand-side shape/dtype x solver override x LDAS on/off x flags, every
free/prescribed partition, every main/free/prescribed partition) is executed on FRESH modules; the oracle is the
defining equation of the module evaluated with dense numpy algebra (pmc.refs.linmod), plus "input signals are
unchanged by response()" and "a second response() on the same inputs gives the same result"."""
import os
import traceback
import numpy as np
import scipy.sparse as sps
from pmc.refs import linmod as lm
from pmc.engine.tol import alg_err, exact_equal, maxabs, mag

PROPERTY = 'C07'
RULE = ("lattice: LinSolve over {18+3 matrix families (general, symmetric indefinite, SPD, negative definite, complex "
        "general, Hermitian PD / indefinite / negative definite, complex symmetric, triangular, bc-decoupled rows and/or "
        "columns, diagonal, pivot-forcing) for n in {1,2,3,5} + every off-diagonal sparsity pattern of a 3x3 matrix in "
        "7 value classes} x storage {dense, csc, csr} x rhs {(n), (n,1), (n,3)} x rhs dtype {real, complex} x solver "
        "{auto, every explicit solver documented for the class} x use_lda_solver {on, off} x flags {None, given}; each "
        "point = response, repeated response, response after a new right-hand side. Inverse over every dense matrix. "
        "SystemOfEquations over EVERY split of n in {3,4,5} dofs into non-empty free/prescribed sets x given as "
        "{free, prescribed, both} x index order {ascending, descending} x rhs {vector, (.,1), (.,3)} x dtype x "
        "{auto, SparseLU, flags given}. StaticCondensation over EVERY (main, free, rest) assignment with main and free "
        "non-empty x index order x {auto, SparseLU}. A point is non-trivial if the matrix couples the dofs the module "
        "separates (not diagonal / A_fp != 0 / A_mf != 0 and A_fm != 0); distinct by the full axis tuple")
RULE += " Extended in seeding rounds 6-7:  SystemOfEquations after a rejected first call, a second load case with the first pair (x, b) held by reference; LinSolve fed its own previous solution object."
RULE += " Round 7 (late): scipy sparse array containers through LinSolve / SystemOfEquations / StaticCondensation; CG override for StaticCondensation."
ASSUMPTIONS = [
    "numpy dense algebra (matmul, linalg.solve, svd) is the trusted kernel of the reference",
    "matrices are admissible if the reference condition number (of A, of A_ff, of the main+free block) is <= 1e4; "
    "others are skipped and counted",
    "real sparse matrix with complex right-hand side is documented non-support (TypeError) -> skipped, also through "
    "SystemOfEquations",
    "explicit solvers are only applied to the matrix class and storage they document (Cholesky/LDL: Hermitian or "
    "symmetric dense, Cholesky on a non-positive-definite Hermitian matrix uses its documented LDL fall-back; CG: "
    "Hermitian positive definite sparse; dense solvers on dense, sparse solvers on sparse storage)",
    "SystemOfEquations / StaticCondensation are judged on scipy sparse *matrix* input (csc_matrix/csr_matrix) and "
    "numpy index arrays; dense matrices and python index lists raise today and are not clearly promised -> "
    "observed_only",
    "iterative solver (CG) answers are judged by relative residual <= 2*tol with tol the tolerance of the outermost "
    "solver object (CG 1e-7, LDAS wrapper 5*1e-7 as set by LinSolve); direct answers by ALG",
    "'the solver override is used' is read off a counting subclass of the documented solver class (class-level "
    "counter, so a copied instance still counts)",
]

COND_MAX = 1e4
CG_TOL = 1e-7
SIZES_LS = [1, 2, 3, 5]
SIZES_PART = [3, 4, 5]
STORAGES = ['dense', 'csc', 'csr']


# ----------------------------------------------------------------------------------------------------------------------
# helpers
# ----------------------------------------------------------------------------------------------------------------------
def store(A, storage):
    if storage == 'dense':
        return np.array(A)
    if storage == 'csc':
        return sps.csc_matrix(A)
    if storage == 'csr':
        return sps.csr_matrix(A)
    if storage == 'csr_array':       # scipy's sparse ARRAY containers (what AssembleGeneral(matrix_type=csr_array) hands on)
        return sps.csr_array(A)
    if storage == 'csc_array':
        return sps.csc_array(A)
    raise KeyError(storage)


def snap(v):
    """everything that 'unchanged' means for a signal state: container type, shape, dtype, exact values"""
    if sps.issparse(v):
        return ('sparse:' + type(v).__name__, tuple(v.shape), str(v.dtype), np.array(v.toarray()))
    a = np.asarray(v)
    return (type(v).__name__, tuple(a.shape), str(a.dtype), np.array(a))


def snap_diff(s0, s1):
    """None if identical, else a short description of the first difference"""
    if s0[0] != s1[0]:
        return f"type {s0[0]} -> {s1[0]}"
    if s0[1] != s1[1]:
        return f"shape {s0[1]} -> {s1[1]}"
    if s0[2] != s1[2]:
        return f"dtype {s0[2]} -> {s1[2]}"
    if not exact_equal(s0[3], s1[3]):
        return "values"
    return None


def as_array(v):
    if sps.issparse(v):
        return np.asarray(v.toarray())
    if hasattr(v, 'todense') and not isinstance(v, np.ndarray):
        return np.asarray(v.todense())
    return np.asarray(v)


def where_raised(exc):
    import pymoto
    pkg = os.path.dirname(os.path.realpath(pymoto.__file__))
    frames = [f for f in traceback.extract_tb(exc.__traceback__) if os.path.realpath(f.filename).startswith(pkg)]
    frames = [f for f in frames if not f.filename.endswith('core_objects.py')] or frames
    if not frames:
        return 'harness'
    f = frames[-1]
    return f"{os.path.basename(f.filename)}:{f.name}"


def matrix_label(cls, A):
    if cls['diagonal']:
        return 'diagonal'
    if lm.onesided_decoupled(A):
        return 'onesided_decoupled'
    if cls['hermitian'] and cls['symmetric']:
        return 'real_symmetric'
    if cls['hermitian']:
        return 'hermitian'
    if cls['symmetric']:
        return 'complex_symmetric'
    return 'general'


def matches(only, **axes):
    if not only:
        return True
    return all(str(only.get(k, v)) == str(v) for k, v in axes.items())


class Acc:
    """collects counts, outcomes and violations of the sub-points of one case"""

    def __init__(self, case):
        self.case = case
        self.V = []
        self.points = 0
        self.trans = 0
        self.checks = 0
        self.outcomes = set()
        self.keys = []
        self.nontrivial = 0
        self.observed = []
        self.worst = 0.0          # worst err/bound ratio seen on passing ALG checks (diagnostic)
        self.worst_it = 0.0       # same for the iterative-solver residual checks

    def violation(self, check, sig, point, **detail):
        sig = dict(sig, check=check)
        if any(v['signature'] == sig for v in self.V):
            return
        narrowed = {k: v for k, v in self.case.items() if k != 'only'}
        narrowed['only'] = point
        self.V.append({'check': check, 'signature': sig, 'detail': detail, 'case': narrowed})

    def result(self, **extra):
        out = {'states': max(self.points, 1), 'transitions': max(self.trans, 1), 'checks': self.checks,
               'nontrivial': self.nontrivial > 0, 'key': self.keys or None,
               'outcome': sorted(self.outcomes) or ['none'], 'violations': self.V, 'observed_only': self.observed,
               'alg_margin': self.worst, 'solver_margin': self.worst_it}
        out.update(extra)
        return out


def check_alg(acc, err, scale, factor=1.0):
    """ALG: err <= 1e-9*scale + 1e-12"""
    acc.checks += 1
    bound = factor * (1e-9 * scale + 1e-12)
    ok = bool(err <= bound)
    if ok and bound > 0:
        acc.worst = max(acc.worst, err / bound)
    return ok, bound


# ----------------------------------------------------------------------------------------------------------------------
# solver overrides
# ----------------------------------------------------------------------------------------------------------------------
def solver_names(cls, storage):
    """every explicit solver that documents support for this class and storage ('auto' = no override)"""
    names = ['auto']
    if storage == 'dense':
        names += ['lu', 'qr']
        if cls['hermitian']:
            names.append('chol')
        if cls['hermitian'] or cls['symmetric']:
            names += ['ldl', 'ldl_flag']
        if cls['diagonal']:
            names.append('diag')
    else:
        names.append('splu')
        if cls['posdef']:
            names += ['cg', 'cg_sor']
        if cls['diagonal']:
            names.append('diag')
    return names


def make_solver(name, cls):
    """(instance of a counting subclass of the documented solver, counter dict) or (None, None) for 'auto'"""
    if name == 'auto':
        return None, None
    import pymoto.solvers as ps
    counter = {'update': 0, 'solve': 0}
    base, kw = {
        'lu': (ps.SolverDenseLU, {}), 'qr': (ps.SolverDenseQR, {}), 'chol': (ps.SolverDenseCholesky, {}),
        'ldl': (ps.SolverDenseLDL, {}), 'ldl_flag': (ps.SolverDenseLDL, {'hermitian': cls['hermitian']}),
        'diag': (ps.SolverDiagonal, {}), 'splu': (ps.SolverSparseLU, {}),
        'cg': (ps.CG, {}), 'cg_sor': (ps.CG, {}),
    }[name]
    if name == 'cg_sor':
        kw = {'preconditioner': ps.SOR(w=1.2)}

    class Counting(base):
        def update(self, A):
            counter['update'] += 1
            return super().update(A)

        def solve(self, rhs, x0=None, trans='N'):
            counter['solve'] += 1
            return super().solve(rhs, x0=x0, trans=trans)
    Counting.__name__ = base.__name__
    Counting.__qualname__ = base.__qualname__
    return Counting(**kw), counter


def used_solver(linsolve_module):
    """name of the innermost solver object a LinSolve module ended up with (outcome tag only, never judged)"""
    try:
        sv = linsolve_module.solver
        wrapped = type(sv).__name__ == 'LDAWrapper'
        if wrapped:
            sv = sv.solver
        name = type(sv).__name__.replace('Solver', '')
        if getattr(sv, 'success', None) is False:
            name += '>LDL'
        return ('LDAS+' if wrapped else '') + name
    except Exception:  # noqa
        return 'unknown'


def iterative(name):
    return name in ('cg', 'cg_sor')


def flag_kwargs(flags, cls):
    if flags == 'given':
        return {'hermitian': cls['hermitian'], 'symmetric': cls['symmetric']}
    if flags == 'sym_only':       # one (truthful) flag alone; the other one is left to be detected
        return {'symmetric': cls['symmetric']}
    if flags == 'herm_only':
        return {'hermitian': cls['hermitian']}
    return {}


# ----------------------------------------------------------------------------------------------------------------------
# LinSolve
# ----------------------------------------------------------------------------------------------------------------------
def judge_solution(acc, A, x, b, solver, lda):
    """(ok, detail) for the statement A x = b under the tolerance class of the configuration"""
    if iterative(solver):
        acc.checks += 1
        res = lm.rel_residual(A, x, b)
        tol = 2 * (5 * CG_TOL if lda else CG_TOL)
        if res <= tol:
            acc.worst_it = max(acc.worst_it, res / tol)
        return bool(res <= tol), {'rel_residual': res, 'tol': tol}
    err, scale = lm.product_err(A, x, b)
    ok, bound = check_alg(acc, err, scale)
    return ok, {'err': err, 'bound': bound}


def colscale(shape, rscale):
    if shape == 'blk' and rscale != 1.0:
        v = np.ones(lm.BLOCK_COLUMNS)
        v[1] = rscale
        return v
    return rscale


def exec_linsolve(case):
    import pymoto as pym
    acc = Acc(case)
    n, t, storage = case['n'], case['table'], case['storage']
    cplx_rhs = case['rdt'] == 'c'
    A = lm.matrix(case['mat'], n, t)
    cls = lm.classify(A)
    if not cls['cond'] <= COND_MAX:
        return {'skipped': 'matrix condition number > 1e4'}
    doc_unsupported = storage != 'dense' and not cls['complex'] and cplx_rhs
    label = matrix_label(cls, A)
    only = case.get('only')
    nontrivial_matrix = not cls['diagonal']

    axes = case.get('axes', {})
    for shape, rscale in [(sh, rs) for sh in axes.get('shape', lm.RHS_SHAPES) for rs in axes.get('rscale', [1.0])]:
        # rscale: magnitude of the right-hand side (a linear system is solved as well for loads of order 1e-9)
        # a block gets ONE small column next to columns of order 1 (load cases in different units); vectors and single
        # columns are scaled as a whole
        cs = colscale(shape, rscale)
        b = lm.rhs(n, shape, cplx_rhs, t) * cs
        b2 = lm.rhs(n, shape, cplx_rhs, t, off=467) * cs
        for solver in solver_names(cls, storage):
            for lda in axes.get('lda', [True, False]):
                for flags in axes.get('flags', ['none', 'given']):
                    point = {'shape': shape, 'solver': solver, 'lda': lda, 'flags': flags, 'rscale': rscale}
                    if not matches(only, **point):
                        continue
                    sig = {'module': 'LinSolve', 'solver': solver, 'lda': lda, 'matrix': label}
                    if rscale != 1.0:
                        sig['rhs_magnitude'] = f'{rscale:g}'
                    inst, counter = make_solver(solver, cls)
                    kw = flag_kwargs(flags, cls)
                    if inst is not None:
                        kw['solver'] = inst
                    sA = pym.Signal('A', store(A, storage))
                    sb = pym.Signal('b', b.copy())
                    m = pym.LinSolve([sA, sb], **kw)
                    if not lda:
                        m.use_lda_solver = False
                    if doc_unsupported:
                        # documented non-support: observe what happens on the simplest point, never judge
                        try:
                            m.response()
                            tag = 'no error'
                        except Exception as e:  # noqa
                            tag = type(e).__name__
                        return {'skipped': 'documented non-support: real sparse matrix with complex right-hand side',
                                'outcome': f'real-sparse/complex-rhs: {tag}'}
                    acc.points += 1
                    acc.keys.append(f"ls|{case['mat']}|{n}|{t}|{storage}|{case['rdt']}|{shape}|{solver}|{lda}|{flags}"
                                    f"|{rscale:g}")
                    acc.nontrivial += nontrivial_matrix
                    run_linsolve_point(acc, m, sA, sb, A, b, b2, cls, sig, point, solver, lda, counter)
    return acc.result()


def run_linsolve_point(acc, m, sA, sb, A, b, b2, cls, sig, point, solver, lda, counter):
    rhs_now = b
    x_first = None
    for step in ('first', 'repeat', 'new_rhs', 'feedback', 'new_shape'):
        if step == 'new_rhs':
            sb.state = b2.copy()
            rhs_now = b2
        if step == 'feedback':
            # the previous solution is fed back as the next right-hand side (inverse iteration, time stepping): the very
            # object the module returned becomes its input
            prev = m.sig_out[0].state
            rhs_now = np.array(prev, copy=True)
            if not np.all(np.isfinite(rhs_now)) or maxabs(rhs_now) == 0:
                continue
            sb.state = prev
        if step == 'new_shape':
            # the same module is handed a right-hand side of another shape (one more load case / a single vector)
            rs_ = point.get('rscale', 1.0)
            n_ = A.shape[0]
            cplx_ = np.iscomplexobj(b)
            b3 = lm.rhs(n_, 'vec' if b.ndim == 2 and b.shape[1] > 1 else 'blk', cplx_, 0, off=211) * rs_
            sb.state = b3.copy()
            rhs_now = b3
        sA0, sb0 = snap(sA.state), snap(sb.state)
        try:
            acc.trans += 1
            m.response()
        except Exception as e:  # noqa
            acc.checks += 1
            acc.violation('raised', dict(sig, step=step, exc=type(e).__name__, where=where_raised(e)), point,
                          error=str(e)[:300], matrix=A, rhs=rhs_now)
            acc.outcomes.add(f'raised@{step}')
            return
        x = np.asarray(m.sig_out[0].state)
        acc.checks += 1
        if x.shape != rhs_now.shape:
            acc.violation('linsolve_shape', dict(sig, step=step), point, got=list(x.shape), want=list(rhs_now.shape))
            acc.outcomes.add('shape')
            return
        rs = colscale(point['shape'], point.get('rscale', 1.0)) if rhs_now.ndim == 2 and rhs_now.shape[1] == lm.BLOCK_COLUMNS \
            else point.get('rscale', 1.0)      # judged in units of each right-hand side's magnitude
        ok, det = judge_solution(acc, A, x / rs, rhs_now / rs, solver, lda)
        if not ok:
            mg = mag(det.get('err', det.get('rel_residual', 0)) / max(maxabs(rhs_now), 1e-300))
            acc.violation('linsolve_residual', dict(sig, step=step), point, matrix=A, rhs=rhs_now, x=x,
                          x_ref=np.linalg.solve(A, rhs_now), relative_error=mg, **det)
            acc.outcomes.add(f'residual@{step}')
            return
        for nm, s0, s in (('A', sA0, sA), ('b', sb0, sb)):
            acc.checks += 1
            d = snap_diff(s0, snap(s.state))
            if d is not None:
                acc.violation('input_changed', {'module': 'LinSolve', 'input': nm, 'solver': solver}, point, change=d,
                              step=step)
                acc.outcomes.add('input_changed')
                return
        if step == 'first':
            x_first = x.copy()
            if counter is not None:
                acc.checks += 1
                if counter['update'] == 0:
                    acc.violation('override_not_used', {'module': 'LinSolve'}, point, solver=solver, lda=lda,
                                  counter=dict(counter), solver_in_module=type(m.solver).__name__)
                    acc.outcomes.add('override_not_used')
                    return
        if step == 'repeat' and not iterative(solver):
            err, _ = alg_err(x / rs, x_first / rs)
            ok, bound = check_alg(acc, err, maxabs(x_first / rs) * max(1.0, cls['cond']))
            if not ok:
                acc.violation('repeat_differs', dict(sig), point, first=x_first, second=x, err=err, bound=bound)
                acc.outcomes.add('repeat_differs')
                return
    acc.outcomes.add(f"ok/{used_solver(m)}/{'c' if np.iscomplexobj(x) else 'r'}")


# ----------------------------------------------------------------------------------------------------------------------
# Inverse
# ----------------------------------------------------------------------------------------------------------------------
def exec_inverse(case):
    import pymoto as pym
    acc = Acc(case)
    n, t = case['n'], case['table']
    A = lm.matrix(case['mat'], n, t)
    cls = lm.classify(A)
    if not cls['cond'] <= COND_MAX:
        return {'skipped': 'matrix condition number > 1e4'}
    label = matrix_label(cls, A)
    sig = {'module': 'Inverse', 'matrix': label}
    point = {}
    sA = pym.Signal('A', np.array(A))
    m = pym.Inverse(sA)
    acc.points = 1
    acc.keys.append(f"inv|{case['mat']}|{n}|{t}")
    acc.nontrivial = int(not cls['diagonal'])
    eye = np.eye(n)
    B_first = None
    for step in ('first', 'repeat'):
        s0 = snap(sA.state)
        try:
            acc.trans += 1
            m.response()
        except Exception as e:  # noqa
            acc.checks += 1
            acc.violation('raised', dict(sig, step=step, exc=type(e).__name__, where=where_raised(e)), point,
                          error=str(e)[:300], matrix=A)
            acc.outcomes.add('raised')
            return acc.result()
        B = np.asarray(m.sig_out[0].state)
        acc.checks += 1
        if B.shape != (n, n):
            acc.violation('inverse_shape', dict(sig), point, got=list(B.shape))
            return acc.result()
        for side, (P, Q) in (('A B', (A, B)), ('B A', (B, A))):
            err, scale = lm.product_err(P, Q, eye)
            ok, bound = check_alg(acc, err, scale * max(1.0, cls['cond']) ** 0.5)
            if not ok:
                acc.violation('inverse_identity', dict(sig, side=side, step=step), point, matrix=A, B=B, err=err,
                              bound=bound, B_ref=np.linalg.solve(A, eye))
                acc.outcomes.add('identity')
                return acc.result()
        acc.checks += 1
        d = snap_diff(s0, snap(sA.state))
        if d is not None:
            acc.violation('input_changed', {'module': 'Inverse', 'input': 'A'}, point, change=d)
            return acc.result()
        if step == 'first':
            B_first = B.copy()
        else:
            err, _ = alg_err(B, B_first)
            ok, bound = check_alg(acc, err, maxabs(B_first) * max(1.0, cls['cond']))
            if not ok:
                acc.violation('repeat_differs', dict(sig), point, err=err, bound=bound)
                return acc.result()
    acc.outcomes.add(f"ok/{'c' if np.iscomplexobj(B) else 'r'}")
    return acc.result()


# ----------------------------------------------------------------------------------------------------------------------
# SystemOfEquations
# ----------------------------------------------------------------------------------------------------------------------
SOE_GIVEN = ['free', 'prescribed', 'both']
SOE_KW = ['auto', 'splu', 'flags']
ORDERS = ['asc', 'desc', 'rot']


def ordered(idx, order):
    idx = sorted(idx)
    if order == 'rot':     # neither ascending nor descending (for three or more indices)
        idx = idx[1:] + idx[:1]
    return np.array(idx[::-1] if order == 'desc' else idx, dtype=int)


def part_kwargs(kwname, Asub_cls):
    """LinSolve keyword arguments handed through the partitioned modules (they apply to the free block)"""
    if kwname == 'auto':
        return {}, None
    if kwname == 'splu':
        inst, counter = make_solver('splu', Asub_cls)
        return {'solver': inst}, counter
    if kwname == 'flags':
        return {'hermitian': Asub_cls['hermitian'], 'symmetric': Asub_cls['symmetric']}, None
    if kwname == 'cg':       # an iterative solver for a positive definite free block (tight tolerance; judged with factor 1e3)
        if not Asub_cls['posdef']:
            return None, None
        import pymoto.solvers as ps
        return {'solver': ps.CG(tol=1e-12)}, None
    raise KeyError(kwname)


SOE_PRELUDES = ['none', 'bigger', 'smaller']


def exec_soe(case):
    import pymoto as pym
    acc = Acc(case)
    n, t, storage = case['n'], case['table'], case['storage']
    cplx = case['dt'] == 'c'
    A = lm.matrix(case['mat'], n, t)
    f_set, p_set = sorted(case['free']), sorted(set(range(n)) - set(case['free']))
    Aff = lm.sub(A, f_set, f_set)
    cls_ff = lm.classify(Aff)
    if not lm.cond(A) <= COND_MAX or not cls_ff['cond'] <= COND_MAX:
        return {'skipped': 'condition number of A or of the free block > 1e4'}
    symlabel = lm.symmetry_label(A)
    only = case.get('only')

    if storage == 'dense' or case.get('index_lists'):
        # not clearly promised by the statement (DESIGN section 5): observed, never judged
        what = 'dense A' if storage == 'dense' else 'python index lists'
        f_idx = ordered(f_set, 'asc')
        sA = pym.Signal('A', store(A, storage if storage == 'dense' else 'csc'))
        sbf = pym.Signal('bf', lm.rhs(len(f_set), 'vec', cplx and bool(np.iscomplexobj(A)), t))
        sxp = pym.Signal('xp', lm.rhs(len(p_set), 'vec', cplx and bool(np.iscomplexobj(A)), t, off=433))
        try:
            if storage == 'dense':
                m = pym.SystemOfEquations([sA, sbf, sxp], free=f_idx)
            else:
                m = pym.SystemOfEquations([sA, sbf, sxp], free=list(f_set), prescribed=list(p_set))
            m.response()
            x, bb = [np.asarray(s.state) for s in m.sig_out]
            e1, s1 = lm.product_err(A, x, bb)
            tag = 'satisfies A x = b' if e1 <= 1e-9 * s1 + 1e-12 else 'wrong result'
        except Exception as e:  # noqa
            tag = f'raises {type(e).__name__}'
        acc.points = 1
        acc.trans = 1
        acc.observed.append(f'SystemOfEquations with {what}: {tag}')
        acc.outcomes.add(f'observed_only/{what}: {tag}')
        return acc.result(nontrivial=False)

    doc_unsupported = not np.iscomplexobj(A) and cplx
    coupled = bool(np.any(lm.sub(A, f_set, p_set) != 0) or np.any(lm.sub(A, p_set, f_set) != 0))

    axes = case.get('axes', {})
    for given in axes.get('given', SOE_GIVEN):
        for order in axes.get('order', ORDERS):
            if order == 'desc' and len(f_set) < 2 and len(p_set) < 2:
                continue
            if order == 'rot' and len(f_set) < 3 and len(p_set) < 3:
                continue   # equals asc or desc
            f_idx = ordered(f_set, order)
            # indices that are not handed over are reconstructed by the module as the sorted complement
            p_idx = ordered(p_set, order if given in ('prescribed', 'both') else 'asc')
            if given == 'prescribed':
                f_idx = ordered(f_set, 'asc')
            for shape in axes.get('shape', lm.RHS_SHAPES):
                bf = lm.rhs(len(f_idx), shape, cplx, t)
                xp = lm.rhs(len(p_idx), shape, cplx, t, off=433)
                for kwname, prelude in [(k_, p_) for k_ in axes.get('kw', SOE_KW) for p_ in SOE_PRELUDES]:
                    if prelude != 'none' and (kwname != axes.get('kw', SOE_KW)[0] or order != axes.get('order', ORDERS)[0]):
                        continue
                    point = {'given': given, 'order': order, 'shape': shape, 'kw': kwname, 'prelude': prelude}
                    if not matches(only, **point):
                        continue
                    kw, counter = part_kwargs(kwname, cls_ff)
                    if given in ('free', 'both'):
                        kw['free'] = f_idx.copy()
                    if given in ('prescribed', 'both'):
                        kw['prescribed'] = p_idx.copy()
                    sA = pym.Signal('A', store(A, storage))
                    sbf = pym.Signal('bf', bf.copy())
                    sxp = pym.Signal('xp', xp.copy())
                    m = pym.SystemOfEquations([sA, sbf, sxp], **kw)
                    if doc_unsupported:
                        try:
                            m.response()
                            tag = 'no error'
                        except Exception as e:  # noqa
                            tag = type(e).__name__
                        return {'skipped': 'documented non-support: real sparse matrix with complex right-hand side',
                                'outcome': f'real-sparse/complex-data: {tag}'}
                    if prelude != 'none':
                        # a first response() that is rejected (system matrix of the wrong size), then the valid input
                        nbad = n + 2 if prelude == 'bigger' else max(n - 1, 1)
                        sA.state = store(np.eye(nbad) * 2.0, storage)
                        try:
                            m.response()
                            acc.observed.append(f'SystemOfEquations accepts a {nbad}x{nbad} matrix for {n} dofs')
                            continue
                        except Exception:  # noqa
                            pass
                        sA.state = store(A, storage)
                    acc.points += 1
                    acc.keys.append(f"soe|{case['mat']}|{n}|{t}|{storage}|{case['dt']}|{f_set}|{given}|{order}|{shape}"
                                    f"|{kwname}|{prelude}")
                    acc.nontrivial += coupled
                    run_soe_point(acc, m, (sA, sbf, sxp), A, f_idx, p_idx, bf, xp, symlabel, point, counter, kw,
                                  prelude=prelude)
    return acc.result()


def run_soe_point(acc, m, sigs, A, f_idx, p_idx, bf, xp, symlabel, point, counter, kw, prelude='none'):
    n = A.shape[0]
    names = ('A', 'b_f', 'x_p')
    base = {'module': 'SystemOfEquations'}
    if prelude != 'none':
        base['after'] = 'rejected_call'
        counter = None
    first = None
    changed = None
    for step in ('first', 'repeat'):
        before = [snap(s.state) for s in sigs]
        try:
            acc.trans += 1
            m.response()
        except Exception as e:  # noqa
            if changed is not None:
                # consequence of the input already reported as overwritten: same root cause, one signature
                changed['detail']['second_response'] = f'raises {type(e).__name__}: {str(e)[:120]}'
                acc.outcomes.add('input_changed+second_response_raises')
                return
            acc.checks += 1
            acc.violation('raised', dict(base, step=step, exc=type(e).__name__, where=where_raised(e)), point,
                          error=str(e)[:300], matrix=A, free=f_idx, prescribed=p_idx)
            acc.outcomes.add(f'raised@{step}')
            return
        x, b = [np.asarray(s.state) for s in m.sig_out]
        if changed is not None:
            changed['detail']['second_response'] = 'completes'
            acc.outcomes.add('input_changed')
            return
        want_shape = (n,) + bf.shape[1:]
        acc.checks += 1
        if x.shape != want_shape or b.shape != want_shape:
            acc.violation('soe_shape', dict(base, step=step), point, x=list(x.shape), b=list(b.shape),
                          want=list(want_shape))
            acc.outcomes.add('shape')
            return
        # prescribed values and applied loads are reproduced
        err, _ = alg_err(x[p_idx, ...], xp)
        ok, bound = check_alg(acc, err, maxabs(xp))
        if not ok:
            acc.violation('soe_prescribed_state', dict(base, step=step), point, got=x[p_idx, ...], want=xp,
                          free=f_idx, prescribed=p_idx)
            acc.outcomes.add('x_p')
            return
        err, _ = alg_err(b[f_idx, ...], bf)
        ok, bound = check_alg(acc, err, maxabs(bf))
        if not ok:
            acc.violation('soe_applied_load', dict(base, step=step), point, got=b[f_idx, ...], want=bf,
                          free=f_idx, prescribed=p_idx)
            acc.outcomes.add('b_f')
            return
        # A x = b in full, judged per row block so the signature says which equation fails
        for rows, idx in (('free', f_idx), ('prescribed', p_idx)):
            err, scale = lm.rows_err(A, x, b, idx)
            ok, bound = check_alg(acc, err, scale)
            if not ok:
                xr, br = lm.soe_reference(A, f_idx, p_idx, bf, xp)
                acc.violation('soe_full_system', dict(base, matrix=symlabel, rows=rows), point, matrix_values=A,
                              free=f_idx, prescribed=p_idx, b_f=bf, x_p=xp, x=x, b=b, x_ref=xr, b_ref=br, err=err,
                              bound=bound, step=step)
                acc.outcomes.add(f'full_system/{rows}/{symlabel}')
                return
        if step == 'first' and counter is not None:
            acc.checks += 1
            if counter['update'] == 0:
                acc.violation('override_not_used', dict(base), point, solver='splu', counter=dict(counter))
                return
        for nm, s0, s in zip(names, before, sigs):
            acc.checks += 1
            d = snap_diff(s0, snap(s.state))
            if d is not None:
                acc.violation('input_changed', dict(base, input=nm), point, change=d, free=f_idx, prescribed=p_idx,
                              matrix=A)
                changed = next(v for v in acc.V if v['signature'] == dict(base, input=nm, check='input_changed'))
                break
        if step == 'first':
            first = (x.copy(), b.copy())
        else:
            for nm, got, ref in (('x', x, first[0]), ('b', b, first[1])):
                err, _ = alg_err(got, ref)
                ok, bound = check_alg(acc, err, maxabs(ref) * 1e2)
                if not ok:
                    acc.violation('repeat_differs', dict(base, output=nm), point, err=err, bound=bound)
                    acc.outcomes.add('repeat_differs')
                    return
    # a further load case on the same module: its own equations hold, and the pair (x, b) returned for the previous load
    # case (kept by the caller) is still the solution of the previous load case
    held = [(s_.state, np.array(s_.state, copy=True)) for s_ in m.sig_out]
    bf2, xp2 = 1.7 * bf + 0.3, -0.6 * xp + 0.2
    sigs[1].state, sigs[2].state = bf2.copy(), xp2.copy()
    try:
        acc.trans += 1
        m.response()
    except Exception as e:  # noqa
        acc.checks += 1
        acc.violation('raised', dict(base, step='new_values', exc=type(e).__name__, where=where_raised(e)), point,
                      error=str(e)[:300], matrix=A, free=f_idx, prescribed=p_idx)
        return
    x2, b2 = [np.asarray(s_.state) for s_ in m.sig_out]
    okv = x2.shape == x.shape and b2.shape == b.shape
    if okv:
        e1, _ = alg_err(x2[p_idx, ...], xp2)
        e2, _ = alg_err(b2[f_idx, ...], bf2)
        okv = check_alg(acc, e1, maxabs(xp2))[0] and check_alg(acc, e2, maxabs(bf2))[0]
        for idx in (f_idx, p_idx):
            err, scale = lm.rows_err(A, x2, b2, idx)
            okv = okv and check_alg(acc, err, scale)[0]
    if not okv:
        acc.violation('soe_full_system', dict(base, matrix=symlabel, rows='new_values'), point, matrix_values=A,
                      free=f_idx, prescribed=p_idx, b_f=bf2, x_p=xp2, x=x2, b=b2, step='new_values')
        return
    acc.checks += 1
    for nm, (obj, snap_) in zip(('x', 'b'), held):
        if not exact_equal(np.asarray(obj), snap_):
            acc.violation('earlier_result_changed', dict(base, output=nm), point, held_now=np.asarray(obj),
                          as_returned=snap_, history='response(load case 1), response(load case 2)')
            return
    acc.outcomes.add(f"ok/{symlabel}/{used_solver(getattr(m, 'module_LinSolve', None))}/"
                     f"{'c' if np.iscomplexobj(x) else 'r'}")


# ----------------------------------------------------------------------------------------------------------------------
# StaticCondensation
# ----------------------------------------------------------------------------------------------------------------------
SC_KW = ['auto', 'splu', 'cg']


def exec_sc(case):
    import pymoto as pym
    acc = Acc(case)
    n, t, storage = case['n'], case['table'], case['storage']
    A = lm.matrix(case['mat'], n, t)
    m_set, f_set = sorted(case['main']), sorted(case['free'])
    Aff = lm.sub(A, f_set, f_set)
    cls_ff = lm.classify(Aff)
    if not lm.cond(A) <= COND_MAX or not cls_ff['cond'] <= COND_MAX:
        return {'skipped': 'condition number of A or of the free block > 1e4'}
    symlabel = lm.symmetry_label(A)
    only = case.get('only')
    base = {'module': 'StaticCondensation'}

    if storage == 'dense':
        sA = pym.Signal('A', np.array(A))
        try:
            m = pym.StaticCondensation(sA, main=ordered(m_set, 'asc'), free=ordered(f_set, 'asc'))
            m.response()
            S = as_array(m.sig_out[0].state)
            Sr = lm.schur(A, m_set, f_set)
            tag = 'equals the Schur complement' if S.shape == Sr.shape and np.allclose(S, Sr, rtol=1e-9, atol=1e-12) \
                else 'wrong result'
        except Exception as e:  # noqa
            tag = f'raises {type(e).__name__}'
        acc.points = 1
        acc.trans = 1
        acc.observed.append(f'StaticCondensation with dense A: {tag}')
        acc.outcomes.add(f'observed_only/dense A: {tag}')
        return acc.result(nontrivial=False)

    coupled = bool(np.any(lm.sub(A, m_set, f_set) != 0) and np.any(lm.sub(A, f_set, m_set) != 0))
    mf = m_set + f_set
    cond_mf = lm.cond(lm.sub(A, mf, mf))
    axes = case.get('axes', {})
    for order in axes.get('order', ORDERS):
        if order == 'desc' and len(m_set) < 2 and len(f_set) < 2:
            continue
        if order == 'rot' and len(m_set) < 3 and len(f_set) < 3:
            continue
        m_idx, f_idx = ordered(m_set, order), ordered(f_set, order)
        S_ref = lm.schur(A, m_idx, f_idx)
        scale_S = max(maxabs(lm.sub(A, m_idx, m_idx)),
                      maxabs(np.abs(lm.sub(A, m_idx, f_idx)) @ np.abs(np.linalg.solve(lm.sub(A, f_idx, f_idx),
                                                                                      lm.sub(A, f_idx, m_idx)))))
        for kwname in axes.get('kw', SC_KW):
            point = {'order': order, 'kw': kwname}
            if not matches(only, **point):
                continue
            kw, counter = part_kwargs(kwname, cls_ff)
            if kw is None:
                continue      # solver override not documented for this class of free block
            fac = 1e3 if kwname == 'cg' else 1.0
            sA = pym.Signal('A', store(A, storage))
            mod = pym.StaticCondensation(sA, main=m_idx.copy(), free=f_idx.copy(), **kw)
            acc.points += 1
            acc.keys.append(f"sc|{case['mat']}|{n}|{t}|{storage}|{m_set}|{f_set}|{order}|{kwname}")
            acc.nontrivial += coupled
            first = None
            changed = None
            done = False
            for step in ('first', 'repeat'):
                s0 = snap(sA.state)
                try:
                    acc.trans += 1
                    mod.response()
                except Exception as e:  # noqa
                    if changed is not None:
                        changed['detail']['second_response'] = f'raises {type(e).__name__}: {str(e)[:120]}'
                        acc.outcomes.add('input_changed+second_response_raises')
                    else:
                        acc.checks += 1
                        acc.violation('raised', dict(base, step=step, exc=type(e).__name__, where=where_raised(e)),
                                      point, error=str(e)[:300], matrix=A, main=m_idx, free=f_idx)
                        acc.outcomes.add(f'raised@{step}')
                    done = True
                    break
                if changed is not None:
                    changed['detail']['second_response'] = 'completes'
                    acc.outcomes.add('input_changed')
                    done = True
                    break
                S = as_array(mod.sig_out[0].state)
                acc.checks += 1
                if S.shape != S_ref.shape:
                    acc.violation('sc_shape', dict(base), point, got=list(S.shape), want=list(S_ref.shape))
                    done = True
                    break
                err, _ = alg_err(S, S_ref)
                ok, bound = check_alg(acc, err, scale_S * max(1.0, cls_ff['cond']) ** 0.5, factor=fac)
                if not ok:
                    acc.violation('sc_schur_complement', dict(base, matrix=symlabel), point, matrix_values=A,
                                  main=m_idx, free=f_idx, got=S, want=S_ref, err=err, bound=bound, step=step)
                    acc.outcomes.add(f'schur/{symlabel}')
                    done = True
                    break
                # the condensed system reproduces the main-dof response of the full system
                cond_S = lm.cond(S_ref)
                if cond_mf <= COND_MAX and cond_S <= COND_MAX:
                    for shape in ('vec', 'blk'):
                        bm = lm.rhs(len(m_idx), shape, bool(np.iscomplexobj(A)), t, off=479)
                        xm_full = lm.full_main_response(A, m_idx, f_idx, bm)
                        xm_cond = np.linalg.solve(S, bm)
                        err, _ = alg_err(xm_cond, xm_full)
                        ok, bound = check_alg(acc, err, maxabs(xm_full) * max(1.0, cond_S, cond_mf), factor=fac)
                        if not ok:
                            acc.violation('sc_main_response', dict(base, matrix=symlabel), point, matrix_values=A,
                                          main=m_idx, free=f_idx, load=bm, condensed=xm_cond, full=xm_full, err=err,
                                          bound=bound)
                            acc.outcomes.add(f'main_response/{symlabel}')
                            done = True
                            break
                    if done:
                        break
                else:
                    acc.outcomes.add('main-response part not evaluated (ill-conditioned main+free block)')
                if step == 'first' and counter is not None:
                    acc.checks += 1
                    if counter['update'] == 0:
                        acc.violation('override_not_used', dict(base), point, solver='splu', counter=dict(counter))
                        done = True
                        break
                acc.checks += 1
                d = snap_diff(s0, snap(sA.state))
                if d is not None:
                    acc.violation('input_changed', dict(base, input='A'), point, change=d, main=m_idx, free=f_idx,
                                  matrix=A)
                    changed = next(v for v in acc.V if v['signature'] == dict(base, input='A', check='input_changed'))
                if step == 'first':
                    first = S.copy()
                else:
                    err, _ = alg_err(S, first)
                    ok, bound = check_alg(acc, err, maxabs(first) * 1e2, factor=fac)
                    if not ok:
                        acc.violation('repeat_differs', dict(base), point, err=err, bound=bound)
                        done = True
                        break
            if not done:
                acc.outcomes.add(f"ok/{symlabel}/{used_solver(getattr(mod, 'module_LinSolve', None))}/"
                                 f"{'c' if np.iscomplexobj(S) else 'r'}")
    return acc.result()


# ----------------------------------------------------------------------------------------------------------------------
# module contract
# ----------------------------------------------------------------------------------------------------------------------
def execute(case):
    """Runs the case on a fresh thread.  pyMOTO records inspect.stack() in every Signal/Module constructor, whose cost
    grows with the depth of the calling stack; a new thread starts with an empty stack, which makes a case 2-3 times
    cheaper inside the runner's worker processes and changes nothing in the code under test."""
    import threading
    box = {}

    def target():
        try:
            box['out'] = _execute(case)
        except BaseException as e:  # noqa  (re-raised in the calling thread with its traceback)
            box['exc'] = e
    th = threading.Thread(target=target, daemon=True)
    th.start()
    th.join()
    if 'exc' in box:
        raise box['exc']
    return box['out']


def _execute(case):
    mod = case['mod']
    if mod == 'linsolve':
        return exec_linsolve(case)
    if mod == 'inverse':
        return exec_inverse(case)
    if mod == 'soe':
        return exec_soe(case)
    if mod == 'sc':
        return exec_sc(case)
    raise KeyError(mod)


def family_names(n):
    return [f for f in lm.FAMILIES if n >= lm.MIN_SIZE.get(f, 1)]


def is_complex_name(name):
    if name.startswith('p:'):
        return name[2] in 'ch'            # kinds c, ch, hi, cs
    return name in ('cgen', 'hpd', 'hind', 'hnegdef', 'csym', 'cupper', 'cbcdec', 'cdiag', 'hzd')


QUICK_PART_FAMILIES = ['gen', 'symind', 'spd', 'cgen', 'hpd', 'hind', 'csym', 'lower', 'upper', 'bcdec', 'bcrow',
                       'bccol', 'gperm', 'symzd']
QUICK_N5_FAMILIES = ['gen', 'spd', 'cgen', 'bcrow']
SOE_AXES_QUICK = {'given': SOE_GIVEN, 'order': ['asc'], 'shape': ['vec', 'blk'], 'kw': ['auto']}
SOE_AXES_QUICK_DESC = {'given': SOE_GIVEN, 'order': ['desc', 'rot'], 'shape': ['vec'], 'kw': ['auto']}
LS_AXES_FULL = {'shape': lm.RHS_SHAPES, 'lda': [True, False], 'flags': ['none', 'given', 'sym_only', 'herm_only'],
                'rscale': [1.0, 1e-9]}
LS_AXES_QUICK_PATTERNS = {'shape': lm.RHS_SHAPES, 'lda': [True], 'flags': ['none', 'given', 'sym_only']}
SOE_AXES_QUICK_KW = {'given': ['free'], 'order': ['asc'], 'shape': ['col'], 'kw': ['splu', 'flags']}
SOE_AXES_FULL = {'given': SOE_GIVEN, 'order': ORDERS, 'shape': lm.RHS_SHAPES, 'kw': SOE_KW}
SOE_AXES_PATTERNS = {'given': SOE_GIVEN, 'order': ORDERS, 'shape': ['vec', 'blk'], 'kw': ['auto', 'flags']}
SC_AXES_FULL = {'order': ORDERS, 'kw': SC_KW}


def plan(tier):
    """the bound of a tier as data: which (matrices, sizes, storages, sub-axes) every level enumerates completely"""
    if tier == 'quick':
        return {
            'inverse_sizes': SIZES_LS,
            'linsolve_family_storage': {'1': ['dense', 'csc'], '2': ['dense', 'csc'], '3': STORAGES,
                                        '5': ['dense', 'csc']},
            'linsolve_family_axes': LS_AXES_FULL,
            'linsolve_pattern_storage': ['dense', 'csc'], 'linsolve_pattern_rhs_dtype': 'dtype of the matrix',
            'linsolve_pattern_axes': LS_AXES_QUICK_PATTERNS,
            'soe': [{'n': 3, 'families': 'all', 'storage': ['csc'],
                     'axes': [SOE_AXES_QUICK, SOE_AXES_QUICK_DESC, SOE_AXES_QUICK_KW]},
                    {'n': 4, 'families': QUICK_PART_FAMILIES, 'storage': ['csc'],
                     'axes': [SOE_AXES_QUICK, SOE_AXES_QUICK_DESC]},
                    {'n': 5, 'families': QUICK_N5_FAMILIES, 'storage': ['csr'],
                     'axes': [SOE_AXES_QUICK, SOE_AXES_QUICK_DESC]}],
            'sc': [{'n': 3, 'families': 'all', 'storage': ['csc', 'csr'], 'axes': [SC_AXES_FULL]},
                   {'n': 4, 'families': QUICK_PART_FAMILIES, 'storage': ['csc'], 'axes': [SC_AXES_FULL]},
                   {'n': 5, 'families': QUICK_N5_FAMILIES, 'storage': ['csr'], 'axes': [SC_AXES_FULL]}],
            'patterns_in_partition_modules': False}
    return {
        'inverse_sizes': [1, 2, 3, 4, 5],
        'linsolve_family_storage': {str(n): STORAGES for n in SIZES_LS}, 'linsolve_family_axes': LS_AXES_FULL,
        'linsolve_pattern_storage': STORAGES, 'linsolve_pattern_rhs_dtype': 'real and complex',
        'linsolve_pattern_axes': LS_AXES_FULL,
        'soe': [{'n': 3, 'families': 'all', 'storage': ['csc', 'csr'], 'axes': [SOE_AXES_FULL]},
                {'n': 4, 'families': 'all', 'storage': ['csc'], 'axes': [SOE_AXES_FULL]},
                {'n': 4, 'families': 'all', 'storage': ['csr'], 'axes': [SOE_AXES_QUICK, SOE_AXES_QUICK_DESC]},
                {'n': 5, 'families': 'all', 'storage': ['csc'], 'axes': [SOE_AXES_FULL]},
                {'n': 5, 'families': 'all', 'storage': ['csr'], 'axes': [SOE_AXES_QUICK, SOE_AXES_QUICK_DESC]}],
        'sc': [{'n': 3, 'families': 'all', 'storage': ['csc', 'csr'], 'axes': [SC_AXES_FULL]},
               {'n': 4, 'families': 'all', 'storage': ['csc', 'csr'], 'axes': [SC_AXES_FULL]},
               None,
               {'n': 5, 'families': 'all', 'storage': ['csc', 'csr'], 'axes': [SC_AXES_FULL]},
               None],
        'patterns_in_partition_modules': {'storage': ['csc'], 'soe_axes': SOE_AXES_PATTERNS, 'sc_axes': SC_AXES_FULL}}


def bounds(tier, seed):
    b = {'value_table': seed % lm.NTABLES, 'cond_max': COND_MAX, 'families': lm.FAMILIES,
         'pattern_matrices_n3': len(lm.pattern_names()), 'linsolve_sizes': SIZES_LS,
         'linsolve_solver_axis': 'auto + every explicit solver documented for the class and storage',
         'rhs_shapes': {'vec': '(n)', 'col': '(n,1)', 'blk': '(n,3)'},
         'steps_per_point': ['response', 'repeated response', 'response after a new rhs (LinSolve only)'],
         'partitions': {'soe': 'all 2^n-2 free/prescribed splits', 'sc': 'all 3^n-2^(n+1)+1 (main,free,rest) '
                                                                         'assignments'}}
    b.update(plan(tier))
    return b


def generate(tier, seed):
    t = seed % lm.NTABLES
    pl = plan(tier)
    pats = ['p:' + nm for nm in lm.pattern_names()]

    yield {'__level__': 'inverse'}
    for n in pl['inverse_sizes']:
        for fam in family_names(n):
            yield {'mod': 'inverse', 'mat': fam, 'n': n, 'table': t}
    for nm in pats:
        yield {'mod': 'inverse', 'mat': nm, 'n': 3, 'table': t}

    yield {'__level__': 'linsolve/families'}
    for n in SIZES_LS:
        for fam in family_names(n):
            for storage in pl['linsolve_family_storage'][str(n)]:
                for rdt in 'rc':
                    yield {'mod': 'linsolve', 'mat': fam, 'n': n, 'table': t, 'storage': storage, 'rdt': rdt,
                           'axes': pl['linsolve_family_axes']}

    yield {'__level__': 'linsolve/patterns-n3'}
    for nm in pats:
        for storage in pl['linsolve_pattern_storage']:
            for rdt in 'rc':
                if tier == 'quick' and (rdt == 'c') != is_complex_name(nm):
                    continue
                yield {'mod': 'linsolve', 'mat': nm, 'n': 3, 'table': t, 'storage': storage, 'rdt': rdt,
                       'axes': pl['linsolve_pattern_axes']}

    def soe_cases(mats, n, storages, axes_list):
        for mat in mats:
            for f, p in lm.fp_partitions(n):
                for storage in storages:
                    for dt in 'rc':
                        for axes in axes_list:
                            yield {'mod': 'soe', 'mat': mat, 'n': n, 'table': t, 'storage': storage, 'dt': dt,
                                   'free': f, 'axes': axes}
            # observed only: dense input, python index lists
            f, p = lm.fp_partitions(n)[0]
            yield {'mod': 'soe', 'mat': mat, 'n': n, 'table': t, 'storage': 'dense', 'dt': 'r', 'free': f}
            yield {'mod': 'soe', 'mat': mat, 'n': n, 'table': t, 'storage': 'csc', 'dt': 'r', 'free': f,
                   'index_lists': True}

    def sc_cases(mats, n, storages, axes_list):
        for mat in mats:
            for m, f, p in lm.mfp_partitions(n):
                for storage in storages:
                    for axes in axes_list:
                        yield {'mod': 'sc', 'mat': mat, 'n': n, 'table': t, 'storage': storage, 'main': m, 'free': f,
                               'axes': axes}
            m, f, p = lm.mfp_partitions(n)[0]
            yield {'mod': 'sc', 'mat': mat, 'n': n, 'table': t, 'storage': 'dense', 'main': m, 'free': f}

    for spec_soe, spec_sc in zip(pl['soe'], pl['sc']):
        for kind, spec, fn in (('soe', spec_soe, soe_cases), ('sc', spec_sc, sc_cases)):
            if spec is None:
                continue
            n = spec['n']
            fams = family_names(n) if spec['families'] == 'all' else [f for f in family_names(n)
                                                                      if f in spec['families']]
            yield {'__level__': f"{kind}/n{n}/{'+'.join(spec['storage'])}"}
            yield from fn(fams, n, spec['storage'], spec['axes'])
    # scipy sparse ARRAY containers through all three partition / solve modules
    yield {'__level__': 'sparse-array containers (csr_array, csc_array), n=3'}
    arr_fams = [f for f in family_names(3) if tier != 'quick' or f in QUICK_PART_FAMILIES]
    for fam in arr_fams:
        for storage in ('csr_array', 'csc_array'):
            for rdt in 'rc':
                if (rdt == 'c') != is_complex_name(fam):
                    continue
                yield {'mod': 'linsolve', 'mat': fam, 'n': 3, 'table': t, 'storage': storage, 'rdt': rdt,
                       'axes': LS_AXES_QUICK_PATTERNS}
    yield from [c_ for c_ in soe_cases(arr_fams, 3, ['csr_array', 'csc_array'], [SOE_AXES_QUICK])
                if c_['storage'] not in ('dense', 'csc')]
    yield from [c_ for c_ in sc_cases(arr_fams, 3, ['csr_array', 'csc_array'], [SC_AXES_FULL]) if c_['storage'] != 'dense']
    pp = pl['patterns_in_partition_modules']
    if pp:
        yield {'__level__': 'soe/patterns-n3'}
        yield from soe_cases(pats, 3, pp['storage'], [pp['soe_axes']])
        yield {'__level__': 'sc/patterns-n3'}
        yield from sc_cases(pats, 3, pp['storage'], [pp['sc_axes']])
