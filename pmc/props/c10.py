"""C10 -- MMA iterates respect bounds and move limits, hand consistent convex approximations to the sub-problem
solver, get a KKT point back, write it to the right signals, and converge on convex problems.

E1 lattice explorer over a finite convex problem family x E2 over the run: every iteration of every run of
pymoto.minimize_mma is a checked state.  Observation from outside only: pymoto.common.mma.subsolv is wrapped by
assignment to the module attribute for the duration of one case (arguments + return value), fn_callback reads the
variable signals after every write-back, the harness's own response modules record the design they were evaluated
at.  Expectations come from pmc.refs.mma (never imports pymoto)."""
import io
import itertools
import contextlib
import numpy as np
from pmc.refs import mma as R

PROPERTY = 'C10'
RULE = ("lattice: n x objective {sepquad, coupquad, recip, linear} x constraint set {vol, ball, two, inactive_first} "
        "(m=1,1,2,2) x start {lower, mid, upper, mixed} x variable split {one_array, array_scalar, scalars, two_arrays} "
        "x bounds kind x move kind {scalar, persignal, pervar} x MMA version {1987, 2007} x asymptote setting; one "
        "case = one complete minimize_mma run (maxit 60, tolx 1e-7), every iteration is a state at which all "
        "invariants are evaluated. Family members whose optimum has a free variable with stationary objective "
        "('unbalanced': MMA 2-cycles there and the inner Newton solver keeps running into its cap, seconds per call) "
        "are run on the declared sub-lattice only; any run is cut off after the first sub-problem call that reports "
        "the cap or fails the KKT bound (all iterations up to and including that call are judged). A run "
        "is non-trivial if it has >= 3 iterations and starts farther than 1e-3 (normalised) from the reference "
        "optimum; distinct by the full descriptor")
RULE += " Extended in seeding rounds 6-7:  uniformly small physical scale with the default tolx, lower bounds exactly zero with starts on them, option arrays unchanged by the run; KF-C10-1 inputs listed for the complete thorough lattice (no time budget)."
RULE += " Round 8: the admissible interval of every sub-problem against the method's formula; objective-change tolerance with an objective that vanishes at the start."
ASSUMPTIONS = [
    "value tables are fixed 'generic' numbers (fractional parts of scaled square roots of primes); boxes have lo > 0",
    "reference optimum = SLSQP start + active-set Newton polish, trusted only after the KKT conditions of the "
    "original convex problem are verified to 1e-10 and uniqueness (strict complementarity, PD reduced Hessian) holds",
    "requested accuracy of the sub-problem = the epsimin argument handed to subsolv; a primal-dual method that stops "
    "at relaxed residual <= 0.9*eps with eps in (epsimin, 10*epsimin] has true KKT residual <= 19*epsimin, so the "
    "bound judged is 20*epsimin (the design-stage probe's 10*epsimin is reported as an outcome tag only); in "
    "addition the residual must be <= 20*epsimin_user*sqrt(m+n) for the epsimin=1e-10 given to minimize_mma",
    "the constant of the objective approximation is not handed to subsolv (it does not influence the sub-problem), "
    "so 'reproduces the value' is judged for the constraints and 'reproduces the gradient' for all responses",
    "bound/move vectors are given as numpy arrays (python lists as per-variable vectors are outside the alphabet)",
    "a length-1 array signal coming back as a 0-d value is recorded as observed_only (values are judged, shape not)",
    "convergence is judged in bounded-horizon form: final design within 1e-3 (normalised by xmax-xmin) of the "
    "reference optimum and max constraint <= 1e-6 after at most 60 iterations, and only for 'balanced' optima "
    "(every free variable is held by an active constraint against a non-zero objective gradient): MMA's "
    "approximations are monotone in each variable, so an optimum that is stationary for the objective alone is only "
    "approached up to the smallest asymptote interval (observed 2-cycle, reported as observed_only, never judged)",
    "a run is cut off (cost guard) after the first sub-problem call that hits subsolv's Newton cap, fails the KKT "
    "bound, or needs more than 40000 residual evaluations; all iterations up to that call are judged",
]

MAXIT = 60
TOLX = 1e-7
CONV_TOL = 1e-3
CONV_TOL_DEFAULT_TOLX = 0.05  # with the routine's default tolx (1e-4); largest distance measured on the level: 0.013
DIST = []
GMAX = []
FEAS_TOL_DEFAULT_TOLX = 5e-3  # largest final constraint value measured with the default tolx on the wide-range level: 3.3e-4
FEAS_TOL = 1e-6
KKT_FACTOR = 20.0
EPSIMIN = 1e-10      # handed to minimize_mma explicitly: the accuracy the user requests for the sub-problem
WORK_LIMIT = 40000   # residual evaluations inside one subsolv call (a normal call needs 50-500)


class _Truncate(Exception):
    pass


def _kkt_or_none(arg, ret):
    n, m = arg['alfa'].shape[0], arg['a'].shape[0]
    ok = (ret[0].shape == (n,) and all(ret[t].shape == (m,) for t in (1, 3, 6, 8))
          and all(ret[t].shape == (n,) for t in (4, 5)) and ret[2].size == 1 and ret[7].size == 1
          and arg['P'].shape == arg['Q'].shape == (m + 1, n) and arg['b'].shape == (m,))
    return R.subproblem_kkt(arg, ret) if ok else None


ROT_PAIRS = [(k, R.KINDS[(i + 1) % 3]) for i, k in enumerate(R.KINDS)]
DIAG_PAIRS = [(k, k) for k in R.KINDS]
ALL_PAIRS = list(itertools.product(R.KINDS, R.KINDS))


def _lattice(tier):
    """(levels, main lattice, sub-lattice for 'unbalanced' family members)."""
    if tier == 'quick':
        main = dict(starts={1: ['lower', 'mixed', 'upper'], 2: ['lower', 'mixed', 'upper', 'int'], 3: ['mixed', 'int'],
                            5: ['mixed']},
                    splits=R.SPLITS, asy=['default'], versions=R.VERSIONS,
                    pairs={1: ROT_PAIRS, 2: ROT_PAIRS, 3: ROT_PAIRS + DIAG_PAIRS, 5: ROT_PAIRS})
        sub = dict(starts={n: ['mixed'] for n in (1, 2, 3, 5)}, splits=['one_array'], asy=['default'],
                   versions=R.VERSIONS,
                   pairs={n: [('pervar', 'pervar')] for n in (1, 2, 3, 5)})
        return [('all', [1, 2, 3, 5])], main, sub
    ns = (1, 2, 3, 5, 8)
    main = dict(starts={n: R.STARTS + ['int'] for n in ns}, splits=R.SPLITS, asy=sorted(R.ASY), versions=R.VERSIONS,
                pairs={n: ALL_PAIRS for n in ns})
    sub = dict(starts={n: ['lower', 'mixed'] for n in ns}, splits=R.SPLITS, asy=sorted(R.ASY), versions=R.VERSIONS,
               pairs={n: DIAG_PAIRS for n in ns})
    return [('n<=2', [1, 2]), ('n=3', [3]), ('n=5', [5]), ('n=8', [8])], main, sub


def bounds(tier, seed):
    levels, main, sub = _lattice(tier)
    fmt = lambda d: {k: ({str(n): ['/'.join(p) for p in v] for n, v in d[k].items()} if k == 'pairs' else
                         {str(n): v for n, v in d[k].items()} if k == 'starts' else d[k]) for k in d}
    return {'n': [n for _, ns in levels for n in ns], 'levels': [nm for nm, _ in levels],
            'objectives': R.OBJECTIVES, 'constraints': R.CONSTRAINTS, 'maxit': MAXIT, 'tolx': TOLX,
            'table': seed % R.NTABLES, 'main_lattice (pairs = bounds kind/move kind per n)': fmt(main),
            'sublattice_for_unbalanced_members': fmt(sub)}


def input_id(case):
    return '/'.join(str(case.get(k, '-')) for k in ('n', 'obj', 'cons', 'split', 'bounds', 'move', 'start', 'version', 'asy',
                                                    'table', 'sigkind', 'opts')) + \
        ''.join(f'/{k}={case[k]}' for k in ('tolx', 'callback', 'tolf') if case.get(k))


_UNBAL = {}
SIGKINDS = ['slice', 'keepalloc']
# name -> (a per constraint, a0, c per constraint or None for the default)
# 'minmax*': every constraint value is shifted by +2 (> 0 on the whole box), so the problem is min f0 + a0*z with
# g_i(x) + 2 <= z: the variable z of the sub-problem is strictly positive at every sub-problem solution
OPTS = {'a1_a0_1': (1.0, 1.0, None, 0.0), 'a1_a0_50': (1.0, 50.0, None, 0.0), 'c10': (0.0, 1.0, 10.0, 0.0),
        'minmax_a0_1': (1.0, 1.0, None, 2.0), 'minmax_a0_50': (1.0, 50.0, None, 2.0)}
# (a, a0, c, shift, constraint scale): constraints of magnitude 10-100 with a large price a0 on the shared variable z
# (z starts large and shrinks quickly: the regime in which the step-length rule of the sub-problem solver has to protect z)
OPTS_SCALED = {f'z_a0_{a0:g}_s{sh:g}_g{gs:g}': (1.0, float(a0), None, float(sh) * gs, float(gs))
               for a0 in (50, 200) for sh, gs in ((0.0, 10.0), (0.5, 100.0))}
OPTS.update(OPTS_SCALED)


def _expected_unbalanced(n, obj, cons, table):
    """Generation-time classification only (thins the lattice, never a verdict): in normalised coordinates the
    quadratic/linear members do not depend on the box, 'recip' always has a non-zero objective gradient."""
    if obj == 'recip':
        return False
    key = (n, obj, cons, table)
    if key not in _UNBAL:
        _, _, lo, hi = R.bounds_spec(n, [n], 'scalar', table)
        ref = R.reference_optimum(R.Problem(n, obj, cons, lo, hi, table))
        _UNBAL[key] = bool(ref is None or not ref['balanced'])
    return _UNBAL[key]


def generate(tier, seed):
    table = seed % R.NTABLES
    levels, main, sub = _lattice(tier)
    for name, ns in levels:
        if len(levels) > 1:
            yield {'__level__': name}
        for n in ns:
            for obj, cons in itertools.product(R.OBJECTIVES, R.CONSTRAINTS):
                lat = sub if _expected_unbalanced(n, obj, cons, table) else main
                for split in lat['splits']:
                    if R.split_sizes(n, split) is None:
                        continue
                    for (bk, mk), start, ver, asy in itertools.product(lat['pairs'][n], lat['starts'][n],
                                                                     lat['versions'], lat['asy']):
                        yield {'n': n, 'split': split, 'obj': obj, 'cons': cons, 'bounds': bk, 'move': mk,
                               'start': start, 'version': ver, 'asy': asy, 'table': table}
    # how the single design variable is held (a slice of a longer signal; a signal with preallocated sensitivity) and
    # the sub-problem options a, a0, c (Svanberg's min-max form); the latter change the problem being solved, so only
    # the per-iteration invariants are judged there
    yield {'__level__': 'signal-kinds-and-subproblem-options'}
    for n in ((2, 3) if tier == 'quick' else (1, 2, 3, 5)):
        for obj, cons in itertools.product(R.OBJECTIVES, R.CONSTRAINTS):
            for ver in R.VERSIONS:
                for start in (['mixed'] if tier == 'quick' else ['lower', 'mixed', 'upper']):
                    base = {'n': n, 'split': 'one_array', 'obj': obj, 'cons': cons, 'bounds': 'scalar',
                            'move': 'persignal', 'start': start, 'version': ver, 'asy': 'default', 'table': table}
                    for sk in SIGKINDS:
                        if not (_expected_unbalanced(n, obj, cons, table) and tier == 'quick'):
                            yield dict(base, sigkind=sk)
                    for op in sorted(set(OPTS) - set(OPTS_SCALED)):
                        yield dict(base, opts=op)
    # bound ranges differing by 1e4 between variables, stopping left to the routine's default tolx: the run must still end
    # near the optimum (the stopping rule is in units of each variable's range)
    yield {'__level__': 'wide-range bounds with the default stopping tolerance'}
    for tb, n in itertools.product(range(R.NTABLES), (2, 3, 5) if tier == 'quick' else (2, 3, 5, 8)):
        for obj, cons in itertools.product(R.OBJECTIVES, R.CONSTRAINTS):
            if _expected_unbalanced(n, obj, cons, tb):
                continue
            for start in (('lower', 'mixed', 'upper') if tier == 'quick' else R.STARTS):
                for ver in R.VERSIONS:
                    for mk in (('scalar',) if tier == 'quick' else ('scalar', 'pervar')):
                        yield {'n': n, 'split': 'one_array', 'obj': obj, 'cons': cons, 'bounds': 'wide', 'move': mk,
                               'start': start, 'version': ver, 'asy': 'default', 'table': tb, 'tolx': 'default'}
    # the same problems on a uniformly small physical scale (box about 1e-3 wide) with the default stopping tolerance,
    # and with every lower bound exactly 0 and starts exactly on it
    yield {'__level__': 'small physical scale (default tolx); lower bounds exactly zero'}
    for n in ((2, 3) if tier == 'quick' else (2, 3, 5)):
        for obj, cons in itertools.product(R.OBJECTIVES, R.CONSTRAINTS):
            if _expected_unbalanced(n, obj, cons, table):
                continue
            if obj == 'recip':
                # sum c/x is not normalised: on a box of width 1e-3 its gradient is 1e6 times that of the constraints, far
                # beyond what the default penalty c = 1000 of the MMA formulation is meant for (a modelling matter)
                continue
            for ver in R.VERSIONS:
                for start in ('lower', 'mixed', 'upper'):
                    yield {'n': n, 'split': 'one_array', 'obj': obj, 'cons': cons, 'bounds': 'small', 'move': 'scalar',
                           'start': start, 'version': ver, 'asy': 'default', 'table': table, 'tolx': 'default'}
                if True:
                    for start in ('lower', 'partzero', 'mixed'):
                        yield {'n': n, 'split': 'one_array', 'obj': obj, 'cons': cons, 'bounds': 'zero',
                               'move': 'scalar', 'start': start, 'version': ver, 'asy': 'default', 'table': table}
    # a callback that prescribes one variable by assigning a new state: the sub-problem is built at the design the
    # responses were evaluated at
    yield {'__level__': 'callback prescribing a variable'}
    for n in ((2, 3) if tier == 'quick' else (2, 3, 5)):
        for obj, cons in itertools.product(R.OBJECTIVES, R.CONSTRAINTS):
            for split in ('one_array', 'array_scalar', 'scalars'):
                if R.split_sizes(n, split) is None:
                    continue
                for ver in R.VERSIONS:
                    yield {'n': n, 'split': split, 'obj': obj, 'cons': cons, 'bounds': 'scalar', 'move': 'persignal',
                           'start': 'mixed', 'version': ver, 'asy': 'default', 'table': table, 'callback': 'passive',
                           'maxit': 8}
    # at least as many constraints as variables (m = 3 >= n), starting inside and outside the feasible set
    yield {'__level__': 'as many constraints as variables'}
    for n in (1, 2, 3):
        for obj in R.OBJECTIVES + ['linpos']:
            for start in ('lower', 'mixed', 'upper'):
                for ver in R.VERSIONS:
                    for bk in (('scalar',) if tier == 'quick' else ('scalar', 'pervar')):
                        yield {'n': n, 'split': 'one_array', 'obj': obj, 'cons': 'rec3', 'bounds': bk, 'move': 'scalar',
                               'start': start, 'version': ver, 'asy': 'default', 'table': table}
    # a stopping tolerance on the objective change together with an objective that is exactly zero at the (infeasible)
    # start: the run must not stop there
    yield {'__level__': 'objective-change tolerance with a vanishing objective'}
    for n in (1, 2, 3):
        for ver in R.VERSIONS:
            for start in ('lower', 'mixed'):
                for bk in ('scalar', 'pervar'):
                    yield {'n': n, 'split': 'one_array', 'obj': 'lin0', 'cons': 'rec3', 'bounds': bk, 'move': 'scalar',
                           'start': start, 'version': ver, 'asy': 'default', 'table': table, 'tolf': 1e-6}
    yield {'__level__': 'min-max with scaled constraints (all value tables)'}
    for tb in range(R.NTABLES):
        for n in ((2, 3, 5) if tier == 'quick' else (2, 3, 5, 6, 8)):
            for start in (('mixed', 'mid', 'upper') if tier == 'quick' else R.STARTS):
                for ver in R.VERSIONS:
                    for op in sorted(OPTS_SCALED):
                        yield {'n': n, 'split': 'one_array', 'obj': 'linpos', 'cons': 'rec3', 'bounds': 'scalar',
                               'move': 'persignal', 'start': start, 'version': ver, 'asy': 'default', 'table': tb,
                               'opts': op}


# ------------------------------------------------------------------------------------------------- execution
_REF = {}


def _reference(case, lo, hi):
    key = (case['n'], case['obj'], case['cons'], case['table'], lo.tobytes(), hi.tobytes())
    if key not in _REF:
        if len(_REF) > 4000:
            _REF.clear()
        _REF[key] = R.reference_optimum(R.Problem(case['n'], case['obj'], case['cons'], lo, hi, case['table']))
    return _REF[key]


def _make_module_class():
    import pymoto as pym

    class Resp(pym.Module):
        """One response of the family member, evaluated on the concatenation of all variable signals."""

        def _prepare(self, prob, idx, seen):
            self.prob, self.idx, self.seen = prob, idx, seen

        def _response(self, *xs):
            self.shapes = [np.shape(v) for v in xs]
            self.x = np.concatenate([np.atleast_1d(np.asarray(v, dtype=float)).ravel() for v in xs])
            if self.idx == 0:
                self.seen.append(self.x.copy())
            return self.prob.fun(self.idx, self.x)[0]

        def _sensitivity(self, df):
            g = df * self.prob.fun(self.idx, self.x)[1]
            out, k = [], 0
            for sh in self.shapes:
                cnt = int(np.prod(sh)) if len(sh) else 1
                seg = g[k:k + cnt]
                k += cnt
                out.append(float(seg[0]) if len(sh) == 0 else seg.reshape(sh).copy())
            return out
    return Resp


_RESP = None


def execute(case):
    global _RESP
    import pymoto as pym
    import pymoto.common.mma as mmamod
    if _RESP is None:
        _RESP = _make_module_class()
    n, table = case['n'], case['table']
    sizes = R.split_sizes(n, case['split'])
    if sizes is None:
        return {'skipped': 'split does not exist for this n'}
    cum = R.cumlens(sizes)
    xmin_spec, xmax_spec, lo, hi = R.bounds_spec(n, sizes, case['bounds'], table)
    move_spec, mv = R.move_spec(n, sizes, case['move'], table)
    dx = hi - lo
    prob = R.Problem(n, case['obj'], case['cons'], lo, hi, table)
    m = prob.m
    x0 = R.start_point(n, lo, hi, case['start'], table)
    if case['start'] == 'int' and not (np.all(lo <= 1.0) and np.all(hi >= 1.0)):
        return {'skipped': 'integer start 1 outside the bounds of this table'}
    asyinit, asyincr, asydecr, albefa = R.ASY[case['asy']]

    # fresh pyMOTO objects
    sigs = []
    for i, sz in enumerate(sizes):
        seg = x0[cum[i]:cum[i + 1]]
        if case['start'] == 'int':     # integer-typed design states (python int / integer array) are legitimate inputs
            sigs.append(pym.Signal(f'x{i}', int(seg[0]) if sz == 0 else seg.astype(int)))
        else:
            sigs.append(pym.Signal(f'x{i}', float(seg[0]) if sz == 0 else seg.copy()))
    sigkind, opts = case.get('sigkind'), case.get('opts')
    if sigkind == 'slice':
        basesig = pym.Signal('xb', np.concatenate([[9.0], x0, [7.0, 5.0]]))
        sigs = [basesig[1:n + 1]]
    elif sigkind == 'keepalloc':
        sigs = [pym.Signal('x0', x0.copy(), sensitivity=np.zeros(n))]
    extra = {}
    if opts:
        a_, a0_, c_, shift_ = OPTS[opts][:4]
        prob.shift = shift_
        prob.gscale = OPTS[opts][4] if len(OPTS[opts]) > 4 else 1.0
        extra = {'a': np.full(m, a_), 'a0': a0_}
        if c_ is not None:
            extra['c'] = np.full(m, c_)
    seen = []
    outs = [pym.Signal('f' if i == 0 else f'g{i}') for i in range(m + 1)]
    mods = [_RESP(sigs, outs[i], prob, i, seen) for i in range(m + 1)]
    net = pym.Network(mods)

    cbs = []        # per callback: list of per-signal copies of the state
    subs = []       # per subsolv call: arguments (copied before the call), returned tuple (copied), KKT residuals
    orig, orig_res = mmamod.subsolv, getattr(mmamod, 'residual', None)
    buf = io.StringIO()
    work = [0]
    truncated = [None]

    def counting_residual(*a, **kw):
        work[0] += 1
        if work[0] > WORK_LIMIT:
            raise _Truncate('work limit')
        return orig_res(*a, **kw)

    def spy(epsimin, low, upp, alfa, beta, P, Q, a0, a, b, c, d, x0=None):
        arg = dict(epsimin=float(epsimin), low=np.array(low, float), upp=np.array(upp, float),
                   alfa=np.array(alfa, float), beta=np.array(beta, float), P=np.array(P, float),
                   Q=np.array(Q, float), a0=float(a0), a=np.array(a, float), b=np.array(b, float),
                   c=np.array(c, float), d=np.array(d, float), x0=None if x0 is None else np.array(x0, float))
        work[0] = 0
        pos = buf.tell()
        try:
            ret = orig(epsimin, low, upp, alfa, beta, P, Q, a0, a, b, c, d, x0=x0)
        except _Truncate:
            # cut off by the cost guard; if the solver had already reported its iteration cap in this call, the call is
            # a (heavier) instance of the same stall and is reported like a capped call that returned
            if 'MMA Subsolver' in buf.getvalue()[pos:]:
                stalled.append(len(subs))
            raise
        capped = 'MMA Subsolver' in buf.getvalue()[pos:]
        retc = tuple(np.array(r, float) for r in ret)
        res = _kkt_or_none(arg, retc)
        subs.append((arg, retc, res, capped))
        if capped or res is None or max(res.values()) > KKT_FACTOR * arg['epsimin']:
            # cost guard: once the inner Newton iteration hits its cap the run stays in that regime (seconds per
            # call); everything up to and including this call is judged, the rest of the run is not executed
            raise _Truncate('newton cap' if capped else 'kkt')
        return ret

    cbs_pre = []
    stalled = []

    def callback():
        cbs_pre.append([np.array(s.state) for s in sigs])
        if case.get('callback') == 'passive':
            # the user's callback prescribes the first variable (a passive element kept solid) by ASSIGNING a new state
            v = np.array(sigs[0].state, dtype=float)
            pv = float(lo[0] + 0.8 * (hi[0] - lo[0]))
            if v.ndim:
                v[0] = pv
                sigs[0].state = v
            else:
                sigs[0].state = pv
        cbs.append([np.array(s.state) for s in sigs])

    spec = lambda v: v.copy() if isinstance(v, np.ndarray) else v
    mmamod.subsolv = spy
    if orig_res is not None:
        mmamod.residual = counting_residual   # only counts work (cost guard), never alters a value
    try:
        with contextlib.redirect_stdout(buf):
            tolkw = {} if case.get('tolx') == 'default' else {'tolx': TOLX}
            if case.get('tolf'):
                tolkw['tolf'] = float(case['tolf'])
            user_args = {'move': spec(move_spec), 'xmin': spec(xmin_spec), 'xmax': spec(xmax_spec)}
            pym.minimize_mma(net, sigs, outs, verbosity=0, maxit=int(case.get('maxit', MAXIT)), move=user_args['move'],
                             **tolkw,
                             xmin=user_args['xmin'], xmax=user_args['xmax'], mmaversion=case['version'],
                             asyinit=asyinit, asyincr=asyincr, asydecr=asydecr, albefa=albefa, epsimin=EPSIMIN,
                             fn_callback=callback, **extra)
    except _Truncate as e:
        truncated[0] = str(e).split('\n')[0]
    finally:
        mmamod.subsolv = orig
        if orig_res is not None:
            mmamod.residual = orig_res
    final = [np.array(s.state) for s in sigs]

    V, nchecks, observed = [], 0, set()
    base_sig = {'version': case['version'][-4:]}
    if case.get('sigkind'):
        base_sig['variable'] = case['sigkind']
    if case.get('opts'):
        base_sig['options'] = case['opts']
    if case.get('callback'):
        base_sig['callback'] = case['callback']

    def chk(cond, check, sig, **detail):
        nonlocal nchecks
        nchecks += 1
        if not cond:
            s = {'check': check}
            s.update(sig)
            if not any(v['signature'] == s for v in V):
                V.append({'check': check, 'signature': s, 'detail': detail})

    def flat(states):
        return np.concatenate([np.atleast_1d(np.asarray(v, float)).ravel() for v in states])

    # the bound / move-limit arrays handed in are the caller's (he may pass them to the next run): not modified
    for nm_, orig_ in (('move', move_spec), ('xmin', xmin_spec), ('xmax', xmax_spec)):
        if isinstance(orig_, np.ndarray) and truncated[0] is None:
            chk(np.array_equal(user_args[nm_], orig_), 'argument_modified', {'argument': nm_},
                given=orig_, after_the_run=user_args[nm_])

    if sigkind == 'slice':
        rest = np.asarray(basesig.state)[[0, n + 1, n + 2]]
        chk(np.array_equal(rest, [9.0, 7.0, 5.0]), 'entries_outside_the_variable_slice_changed', {}, got=rest)
    if stalled:
        chk(False, 'subproblem_kkt', {'cause': 'newton_iteration_cap', 'input': input_id(case)}, iteration=stalled[0],
            note='the sub-problem call reported its Newton iteration cap and was cut off by the cost guard '
                 f'({WORK_LIMIT} residual evaluations) before it returned')
    nit = len(subs)
    pending = 1 if truncated[0] == 'work limit' else 0   # the call that was cut off has no record
    if case.get('tolf') and len(cbs) == nit + pending + 1 and len(seen) == nit + pending + 1:
        pending += 1          # stopped by the objective-change test, which comes before the sub-problem of that iteration
    chk(len(cbs) == nit + pending and len(seen) == nit + pending and len(cbs) >= 1, 'schedule', {},
        cbs=len(cbs), subs=nit, seen=len(seen))
    nit = min(len(cbs), len(subs), len(seen))
    worst_kkt = 0.0
    for k in range(nit):
        xk = flat(cbs[k])
        # --- write-back: every signal holds exactly its own segment of the expected vector
        expect = x0 if k == 0 else subs[k - 1][1][0]
        for i, sz in enumerate(sizes):
            got = np.atleast_1d(cbs_pre[k][i]).ravel()     # as written by the optimiser (before the user's callback)
            want = expect[cum[i]:cum[i + 1]]
            chk(got.shape == want.shape and np.array_equal(got, want), 'writeback',
                {'signal': 'scalar' if sz == 0 else 'array'},
                iteration=k, signal=i, split=case['split'], got=got, want=want)
            if sz >= 1 and np.ndim(cbs[k][i]) != 1:
                observed.add('length-1 array signal written back as 0-d value')
            if sz == 0 and np.ndim(cbs[k][i]) != 0:
                observed.add('scalar signal written back as array')
        if xk.shape != (n,):
            break
        # --- the responses were evaluated at the design held by the signals
        chk(np.array_equal(seen[k], xk), 'design_seen', {}, iteration=k, seen=seen[k], signals=xk)
        # --- bounds and move limit
        chk(bool(np.all(xk >= lo) and np.all(xk <= hi)), 'bounds', {'bounds_kind': case['bounds']},
            iteration=k, x=xk, lo=lo, hi=hi)
        if k > 0:
            xp = flat(cbs[k - 1])
            step, lim = np.abs(xk - xp), mv * dx
            tolv = 1e-9 * max(np.max(np.abs(xk)), np.max(np.abs(xp))) + 1e-12
            j = int(np.argmax(step - lim))
            chk(bool(np.all(step <= lim + tolv)), 'move_limit',
                {'move_kind': case['move']}, iteration=k, step=step, limit=lim, worst_ratio=step[j] / lim[j],
                bounds_kind=case['bounds'])
        # --- what was handed to the sub-problem solver
        arg, ret, res, capped = subs[k]
        low, upp, alfa, beta, P, Q, b = arg['low'], arg['upp'], arg['alfa'], arg['beta'], arg['P'], arg['Q'], arg['b']
        shapes_ok = (low.shape == upp.shape == alfa.shape == beta.shape == (n,) and P.shape == Q.shape == (m + 1, n)
                     and b.shape == (m,) and all(arg[kk].shape == (m,) for kk in 'acd'))
        chk(shapes_ok, 'subproblem_shapes', base_sig, iteration=k)
        if not shapes_ok:
            continue
        chk(bool(np.all(low < alfa) and np.all(alfa <= beta) and np.all(beta < upp)), 'asymptotes_enclose', base_sig,
            iteration=k, low=low, alfa=alfa, beta=beta, upp=upp)
        if not case.get('callback') and np.all(low < xk) and np.all(xk < upp):
            # the admissible interval of the sub-problem is the one of the method: the move limit, the bounds and the
            # fraction albefa of the distance to each asymptote, whichever is tightest
            a_ref = np.maximum.reduce([lo, xk - mv * dx, low + albefa * (xk - low)])
            b_ref = np.minimum.reduce([hi, xk + mv * dx, upp - albefa * (upp - xk)])
            tol_i = 1e-9 * np.maximum(np.abs(xk), dx) + 1e-12
            chk(bool(np.all(np.abs(alfa - a_ref) <= tol_i) and np.all(np.abs(beta - b_ref) <= tol_i)),
                'admissible_interval', base_sig, iteration=k, x=xk, low=low, upp=upp, alfa=alfa, beta=beta,
                alfa_expected=a_ref, beta_expected=b_ref)
        chk(bool(np.all(P >= 0) and np.all(Q >= 0)), 'approx_convex', base_sig, iteration=k, P=P, Q=Q)
        gtrue, dgtrue = prob.values(xk), prob.grads(xk)
        if np.all(low < xk) and np.all(xk < upp):
            for i in range(m + 1):
                gr, gsc = R.approx_gradient(P[i], Q[i], low, upp, xk)
                err = np.abs(gr - dgtrue[i])
                bnd = 1e-9 * np.maximum(gsc, np.abs(dgtrue[i])) + 1e-12
                j = int(np.argmax(err - bnd))
                chk(bool(np.all(err <= bnd)), 'approx_gradient',
                    dict(base_sig, resp='objective' if i == 0 else 'constraint'),
                    iteration=k, response=i, got=gr, want=dgtrue[i], worst_component=j)
                if i >= 1:
                    val, vsc = R.approx_value(P[i], Q[i], low, upp, xk)
                    val -= b[i - 1]
                    chk(abs(val - gtrue[i]) <= 1e-9 * max(vsc, abs(b[i - 1]), abs(gtrue[i])) + 1e-12, 'approx_value',
                        base_sig, iteration=k, response=i, got=val, want=gtrue[i])
        else:
            chk(False, 'design_outside_asymptotes', base_sig, iteration=k, low=low, upp=upp, x=xk)
        # --- the returned point
        chk(res is not None, 'solution_shapes', base_sig, iteration=k)
        if res is None:
            continue
        xr = ret[0]
        chk(bool(np.all(xr >= alfa) and np.all(xr <= beta)), 'solution_in_interval', base_sig,
            iteration=k, x=xr, alfa=alfa, beta=beta)
        comp = max(res, key=lambda kk: res[kk])
        ratio = res[comp] / arg['epsimin'] if arg['epsimin'] > 0 else float('inf')
        worst_kkt = max(worst_kkt, ratio)
        # the known finding KF-C10-1 is listed input by input: a stall at any other input is reported
        ksig = {'cause': 'newton_iteration_cap', 'input': input_id(case)} if capped else \
            dict(base_sig, cause='other', component=comp.split('_')[0])
        chk(ratio <= KKT_FACTOR, 'subproblem_kkt', ksig, iteration=k, residuals=res, epsimin=arg['epsimin'],
            ratio=ratio, newton_cap_reported=capped, subproblem=arg, returned=ret)
        if capped:
            observed.add('subsolv reported reaching its Newton iteration cap')
        elif ratio <= KKT_FACTOR:
            # the accuracy asked of the solver must not be looser than what the user asked of the optimiser
            # (the implementation scales the user's epsimin by sqrt(m+n); both readings are accepted)
            ruser = res[comp] / (EPSIMIN * np.sqrt(m + n))
            chk(ruser <= KKT_FACTOR, 'subproblem_kkt', dict(base_sig, cause='looser_than_user_epsimin'),
                iteration=k, residuals=res, epsimin_user=EPSIMIN, epsimin_handed_to_subsolv=arg['epsimin'])

    # --- per run: convergence on the convex problem
    ref = _reference(case, lo, hi)
    inconclusive = 0
    dist0 = None
    if opts or case.get('callback'):
        conv_tag = 'options'
        if opts:
            chk(all(np.array_equal(sb[0]['a'], extra['a']) and sb[0]['a0'] == extra['a0'] and
                    np.array_equal(sb[0]['c'], extra.get('c', sb[0]['c'])) for sb in subs),
                'options_handed_to_subproblem', {'option': opts})
        if ref is not None:
            dist0 = float(np.max(np.abs(x0 - ref['x']) / dx))
    elif truncated[0]:
        conv_tag = 'truncated'
        observed.add(f'run truncated after iteration {"<20" if nit < 20 else ">=20"} ({truncated[0]}): '
                     'convergence not judged')
        if ref is not None:
            dist0 = float(np.max(np.abs(x0 - ref['x']) / dx))
    elif ref is None or not ref['unique']:
        conv_tag = 'noref'
        inconclusive = 1
        observed.add('reference optimum not verified/unique: convergence not judged')
    else:
        xf = flat(final)
        dist0 = float(np.max(np.abs(x0 - ref['x']) / dx))
        ok_shape = xf.shape == (n,)
        dist = float(np.max(np.abs(xf - ref['x']) / dx)) if ok_shape else float('inf')
        gmax = float(np.max(prob.values(xf)[1:])) if ok_shape else float('inf')
        if ref['balanced']:
            sigc = dict(base_sig, asy=case['asy'])
            DIST.append(dist)
            ctol = CONV_TOL_DEFAULT_TOLX if case.get('tolx') == 'default' else CONV_TOL
            if case.get('tolx') == 'default':
                sigc['tolx'] = 'default'
            chk(dist <= ctol, 'convergence_distance', sigc, distance=dist, iterations=nit, final=xf,
                optimum=ref['x'])
            GMAX.append(gmax)
            ftol = FEAS_TOL_DEFAULT_TOLX if case.get('tolx') == 'default' else FEAS_TOL
            chk(gmax <= ftol, 'convergence_feasibility', sigc, max_constraint=gmax, iterations=nit)
            conv_tag = 'conv' if (dist <= CONV_TOL and gmax <= FEAS_TOL) else 'noconv'
        else:
            conv_tag = 'unbal-' + ('near' if dist <= CONV_TOL else 'cycle' if dist <= 2e-2 else 'far')
            observed.add('optimum has a free variable with stationary objective (MMA 2-cycles at the smallest '
                         'asymptote interval): convergence not judged')

    itb = '<10' if nit < 10 else '<20' if nit < 20 else '<40' if nit < 40 else ('<60' if nit < MAXIT else '=60')
    nact = 'na' if ref is None else f"{len(ref['active_cons'])}c{min(ref['active_bounds'], 3)}b"
    outcome = f"{case['obj']}/{case['cons']}/act{nact}/it{itb}/{conv_tag}/kkt{'<=10' if worst_kkt <= 10 else '>10'}"
    if V:
        outcome += '/' + V[0]['check']
    return {'states': nit, 'transitions': nit, 'checks': nchecks,
            'nontrivial': bool(nit >= 3 and dist0 is not None and dist0 > CONV_TOL),
            'key': '|'.join(str(case[kk]) for kk in sorted(case)), 'outcome': outcome, 'skipped': None,
            'inconclusive': inconclusive, 'observed_only': sorted(observed), 'violations': V}
