"""C12 -- element operators reproduce affine fields exactly and agree with assembly (E1 lattice explorer).

Case kinds
 kin     (grid, size)            Strain(voigt=True/False) for every gradient of the table; ElementAverage of linear fields
 mat     (grid, size, E, nu, plane)  Stress = D * (the strain returned by Strain); energy identity
                                  sum_e x_e V_e s_e.e_e = u^T K(x) u; ThermoMechanical self-equilibrium and = K u_free
 ops     (grid, dofs per node)   ElementOperation / NodalOperation complete matrices from impulses, all operator shapes

How the shear convention defect (DESIGN section 5 item 13) is kept to a fixed set of signatures:
 * strain_affine compares against the symmetric gradient of the property statement, per component class
   (normal / shear) and reports the quantised common ratio got/expected of that class;
 * Stress is judged RELATIVE to the strain the Strain module returns (the statement says "the constitutive matrix
   times that strain"), so a wrong strain is not reported a second time, a wrong constitutive matrix is;
 * the energy identity is judged literally; when it fails, the normal and the shear part of sum x V s.e are compared
   separately with the reference energy parts and the failing part and its ratio form the signature.
"""
import threading
import itertools
import numpy as np
from pmc.refs import fe
from pmc.engine.tol import dense, maxabs, alg_err, q

PROPERTY = 'C12'
RULE = ("lattice: grids (nelx,nely[,nelz]) x element sizes of the table (2-D: in-plane sizes x thickness; Stress and the "
        "energy identity only at unit thickness) x (E x nu x plane) x displacement fields u = a + G x with G over every "
        "unit gradient e_ij, every rotation e_ij-e_ji, every symmetric shear e_ij+e_ji, the hydrostatic and one generic "
        "gradient and the pure translation; Strain with voigt True/False; x in {ones, index-coded, with zeros}; "
        "ElementAverage for 1..3 dofs per node; ElementOperation/NodalOperation for operator shapes (k),(1,k),(2,k),"
        "(3,k),(2,3,k) with k = nodes*dofs for 1..3 dofs per node and the per-node form (...,nodes) repeated per dof, "
        "complete matrices from all impulses; ThermoMechanical for alpha of the table and x*dT. A case is non-trivial if "
        "elements share nodes (nel>1) or dim==3; distinct by (kind, grid, size, material | ndof)")
RULE += " Extended in seeding rounds 6-7:  valid call after a rejected one (wrong number of dofs per node) on Strain and ElementOperation."
ASSUMPTIONS = [
    "reference kinematics/Hooke/Gauss integration in pmc/refs/fe.py; Voigt order xx,yy,zz,yz,zx,xy (2-D: xx,yy,xy)",
    "Stress is judged as D_ref times the strain returned by Strain(voigt=True) on the same field ('that strain')",
    "Strain(voigt=False) is judged against the tensor shear (G_ij+G_ji)/2 of the symmetric gradient, as its docstring "
    "states; in 3-D its shear order is not documented, so both orders of get_B (yz,zx,xy / xy,yz,zx) are accepted",
    "in 2-D Stress/energy are evaluated at unit out-of-plane thickness (quantifier of the property)",
    "thermal load: equality with K u_free is demanded in plane stress and 3-D only; in plane strain only "
    "self-equilibrium (zero net force and moment) is judged; uniform temperature rise, arbitrary x",
    "NodalOperation/ElementOperation are judged for real data",
]

SQ = [float(np.sqrt(p)) for p in (2, 3, 5, 7, 11, 13, 17, 19, 23, 29)]
GEN = np.array([[0.1, 0.25, -0.05], [0.07, -0.2, 0.3], [0.02, 0.11, 0.15]])
VALUE_TABLES = [
    {'gs': 1.0, 'a': [0.3, -0.2, 0.5], 'gen': GEN * 4, 'dT': 1.7, 'alpha': 0.013, 'xoff': 0.2, 'xstep': 0.1},
    {'gs': SQ[0] / 2, 'a': [-0.4, 0.6, 0.1], 'gen': GEN.T * 3 + 0.05, 'dT': SQ[2], 'alpha': 1e-2 * SQ[1], 'xoff': 0.3,
     'xstep': SQ[1] / 10},
    {'gs': SQ[1], 'a': [0.7, 0.2, -0.3], 'gen': GEN[::-1] * 5 - 0.02, 'dT': -2.5, 'alpha': 1e-3 * SQ[3], 'xoff': SQ[2] / 10,
     'xstep': 0.07},
    {'gs': 0.5 * SQ[3], 'a': [0.0, -0.9, 0.4], 'gen': (GEN * np.array([[1, -2, 3]])).T, 'dT': 0.6, 'alpha': 0.05,
     'xoff': 0.15, 'xstep': SQ[0] / 8},
]
SIZE_TABLES = [
    [(1.0, 1.0, 1.0), (0.5, 2.0, 1.0), (1.5, 0.5, 2.0)],
    [(1.0, 1.0, 1.0), (2.0, 1.5, 1.0), (0.5, 1.0, 1.5)],
    [(1.0, 1.0, 1.0), (1.5, 2.0, 1.0), (2.0, 0.5, 0.5)],
]
SIZE_VALUES = (1.0, 0.5, 2.0, 1.5)
E_LIST = [1.0, 2.5]
NU_LIST = [0.0, 0.3, 0.45]
X_LIST = ['ones', 'coded', 'zeros']
OP_SHAPES = [(), (1,), (2,), (3,), (2, 3)]


def _grids(max2d, max3d):
    g = [(a, b, 0) for a in range(1, max2d[0] + 1) for b in range(1, max2d[1] + 1)]
    g += [(a, b, c) for a in range(1, max3d[0] + 1) for b in range(1, max3d[1] + 1) for c in range(1, max3d[2] + 1)]
    g.sort(key=lambda t: (fe.nel(*t), t))
    return g


def materials(dim):
    return [(E, nu, pl) for E in E_LIST for nu in NU_LIST for pl in (('strain', 'stress') if dim == 2 else ('3d',))]


def bounds(tier, seed):
    common = {'E': E_LIST, 'nu': NU_LIST, 'plane': ['strain', 'stress', '3d'], 'x': X_LIST,
              'gradients': 'e_ij, rot_ij, sym_ij, hydro, generic, translation', 'voigt': [True, False],
              'operator_shapes': ['(k)', '(1,k)', '(2,k)', '(3,k)', '(2,3,k)', 'per-node (...,nodes)'], 'ndof': [1, 2, 3],
              'value_table': seed % len(VALUE_TABLES)}
    if tier == 'quick':
        return dict(common, grids_2d='nelx<=3, nely<=3', grids_3d='nelx<=2, nely<=2, nelz<=2',
                    sizes=SIZE_TABLES[seed % len(SIZE_TABLES)])
    return dict(common, levels=['L1: quick bounds',
                                'L2: every size of {1,0.5,2,1.5}^3 (2-D: 16 in-plane x thickness {1,1.5})',
                                'L3: 2-D grids up to 4x4, 3-D grids up to 3x2x2 with the size table of L1'])


def _cases(grids, sizes_of, vt, ops=True):
    for g in grids:
        dim = 3 if g[2] else 2
        for s in sizes_of(g):
            yield {'kind': 'kin', 'grid': list(g), 'size': list(s), 'vt': vt}
            for (E, nu, pl) in materials(dim):
                yield {'kind': 'mat', 'grid': list(g), 'size': list(s), 'E': E, 'nu': nu, 'plane': pl, 'vt': vt}
        if ops:
            for ndof in (1, 2, 3):
                yield {'kind': 'ops', 'grid': list(g), 'size': [1.0, 1.0, 1.0], 'ndof': ndof, 'vt': vt}


def generate(tier, seed):
    vt = seed % len(VALUE_TABLES)
    sizes_q = SIZE_TABLES[seed % len(SIZE_TABLES)]
    if tier == 'quick':
        yield from _cases(_grids((3, 3), (2, 2, 2)), lambda g: sizes_q, vt)
        return
    g1 = _grids((3, 3), (2, 2, 2))
    yield {'__level__': 'L1'}
    yield from _cases(g1, lambda g: sizes_q, vt)
    yield {'__level__': 'L2'}
    done = set(map(tuple, sizes_q))
    all2 = [(a, b, c) for a in SIZE_VALUES for b in SIZE_VALUES for c in (1.0, 1.5)]
    all3 = list(itertools.product(SIZE_VALUES, repeat=3))
    yield from _cases(g1, lambda g: [s for s in (all2 if g[2] == 0 else all3) if s not in done], vt, ops=False)
    yield {'__level__': 'L3'}
    g3 = [g for g in _grids((4, 4), (3, 2, 2)) if g not in set(g1)]
    yield from _cases(g3, lambda g: sizes_q, vt)


# ------------------------------------------------------------------------------------------------ tables

def gradient_table(dim, tab):
    """name -> (a, G)"""
    gs = tab['gs']
    a = np.array(tab['a'][:dim])
    out = {}
    for i in range(dim):
        for j in range(dim):
            G = np.zeros((dim, dim))
            G[i, j] = gs
            out[f'e{i}{j}'] = (a, G)
    for i in range(dim):
        for j in range(i + 1, dim):
            G = np.zeros((dim, dim))
            G[i, j], G[j, i] = gs, -gs
            out[f'rot{i}{j}'] = (a, G)
            G = np.zeros((dim, dim))
            G[i, j], G[j, i] = gs, gs
            out[f'sym{i}{j}'] = (a, G)
    out['hydro'] = (a, gs * np.eye(dim))
    out['generic'] = (a, np.array(tab['gen'])[:dim, :dim])
    out['translation'] = (a + 1.0, np.zeros((dim, dim)))
    return out


def x_vector(name, nel, tab):
    coded = tab['xoff'] + tab['xstep'] * np.arange(nel)
    if name == 'ones':
        return np.ones(nel)
    if name == 'coded':
        return coded
    if name == 'zeros':
        v = coded.copy()
        v[1::2] = 0.0
        return v
    raise KeyError(name)


def op_matrix(lead, k, salt):
    B = np.zeros(tuple(lead) + (k,))
    for idx in np.ndindex(*B.shape):
        t = sum((c + 1) * (3 * p + 2) for p, c in enumerate(idx))
        B[idx] = np.sin(0.9 * t + salt) + 0.1 * (idx[-1] + 1)
    return B


class Ctx:
    def __init__(self, case):
        self.case = case
        self.nchecks = 0
        self.ntrans = 0
        self.nstates = 0
        self.observed = set()
        self.tags = set()
        self.viol = {}  # json key of signature -> violation (first only) + count

    def ok(self, n=1):
        self.nchecks += n

    def bad(self, check, sig, only, **detail):
        """Violations are grouped by (check, signature without 'ratio'); the ratio enters the signature only if it is
        the same at every failing sub-point of the case (root cause with a fixed factor), else it reads 'varies'."""
        self.nchecks += 1
        s = dict(sig)
        s['check'] = check
        ratio = s.pop('ratio', None)
        key = repr(sorted(s.items()))
        if key in self.viol:
            v = self.viol[key]
            v['detail']['failing_subpoints'] += 1
            v['_ratios'].add(ratio)
            return
        narrowed = dict(self.case)
        narrowed['only'] = only
        detail['failing_subpoints'] = 1
        detail['first_failing'] = only
        self.viol[key] = {'check': check, 'signature': s, 'detail': detail, 'case': narrowed, '_ratios': {ratio}}

    def violations(self):
        out = []
        for v in self.viol.values():
            v = dict(v)
            rs = v.pop('_ratios')
            if rs != {None}:
                v['signature'] = dict(v['signature'], ratio=(next(iter(rs)) if len(rs) == 1 else 'varies'))
                v['detail'] = dict(v['detail'], ratios_seen=sorted(map(str, rs)))
                if len(rs) > 1:  # replay the whole part of the case so that the same signature is reproduced
                    c = dict(v['case'])
                    c['only'] = {k: w for k, w in c['only'].items() if k in ('part', 'voigt')}
                    v['case'] = c
            out.append(v)
        return out


def _only(case, **axes):
    o = case.get('only')
    if not o:
        return False
    return any(k in o and o[k] != v for k, v in axes.items())


def _class_ratio(got, ref, tol):
    """Common ratio got/ref over one component class; 'spurious' if ref vanishes, 'none' if there is no common ratio."""
    got = np.asarray(got, dtype=float).ravel()
    ref = np.asarray(ref, dtype=float).ravel()
    rr = float(ref @ ref)
    if rr <= tol ** 2:
        return 'spurious'
    r = float(got @ ref) / rr
    if np.max(np.abs(got - r * ref)) <= 1e3 * tol:
        return q(r, 3)
    return 'none'


def _run(m, sig, value):
    sig.state = value
    m.response()
    return m.sig_out[0].state


# ------------------------------------------------------------------------------------------------ execute

def execute(case):
    return _in_thread(_execute, case)


def _in_thread(fn, *args):
    """pyMOTO builds a debugging string with inspect.stack() in every Signal/Module constructor; its cost grows with
    the depth of the call stack (runner + multiprocessing + runpy frames).  Running the case on a fresh thread gives it
    a short stack; nothing else changes.  Exceptions are re-raised with their traceback."""
    box = {}

    def run():
        try:
            box['r'] = fn(*args)
        except BaseException as e:  # noqa
            box['e'] = e
    th = threading.Thread(target=run, daemon=True)
    th.start()
    th.join()
    if 'e' in box:
        raise box['e']
    return box['r']


def _execute(case):
    import pymoto as pym
    kind = case['kind']
    grid = tuple(case['grid'])
    nx, ny, nz = grid
    sz = tuple(case['size'])
    dim = fe.dims(nx, ny, nz)
    nel = fe.nel(nx, ny, nz)
    tab = VALUE_TABLES[case.get('vt', 0)]
    dom = pym.DomainDefinition(nx, ny, nz, unitx=sz[0], unity=sz[1], unitz=sz[2])
    ctx = Ctx(case)
    pos = fe.node_positions(nx, ny, nz, sz)
    if kind == 'kin':
        _kin(ctx, pym, dom, grid, sz, dim, nel, tab, pos)
        _int_nodal(ctx, pym, dom, dim, pos)
        key = f"kin|{grid}|{sz}"
    elif kind == 'mat':
        _mat(ctx, pym, dom, grid, sz, dim, nel, tab, pos)
        key = f"mat|{grid}|{sz}|{case['E']}|{case['nu']}|{case['plane']}"
    elif kind == 'ops':
        _ops(ctx, pym, dom, grid, dim, nel, tab)
        key = f"ops|{grid}|{case['ndof']}"
    else:
        raise KeyError(kind)
    V = ctx.violations()
    return {'states': max(ctx.nstates, 1), 'transitions': max(ctx.ntrans, 1), 'checks': max(ctx.nchecks, 1),
            'nontrivial': nel > 1 or dim == 3, 'key': key,
            'outcome': [f"{kind}|{'ok' if not V else '+'.join(sorted({v['check'] for v in V}))}"] + sorted(ctx.tags),
            'observed_only': sorted(ctx.observed), 'violations': V}


def _kin(ctx, pym, dom, grid, sz, dim, nel, tab, pos):
    case = ctx.case
    nx, ny, nz = grid
    hmin = min(sz[:dim])
    gt = gradient_table(dim, tab)
    ns = 3 if dim == 2 else 6
    for voigt in (True, False):
        if _only(case, voigt=voigt) or _only(case, part='strain'):
            continue
        sig = pym.Signal('u', np.zeros(pos.shape[1] * dim))
        m = pym.Strain(sig, domain=dom, voigt=voigt)
        for gname, (a, G) in gt.items():
            if _only(case, G=gname):
                continue
            u = fe.affine_nodal_field(pos, a, G)
            got = np.asarray(_run(m, sig, u.copy()))
            ctx.ntrans += 1
            ctx.nstates += 1
            only = {'part': 'strain', 'voigt': voigt, 'G': gname}
            if got.shape != (ns, nel):
                ctx.bad('strain_shape', {'voigt': voigt}, only, got=list(got.shape), want=[ns, nel])
                continue
            tol = 1e-9 * maxabs(u) / hmin + 1e-12
            orders = ['voigt'] if (voigt or dim == 2) else ['voigt', 'standard']
            refs = [np.repeat(fe.strain_of_gradient(dim, G, order=o, engineering=voigt)[:, None], nel, axis=1)
                    for o in orders]
            if any(np.max(np.abs(got - r)) <= tol for r in refs):
                ctx.ok()
                ctx.tags.add(f"strain voigt={voigt}: ok")
                continue
            ref = refs[0]
            for comp, rows in (('normal', slice(0, dim)), ('shear', slice(dim, ns))):
                if np.max(np.abs(got[rows] - ref[rows])) <= tol:
                    continue
                ratio = _class_ratio(got[rows], ref[rows], tol)
                ctx.tags.add(f"strain voigt={voigt}: {comp} ratio {ratio}")
                ctx.bad('strain_affine', {'component': comp, 'ratio': ratio, 'voigt': voigt}, only,
                        got=got[:, 0], want=ref[:, 0], gradient=G, tol=tol)
    # a call that is rejected (nodal vector with the wrong number of dofs per node, e.g. a temperature field) must leave
    # the module usable: the next call with a valid affine field gives its strain
    for wrong in ([1, dim + 1] if not (_only(case, part='after_rejected')) else []):
        sig = pym.Signal('u', np.zeros(pos.shape[1] * dim))
        m = pym.Strain(sig, domain=dom, voigt=True)
        only = {'part': 'after_rejected', 'wrong': wrong}
        try:
            _run(m, sig, np.linspace(0.0, 1.0, pos.shape[1] * wrong))
            ctx.observed.add(f'Strain accepts a nodal vector with {wrong} dofs per node on a {dim}-D domain')
            continue
        except Exception:  # noqa
            pass
        a, G = gt['generic']
        u = fe.affine_nodal_field(pos, a, G)
        ctx.ntrans += 2
        # judged against a module that never saw the rejected call (the values themselves are judged above)
        sig_f = pym.Signal('u', np.zeros(pos.shape[1] * dim))
        ref = np.asarray(_run(pym.Strain(sig_f, domain=dom, voigt=True), sig_f, u.copy()))
        try:
            got = np.asarray(_run(m, sig, u.copy()))
            err = float(np.max(np.abs(got - ref))) if got.shape == ref.shape else float('inf')
        except Exception as exc:  # noqa
            got, err = f"{type(exc).__name__}: {exc}"[:300], float('inf')
        if err <= 1e-9 * maxabs(u) / hmin + 1e-12:
            ctx.ok()
        else:
            ctx.bad('after_rejected_call', {'module': 'Strain'}, only, got=got if isinstance(got, str) else got[:, 0],
                    want_fresh_module=ref[:, 0], history=f'response(nodal vector with {wrong} dof(s) per node) raised, then '
                                            f'response(affine displacement field)')
    # ElementAverage of linear nodal fields = centroid value
    cen = fe.elem_centroids(nx, ny, nz, sz)
    gen = np.array(tab['gen'])
    for ndof in (1, 2, 3):
        if _only(case, part='average') or _only(case, ndof=ndof):
            continue
        c = np.array(tab['a'])[:ndof] + 0.4
        g = gen[:ndof, :dim]
        v = fe.affine_nodal_field(pos, c, g)
        sig = pym.Signal('v', v.copy())
        m = pym.ElementAverage(sig, domain=dom)
        m.response()
        got = np.asarray(m.sig_out[0].state)
        ctx.ntrans += 1
        ctx.nstates += 1
        only = {'part': 'average', 'ndof': ndof}
        want = np.array([[c[d] + g[d] @ cen[:, e] for e in range(nel)] for d in range(ndof)])
        if ndof == 1:
            want = want[0]
        if got.shape != want.shape:
            ctx.bad('element_average_shape', {'ndof': '1' if ndof == 1 else '>1'}, only, got=list(got.shape),
                    want=list(want.shape))
            continue
        e, b = alg_err(got, want, maxabs(v))
        if e <= b:
            ctx.ok()
        else:
            ctx.bad('element_average', {'ndof': '1' if ndof == 1 else '>1'}, only, got=got, want=want, err=e)


def _int_nodal(ctx, pym, dom, dim, pos):
    """an integer-typed nodal vector is the same nodal vector as its float-typed copy"""
    case = ctx.case
    if _only(case, part='strain') or _only(case, part='average'):
        return
    nn = pos.shape[1]
    mods = [('Strain', dim, lambda s_: pym.Strain(s_, domain=dom, voigt=True)),
            ('ElementAverage', 1, lambda s_: pym.ElementAverage(s_, domain=dom)),
            ('ElementAverage', 2, lambda s_: pym.ElementAverage(s_, domain=dom))]
    for name, ndof, mk in mods:
        ui = ((np.arange(nn * ndof) * 7) % 5 - 2).astype(np.int64)
        outs = []
        for u in (ui, ui.astype(float)):
            sig = pym.Signal('u', u.copy())
            m = mk(sig)
            m.response()
            outs.append(np.asarray(m.sig_out[0].state))
            ctx.ntrans += 1
        ctx.nstates += 1
        same = outs[0].shape == outs[1].shape and np.max(np.abs(outs[0] - outs[1])) <= 1e-12 * max(1.0, maxabs(outs[1]))
        if same:
            ctx.ok()
        else:
            ctx.bad('integer_nodal_vector', {'module': name}, {'part': 'intnodal'}, with_int=outs[0], with_float=outs[1])


def _mat(ctx, pym, dom, grid, sz, dim, nel, tab, pos):
    case = ctx.case
    nx, ny, nz = grid
    E, nu, pl = case['E'], case['nu'], case['plane']
    plane_kw = 'strain' if pl == '3d' else pl
    thick = sz[2] if dim == 2 else 1.0
    Vel = fe.elem_volume(dim, sz)
    D = fe.hooke_voigt(dim, E, nu, plane_kw)
    ns = D.shape[0]
    hmin = min(sz[:dim])
    gt = gradient_table(dim, tab)
    nn = pos.shape[1]
    ssig = {'plane': pl}

    # assembled stiffness for every x (the assembly of the code under test: "agree with assembly")
    Ks = {}
    for xname in X_LIST:
        xv = x_vector(xname, nel, tab)
        s = pym.Signal('x', xv.copy())
        mK = pym.AssembleStiffness(s, domain=dom, e_modulus=E, poisson_ratio=nu, plane=plane_kw)
        mK.response()
        Ks[xname] = (xv, np.asarray(dense(mK.sig_out[0].state)))
        ctx.ntrans += 1

    if (dim == 3 or thick == 1.0) and not _only(case, part='stress'):
        su = pym.Signal('u', np.zeros(nn * dim))
        m_eps = pym.Strain(su, domain=dom)
        su2 = pym.Signal('u', np.zeros(nn * dim))
        m_sig = pym.Stress(su2, domain=dom, e_modulus=E, poisson_ratio=nu, plane=plane_kw)
        for gname, (a, G) in gt.items():
            if _only(case, G=gname):
                continue
            u = fe.affine_nodal_field(pos, a, G)
            eps = np.asarray(_run(m_eps, su, u.copy()))
            sig = np.asarray(_run(m_sig, su2, u.copy()))
            ctx.ntrans += 2
            ctx.nstates += 1
            only = {'part': 'stress', 'G': gname}
            if sig.shape != (ns, nel) or eps.shape != (ns, nel):
                ctx.bad('stress_shape', ssig, only, got=list(sig.shape), want=[ns, nel])
                continue
            # Stress = D * "that strain"
            want = D @ eps
            tol = (1e-9 * maxabs(u) / hmin + 1e-12) * maxabs(D) * ns
            if np.max(np.abs(sig - want)) <= tol:
                ctx.ok()
            else:
                for comp, rows in (('normal', slice(0, dim)), ('shear', slice(dim, ns))):
                    if np.max(np.abs(sig[rows] - want[rows])) > tol:
                        ctx.bad('stress_is_D_times_strain', dict(ssig, component=comp,
                                                                 ratio=_class_ratio(sig[rows], want[rows], tol)),
                                only, got=sig[:, 0], want=want[:, 0], strain=eps[:, 0], tol=tol)
            # observed only: absolute stress against the textbook value of the statement's strain
            eref = fe.strain_of_gradient(dim, G, 'voigt', True)
            sabs = D @ eref
            if np.max(np.abs(sig - sabs[:, None])) > tol:
                r = _class_ratio(sig[dim:], np.repeat(sabs[dim:, None], nel, 1), tol)
                ctx.observed.add(f"Stress shear rows = {r} x textbook shear stress (consequence of the strain convention)"
                                 if np.max(np.abs(sig[:dim] - sabs[:dim, None])) <= tol else
                                 "Stress normal rows differ from D*symmetric-gradient")
            # energy identity
            for xname in X_LIST:
                if _only(case, x=xname):
                    continue
                xv, K = Ks[xname]
                only_e = {'part': 'stress', 'G': gname, 'x': xname}
                WK = float(u @ K @ u)
                Wn_ref = float(np.sum(xv) * Vel * (eref[:dim] @ D[:dim, :dim] @ eref[:dim]))
                Ws_ref = float(np.sum(xv) * Vel * (eref[dim:] @ D[dim:, dim:] @ eref[dim:]))
                etol = 1e-9 * (maxabs(K) * maxabs(u) ** 2 * K.shape[0] + abs(Wn_ref) + abs(Ws_ref)) + 1e-12
                ctx.ntrans += 1
                if abs(WK - (Wn_ref + Ws_ref)) <= etol:
                    ctx.ok()
                else:
                    ctx.bad('assembly_energy', ssig, only_e, uKu=WK, reference=Wn_ref + Ws_ref, tol=etol)
                En = float(np.sum(xv * Vel * np.sum(sig[:dim] * eps[:dim], axis=0)))
                Es = float(np.sum(xv * Vel * np.sum(sig[dim:] * eps[dim:], axis=0)))
                if abs(En + Es - WK) <= etol:
                    ctx.ok()
                    continue
                found = False
                for comp, got_c, ref_c in (('normal', En, Wn_ref), ('shear', Es, Ws_ref)):
                    if abs(got_c - ref_c) > etol:
                        found = True
                        ratio = q(got_c / ref_c, 3) if abs(ref_c) > etol else 'spurious'
                        ctx.tags.add(f"energy identity: {comp} part ratio {ratio}")
                        ctx.bad('energy_identity', dict(ssig, component=comp, ratio=ratio), only_e,
                                sum_xVse=En + Es, uKu=WK, part=got_c, part_reference=ref_c, tol=etol)
                if not found:
                    ctx.bad('energy_identity', dict(ssig, component='total', ratio=q((En + Es) / WK, 3) if WK else 'na'),
                            only_e, sum_xVse=En + Es, uKu=WK, tol=etol)

    # thermal load
    if not _only(case, part='thermal'):
        alpha, dT = tab['alpha'], tab['dT']
        fel = fe.thermal_load_element(dim, sz, E, nu, alpha, plane_kw, thickness=thick)
        ufree = fe.affine_nodal_field(pos, np.zeros(dim), alpha * dT * np.eye(dim))
        L = max(maxabs(pos), 1.0)
        for xname in X_LIST:
            if _only(case, x=xname):
                continue
            xv, K = Ks[xname]
            s = pym.Signal('xT', xv * dT)
            m = pym.ThermoMechanical(s, domain=dom, e_modulus=E, poisson_ratio=nu, alpha=alpha, plane=plane_kw)
            m.response()
            f = np.asarray(m.sig_out[0].state)
            ctx.ntrans += 1
            ctx.nstates += 1
            only = {'part': 'thermal', 'x': xname}
            if f.shape != (nn * dim,):
                ctx.bad('thermal_shape', ssig, only, got=list(f.shape), want=[nn * dim])
                continue
            fref = fe.scatter_vector(nx, ny, nz, dim, xv * dT, fel)
            fs = maxabs(fref, f)
            ftol = 1e-9 * fs * 2 ** dim + 1e-12
            ctx.tags.add('thermal load nonzero' if fs > 0 else 'thermal load zero')
            F = f.reshape(nn, dim)
            for d in range(dim):
                tot = float(np.sum(F[:, d]))
                if abs(tot) <= ftol * nn:
                    ctx.ok()
                else:
                    ctx.bad('thermal_net_force', ssig, only, direction=d, total=tot, tol=ftol * nn)
            for (i, j) in ([(0, 1)] if dim == 2 else [(0, 1), (1, 2), (2, 0)]):
                mom = float(np.sum(pos[i] * F[:, j] - pos[j] * F[:, i]))
                if abs(mom) <= ftol * nn * L:
                    ctx.ok()
                else:
                    ctx.bad('thermal_net_moment', ssig, only, axes=[i, j], moment=mom, tol=ftol * nn * L)
            if pl in ('stress', '3d'):
                Ku = K @ ufree
                ktol = 1e-9 * maxabs(K) * maxabs(ufree) * 2 ** dim * dim + 1e-12
                if np.max(np.abs(f - Ku)) <= max(ftol, ktol):
                    ctx.ok()
                else:
                    r = _class_ratio(f, Ku, max(ftol, ktol))
                    ctx.bad('thermal_equals_K_ufree', dict(ssig, ratio=r), only, got=f, want=Ku)
                if np.max(np.abs(f - fref)) <= ftol:
                    ctx.ok()
                else:
                    ctx.bad('thermal_vs_reference_load', dict(ssig, ratio=_class_ratio(f, fref, ftol)), only, got=f,
                            want=fref)


def _ops(ctx, pym, dom, grid, dim, nel, tab):
    case = ctx.case
    nx, ny, nz = grid
    ndof = case['ndof']
    nnode = fe.nnodes(nx, ny, nz)
    n = nnode * ndof
    nn = 2 ** dim
    ugen = np.array([np.sin(1.7 * i + 0.3) + 0.05 * i for i in range(n)])
    forms = [('full', lead) for lead in OP_SHAPES] + ([('pernode', lead) for lead in OP_SHAPES] if ndof > 1 else [])
    for form, lead in forms:
        if _only(case, form=form) or _only(case, lead=list(lead)):
            continue
        only = {'form': form, 'lead': list(lead)}
        sg = {'form': form, 'rank': len(lead) + 1}
        if form == 'full':
            B = op_matrix(lead, nn * ndof, tab['gs'])
            Bfull = B
        else:
            B = op_matrix(lead, nn, tab['gs'])
            Bfull = fe.expand_per_dof(B, ndof)
        Mref = fe.element_operator_dense(nx, ny, nz, ndof, Bfull)
        out_shape = Bfull.shape[:-1] + (nel,)
        # ElementOperation: complete matrix from impulses on one module (u updated on its input signal)
        su = pym.Signal('u', ugen.copy())
        mE = pym.ElementOperation(su, domain=dom, element_matrix=B.copy())
        y = np.asarray(_run(mE, su, ugen.copy()))
        ctx.ntrans += 1
        if y.shape != out_shape:
            ctx.bad('element_operation_shape', sg, only, got=list(y.shape), want=list(out_shape))
            continue
        tol = 1e-9 * maxabs(Bfull) * nn * ndof + 1e-12
        if np.max(np.abs(y.ravel() - Mref @ ugen)) <= tol * maxabs(ugen):
            ctx.ok()
        else:
            ctx.bad('element_operation_generic', sg, only, err=float(np.max(np.abs(y.ravel() - Mref @ ugen))))
        if form == 'full' and ndof >= 2:
            # a first call that is rejected (wrong number of dofs per node), then the valid one, on a fresh module
            for wrong in (ndof - 1, ndof + 1):
                sr = pym.Signal('u', ugen.copy())
                mR = pym.ElementOperation(sr, domain=dom, element_matrix=B.copy())
                try:
                    _run(mR, sr, np.linspace(0.0, 1.0, nnode * wrong))
                    continue
                except Exception:  # noqa
                    pass
                ctx.ntrans += 2
                try:
                    yr = np.asarray(_run(mR, sr, ugen.copy()))
                    err = float(np.max(np.abs(yr.ravel() - Mref @ ugen))) if yr.shape == out_shape else float('inf')
                except Exception as exc:  # noqa
                    yr, err = f"{type(exc).__name__}: {exc}"[:300], float('inf')
                if err <= tol * maxabs(ugen):
                    ctx.ok()
                else:
                    ctx.bad('after_rejected_call', dict(sg, module='ElementOperation'), only,
                            got=yr if isinstance(yr, str) else None, err=err,
                            history=f'response(vector with {wrong} dof(s) per node) raised, then response(valid vector)')
        Emat = np.zeros_like(Mref)
        for j in range(n):
            imp = np.zeros(n)
            imp[j] = 1.0
            Emat[:, j] = np.asarray(_run(mE, su, imp)).ravel()
            ctx.ntrans += 1
        ctx.nstates += 1
        if np.max(np.abs(Emat - Mref)) <= tol:
            ctx.ok()
        else:
            ctx.bad('element_operation_matrix', sg, only, err=float(np.max(np.abs(Emat - Mref))))
        # NodalOperation with the same (explicit) element matrix: complete matrix from impulses
        xin = np.zeros(out_shape)
        sx = pym.Signal('x', xin.copy())
        mN = pym.NodalOperation(sx, domain=dom, element_matrix=np.array(Bfull, copy=True))
        Nmat = np.zeros((n, Mref.shape[0]))
        okshape = True
        for c in range(Mref.shape[0]):
            imp = np.zeros(Mref.shape[0])
            imp[c] = 1.0
            col = np.asarray(_run(mN, sx, imp.reshape(out_shape)))
            ctx.ntrans += 1
            if col.shape != (n,):
                ctx.bad('nodal_operation_shape', sg, only, got=list(col.shape), want=[n])
                okshape = False
                break
            Nmat[:, c] = col
        if not okshape:
            continue
        ctx.nstates += 1
        if np.max(np.abs(Nmat - Emat.T)) <= tol:
            ctx.ok()
        else:
            ctx.bad('nodal_is_transpose_of_element', sg, only, err=float(np.max(np.abs(Nmat - Emat.T))))
        if np.max(np.abs(Nmat - Mref.T)) <= tol:
            ctx.ok()
        else:
            ctx.bad('nodal_operation_matrix', sg, only, err=float(np.max(np.abs(Nmat - Mref.T))))
        xg = np.array([np.cos(0.8 * i + 0.1) for i in range(Mref.shape[0])])
        ug = np.asarray(_run(mN, sx, xg.reshape(out_shape)))
        ctx.ntrans += 1
        if np.max(np.abs(ug - Mref.T @ xg)) <= tol * Mref.shape[0]:
            ctx.ok()
        else:
            ctx.bad('nodal_operation_generic', sg, only, err=float(np.max(np.abs(ug - Mref.T @ xg))))
