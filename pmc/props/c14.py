"""C14 -- the overhang filter prints layer by layer in the requested direction (E1 lattice explorer).

Every (grid, nsampling, parameter triple, print direction, density field) inside the bound is run through the real
``pymoto.OverhangFilter`` (forward response only) and judged by
  * agreement with the paper-formula reference ``pmc.refs.overhang`` (1e-4 absolute),
  * the clauses of the statement (base layer unchanged, overshoot bound, supported solid stays, unsupported removed),
  * every way of writing the same direction (vector variants, string spellings) against the unit-vector form,
  * covariance under every mirror and axis swap of the grid (needs no reference).
"""
import itertools
import math
import numpy as np
from pmc.refs import overhang as ro
from pmc.engine.tol import alg_err, exact_equal, mag

PROPERTY = 'C14'
RULE = ("lattice: every 2-D grid {1..4}^2 and 3-D grid {1..3}^3 (one-layer domains included) x nsampling (3 in 2-D; 5 "
        "and 9 in 3-D) x every triple (xi_0,p,eps) of the parameter table x every axis print direction (4 in 2-D, 6 in "
        "3-D) x every density field of the family: ALL 0/1 fields on grids up to the element bound, on larger grids "
        "all 0/1 fields with at most m solid or at most m void elements, plus the grey tables (generic irrational "
        "fractions, mixed 0/1/grey, ramps, near-solid, near-void). Each point is run with the direction given as unit "
        "3-vector and compared with the reference; on the mirrored / axis-swapped grid in the mapped direction for "
        "every mirror and swap (covariance; for the 0/1 families of the quick tier and of grids with more than 9 "
        "elements at the first parameter triple only); and -- for every field at the first (nsampling, parameter) "
        "point -- with every other way of writing the direction (int list, un-normalised array, short float tuple, "
        "2-long forms in 2-D; strings sign-before, sign-after, no sign, upper case) against the unit-vector form. A "
        "point is non-trivial if the domain has at least two layers in print direction (otherwise the filter is the "
        "identity); distinct by (grid, nsampling, parameters, direction, family, chunk)")
RULE += " Extended in seeding rounds 6-7:  designs given as int64/bool/uint8/float32 (first call or after a double-precision call), valid calls after a rejected one, the direction array neither modified nor followed."
ASSUMPTIONS = [
    "element numbering is x-fastest as documented for DomainDefinition (verified separately by C13)",
    "the paper formulas (P-Q smooth maximum with the nominal number of supports, eps smooth minimum) are the meaning of "
    "'Langelaar's scheme'; the implementation's safety shifts (~1e-6) are covered by the 1e-4 tolerance, which bounds "
    "the admissible exponent to p <= 40 in the parameter tables",
    "supports of an element: the 3 (2-D), 5 (3-D, face neighbours) or 9 (3-D, full 3x3 block) elements of the previous "
    "layer that lie inside the domain",
    "'unsupported' is read as: the whole support cone down to the base layer is void; 'fully supported solid' as: the "
    "element and everything straight below it down to the base layer has density exactly 1",
    "direction strings: lower-case axis letter with a sign before or after it are demanded (statement: '+x', 'y-'); a "
    "bare letter (= positive) and upper-case letters are judged only if the constructor accepts them (a ValueError for "
    "them is recorded as observed_only, not as a violation)",
    "the attribute module.direction is judged only if it exists and is a numeric 2- or 3-vector",
    "only the forward response is judged here (sensitivities: C01/C04; call-history independence: C03); one module "
    "object per direction form is reused for the fields of one case, as an optimisation loop would do",
    "math.sqrt / float power of the Python runtime as trusted kernels of the reference",
]

TOL_REF = 1e-4          # vs paper formulas (design: worst observed 3.2e-6)
TOL_SOLID = 1e-2        # fully supported solid stays >= 1 - TOL_SOLID
TOL_UNSUP = 1e-3        # unsupported material <= sqrt(eps)/2 + TOL_UNSUP
TOL_OVER = 1e-12        # rounding slack of y <= x + sqrt(eps)/2
CHUNK = 256

PARS = {
    'a0': (0.5, 40.0, 1e-4), 'a1': (0.3, 20.0, 1e-3), 'a2': (0.5, 10.0, 1e-2),
    'b1': (0.4, 30.0, 1e-3), 'b2': (0.6, 15.0, 1e-2),
    'c1': (0.25, 25.0, 4e-4), 'c2': (0.7, 12.0, 4e-3),
    'z0': (0.5, 40.0, 0.0),      # eps = 0 is documented as allowed (exact minimum)
}
PAR_TABLES = {0: ['a0', 'a1', 'a2', 'z0'], 1: ['a0', 'b1', 'b2', 'z0'], 2: ['a0', 'c1', 'c2', 'z0']}
GREY_ROOTS = {0: (2, 3, 5), 1: (7, 11, 13), 2: (17, 19, 23)}
GREY_NAMES = ['frac1', 'frac2', 'fracsq', 'mix3', 'mix4', 'half', 'ramp', 'rramp', 'nearsolid', 'nearvoid']


# ------------------------------------------------------------------ alphabets --------------------------------------
def all_grids():
    g = [(nx, ny, 0) for nx in range(1, 5) for ny in range(1, 5)]
    g += [(nx, ny, nz) for nx in range(1, 4) for ny in range(1, 4) for nz in range(1, 4)]
    g.sort(key=lambda t: (t[0] * t[1] * max(t[2], 1), 0 if t[2] == 0 else 1, t))
    return g


def ns_list(dim):
    return [3] if dim == 2 else [5, 9]


def dir_list(dim):
    return ['x+', 'x-', 'y+', 'y-'] + (['z+', 'z-'] if dim == 3 else [])


def grey_field(name, nel, tab):
    r1, r2, r3 = (math.sqrt(v) for v in GREY_ROOTS[tab])
    e = np.arange(nel, dtype=float)
    fr = lambda v: v - np.floor(v)  # noqa: E731
    if name == 'frac1':
        return fr((e + 1) * r1)
    if name == 'frac2':
        return fr((e + 1) * r2)
    if name == 'fracsq':
        return fr((e + 1) ** 2 * r3)
    if name == 'mix3':
        return np.where(e % 3 == 0, 0.0, np.where(e % 3 == 1, 1.0, fr((e + 1) * r1)))
    if name == 'mix4':
        return np.where(e % 4 == 0, 1.0, np.where(e % 4 == 1, fr((e + 1) * r2), np.where(e % 4 == 2, 0.0, 1.0)))
    if name == 'half':
        return np.full(nel, 0.5)
    if name == 'ramp':
        return e / (nel - 1) if nel > 1 else np.full(nel, 0.5)
    if name == 'rramp':
        return 1.0 - e / (nel - 1) if nel > 1 else np.full(nel, 0.5)
    if name == 'nearsolid':
        return 1.0 - 0.1 * fr((e + 1) * r3)
    if name == 'nearvoid':
        return 0.1 * fr((e + 1) * r2)
    raise KeyError(name)


def few_fields(nel, m):
    """All 0/1 fields with at most m solid elements, then all with at most m void elements (no duplicates)."""
    seen, out = set(), []
    for comp in (False, True):
        for k in range(m + 1):
            for pos in itertools.combinations(range(nel), k):
                x = np.zeros(nel)
                x[list(pos)] = 1.0
                if comp:
                    x = 1.0 - x
                key = x.tobytes()
                if key not in seen:
                    seen.add(key)
                    out.append(x)
    return out


def family_size(fam, nel, m=None):
    if fam == 'bin':
        return 2 ** nel
    if fam == 'few':
        return len(few_fields(nel, m))
    return len(GREY_NAMES)


def select_fields(case, nel):
    fam = case['fam']
    if fam == 'grey':
        allf = [(f"{n}@{t}", grey_field(n, nel, t)) for t in case.get('tabs', [0]) for n in GREY_NAMES]
        idx = list(range(len(allf)))
    elif fam == 'few':
        ff = few_fields(nel, case['m'])
        allf = [(f"few{k}", f) for k, f in enumerate(ff)]
        idx = list(range(len(allf)))
    elif fam == 'bin':
        allf = None
        idx = list(range(2 ** nel))
    else:
        raise KeyError(fam)
    if case.get('chunk') is not None:
        s, c = case['chunk']
        idx = idx[s:s + c]
    out = []
    for k in idx:
        if allf is None:
            out.append((k, f"bin{k}", np.array([(k >> e) & 1 for e in range(nel)], dtype=float)))
        else:
            out.append((k, allf[k][0], allf[k][1]))
    return out


def direction_forms(axis, sgn, dim):
    """name -> (constructor argument, kind, demanded).  kind: 'vector' | 'string'."""
    u = ro.unit_vector(axis, sgn)
    L = 'xyz'[axis]
    sg = '+' if sgn > 0 else '-'
    f = {}
    f['vec_int_list'] = ([int(v) for v in u], 'vector', True)
    f['vec_scaled_array'] = (np.array(u) * 2.5, 'vector', True)
    f['vec_small_tuple'] = (tuple(0.25 * v for v in u), 'vector', True)
    if dim == 2:
        f['vec_len2_tuple'] = (tuple(int(v) for v in u[:2]), 'vector', True)
        f['vec_len2_array'] = (np.array(u[:2]) * 3.0, 'vector', True)
    for spell, demanded in [(sg + L, True), (L + sg, True), (sg + L.upper(), False), (L.upper() + sg, False)]:
        f['str:' + spell] = (spell, 'string', demanded)
    if sgn > 0:
        f['str:' + L] = (L, 'string', False)
        f['str:' + L.upper()] = (L.upper(), 'string', False)
    return f


def string_sign(spell):
    return '-' if '-' in spell else ('+' if '+' in spell else 'none')


# ------------------------------------------------------------------ enumeration ------------------------------------
def bounds(tier, seed):
    t = int(seed) % 3
    if tier == 'quick':
        return {'grids_2d': '{1..4}x{1..4}', 'grids_3d': '{1..3}^3', 'nsampling': {'2d': [3], '3d': [5, 9]},
                'parameters': {k: PARS[k] for k in PAR_TABLES[t]}, 'all_binary_fields_up_to_nel': {'2d': 9, '3d': 8},
                'covariance_maps': 'all mirrors and swaps at the first parameter triple (every nsampling) and for '
                                   'the grey tables at every triple',
                'larger_grids_binary_with_at_most_m_solid_or_void': 1, 'grey_tables': [t],
                'grey_fields_per_table': len(GREY_NAMES), 'directions': 'all 4 (2-D) / 6 (3-D)',
                'direction_forms': 'unit 3-vector + 3..5 vector variants + 4..6 string spellings'}
    return {'grids_2d': '{1..4}x{1..4}', 'grids_3d': '{1..3}^3', 'nsampling': {'2d': [3], '3d': [5, 9]},
            'parameters_binary_families': {k: PARS[k] for k in PAR_TABLES[t]},
            'parameters_grey_families': PARS, 'all_binary_fields_up_to_nel': {'2d': 12, '3d': 12},
            'covariance_maps': 'all mirrors and swaps: at every point for grids up to 9 elements and for the grey '
                               'tables; at the first parameter triple (every nsampling) for the 0/1 families of '
                               'larger grids',
            'larger_grids_binary_with_at_most_m_solid_or_void': 2, 'grey_tables': [0, 1, 2],
            'grey_fields_per_table': len(GREY_NAMES), 'directions': 'all 4 (2-D) / 6 (3-D)',
            'direction_forms': 'unit 3-vector + 3..5 vector variants + 4..6 string spellings'}


def generate(tier, seed):
    t = int(seed) % 3
    quick = tier == 'quick'
    nbin2, nbin3 = (9, 8) if quick else (12, 12)
    m = 1 if quick else 2
    pars_bin = PAR_TABLES[t]
    pars_grey = pars_bin if quick else sorted(PARS)
    tabs = [t] if quick else [0, 1, 2]
    # thorough: levels of growing cost; the exhaustive 10..12-element level is by far the dearest and comes last, so
    # that a run capped by the time budget has still visited every grid size (the larger ones with restricted fields)
    levels = [(1, 4, 'nel<=4'), (5, 6, 'nel<=6'), (7, 9, 'nel<=9'), (13, 10 ** 9, 'nel>12 (restricted 0/1 families)'),
              (10, 12, 'nel 10..12 (all 0/1 fields)')]
    order = all_grids()
    if not quick:
        lev_of = lambda g: next(i for i, (lo, hi, _) in enumerate(levels)  # noqa: E731
                                if lo <= g[0] * g[1] * max(g[2], 1) <= hi)
        order.sort(key=lev_of)      # stable: simplest first inside a level
    cur = -1
    if not quick:
        yield {'__level__': 'design dtypes and rejected calls'}
    for g in all_grids():
        dim = 3 if g[2] > 0 else 2
        for d in dir_list(dim):
            yield {'grid': list(g), 'ns': ns_list(dim)[0], 'par': pars_bin[0], 'dir': d, 'fam': 'dtype', 'tab': t}
    for g in order:
        nel = g[0] * g[1] * max(g[2], 1)
        dim = 3 if g[2] > 0 else 2
        if not quick:
            lv = lev_of(g)
            if lv != cur:
                cur = lv
                yield {'__level__': levels[lv][2]}
        if nel <= (nbin2 if dim == 2 else nbin3):
            fam, extra, n = 'bin', {}, 2 ** nel
        else:
            fam, extra, n = 'few', {'m': m}, family_size('few', nel, m)
        for ins, ns in enumerate(ns_list(dim)):
            for par in pars_grey:
                for d in dir_list(dim):
                    base = {'grid': list(g), 'ns': ns, 'par': par, 'dir': d}
                    forms = 'all' if (ins == 0 and par == pars_bin[0]) else 'none'
                    maps = 'all' if ((not quick and nel <= 9) or par == pars_bin[0]) else 'none'
                    for s in (range(0, n, CHUNK) if par in pars_bin else ()):
                        yield dict(base, fam=fam, chunk=[s, min(CHUNK, n - s)], forms=forms, maps=maps, **extra)
                    yield dict(base, fam='grey', tabs=tabs, forms=forms, maps='all')


# ------------------------------------------------------------------ execution --------------------------------------
class Impl:
    """One real OverhangFilter on one grid with one way of giving the direction."""

    def __init__(self, pym, grid, direction, ns, par):
        xi0, p, eps = PARS[par]
        self.dom = pym.DomainDefinition(int(grid[0]), int(grid[1]), int(grid[2]))
        self.sig = pym.Signal('x', np.zeros(self.dom.nel))
        self.mod = pym.OverhangFilter(self.sig, domain=self.dom, direction=direction, nsampling=ns, xi_0=xi0, p=p,
                                      eps=eps)

    def __call__(self, x):
        self.sig.state = np.array(x, dtype=float, copy=True)
        self.mod.response()
        return np.array(self.mod.sig_out[0].state, dtype=float, copy=True)

    def raw(self, arr):
        """Response for the array as it is (own dtype and size); the output as float64."""
        self.sig.state = arr.copy()
        self.mod.response()
        return np.array(self.mod.sig_out[0].state, dtype=float, copy=True)

    def direction_attribute(self):
        """3-vector stored by the module, or None if it cannot be judged."""
        d = getattr(self.mod, 'direction', None)
        try:
            d = np.asarray(d, dtype=float).flatten()
        except Exception:
            return None
        if d.size not in (2, 3) or not np.all(np.isfinite(d)):
            return None
        return np.pad(d, (0, 3 - d.size))


DTYPES = ['int64', 'bool', 'uint8', 'float32']


def execute_dtype(case, pym, grid, dim, shape, nel, axis, sgn):
    """The same designs given in another numeric type, and valid calls after a rejected one.

    A 0/1 field stored as integers or booleans, or any field stored in single precision, is a density field in [0,1]:
    the result has to be the one for the same numbers in double precision, whatever the module object was given
    before (first call in that type, or after a double-precision call), and a double-precision call afterwards is
    not affected either.  A call that is rejected (design of the wrong size) must leave the object usable."""
    ns, par, dname = case['ns'], case['par'], case['dir']
    xi0, p, eps = PARS[par]
    sign = '+' if sgn > 0 else '-'
    direction = tuple(ro.unit_vector(axis, sgn))
    canon = Impl(pym, grid, direction, ns, par)
    nlay = ro.n_layers(shape, axis)
    binf = [(f"few{k}", f) for k, f in enumerate(few_fields(nel, 1))]
    grey = [(f"{n}@{case['tab']}", grey_field(n, nel, case['tab'])) for n in GREY_NAMES]
    other = grey[0][1]
    yother = canon(other)
    V, cnt, outc = {}, {'checks': 0, 'trans': 0}, set()

    def report(check, sig, detail, dt, label, score=0.0):
        s = dict(sig, check=check)
        key = repr(sorted(s.items()))
        if key not in V or score > V[key][0]:
            V[key] = (score, {'check': check, 'signature': s, 'detail': detail,
                              'case': dict(case, only=[dt, label])})

    only = case.get('only')
    for dt in DTYPES:
        fields = (binf if dt != 'float32' else binf + grey)
        for primed in (False, True):
            im = Impl(pym, grid, direction, ns, par)
            if primed:
                im(other)
            for label, x in fields:
                if only and [dt, label] != list(only):
                    continue
                xd = x.astype(dt)
                yexp = canon(xd.astype(float))
                hist = ('float64 call, ' if primed else '') + f'{dt} call'
                sg = {'dtype': dt, 'first_call': 'double' if primed else dt, 'sign': sign}
                cnt['trans'] += 2
                cnt['checks'] += 2
                try:
                    y = im.raw(xd)
                except Exception as exc:  # noqa
                    outc.add(f'{dt}:raises')
                    report('dtype_raises', dict(sg, raised=type(exc).__name__),
                           {'history': hist, 'design': xd, 'error': f"{type(exc).__name__}: {exc}"[:300],
                            'expected (double precision)': yexp}, dt, label)
                    y = None
                if y is not None:
                    e, b = alg_err(y, yexp, scale=1.0)
                    if y.shape != yexp.shape or not e <= max(b, 1e-6 if dt == 'float32' else 0.0):
                        outc.add(f'{dt}:differs')
                        report('dtype_result', sg, {'history': hist, 'design': xd, 'got': y,
                                                    'expected (double precision)': yexp, 'max_abs_diff': e},
                               dt, label, score=e if np.isfinite(e) else 1e300)
                    else:
                        outc.add(f'{dt}:same')
                try:
                    y2 = im(other)
                    e, b = alg_err(y2, yother, scale=1.0)
                    ok = bool(e <= b)
                except Exception as exc:  # noqa
                    y2, e, ok = f"{type(exc).__name__}: {exc}"[:300], float('inf'), False
                if not ok:
                    report('double_after_other_dtype', sg,
                           {'history': hist + ', float64 call', 'design_of_the_last_call': other, 'got': y2,
                            'expected': yother, 'max_abs_diff': e}, dt, label, score=1.0)
    # rejected call, then valid calls
    for rej in ('one_too_long', 'one_too_short', 'empty'):
        bad = {'one_too_long': np.zeros(nel + 1), 'one_too_short': np.zeros(max(nel - 1, 0)), 'empty': np.zeros(0)}[rej]
        if only and list(only) != ['rejected', rej]:
            continue
        if bad.size == nel:
            continue
        im = Impl(pym, grid, direction, ns, par)
        cnt['trans'] += 1
        try:
            im.raw(bad)
            outc.add('wrong size accepted')
            continue            # not rejected: nothing to judge here
        except Exception:  # noqa
            outc.add('wrong size rejected')
        for label, x in grey[:3]:
            cnt['trans'] += 1
            cnt['checks'] += 1
            yexp = canon(x)
            try:
                y = im(x)
                e, b = alg_err(y, yexp, scale=1.0)
                ok = bool(e <= b)
            except Exception as exc:  # noqa
                y, e, ok = f"{type(exc).__name__}: {exc}"[:300], float('inf'), False
            if not ok:
                report('after_rejected_call', {'rejected': 'wrong_size', 'sign': sign},
                       {'history': f'response() with a design of size {bad.size} (raised), response() with a valid '
                                   f'design', 'design': x, 'got': y, 'expected (fresh object)': yexp}, 'rejected', rej)
    return {'states': cnt['trans'], 'transitions': cnt['trans'], 'checks': cnt['checks'], 'nontrivial': nlay >= 2,
            'key': f"{grid}|{dname}|dtype", 'outcome': f"{dim}d/dtype/" + ','.join(sorted(outc)),
            'observed_only': [], 'violations': [v for _, v in V.values()]}


def execute(case):
    import pymoto as pym
    grid = tuple(int(v) for v in case['grid'])
    dim = 3 if grid[2] > 0 else 2
    shape = (grid[0], grid[1], max(grid[2], 1))
    nel = shape[0] * shape[1] * shape[2]
    ns, par, dname = case['ns'], case['par'], case['dir']
    xi0, p, eps = PARS[par]
    if not ro.admissible(dim, ns, xi0, p, eps):
        return {'skipped': 'inadmissible (dim, nsampling, xi_0, p, eps)'}
    axis, sgn = ro.DIRS[dname]
    if axis >= dim:
        return {'skipped': 'z direction on a 2-D domain'}
    sign = '+' if sgn > 0 else '-'
    if case['fam'] == 'dtype':
        return execute_dtype(case, pym, grid, dim, shape, nel, axis, sgn)
    fields = select_fields(case, nel)
    nlay = ro.n_layers(shape, axis)
    base = ro.base_layer(shape, dim, axis, sgn)

    V = {}
    cnt = {'checks': 0, 'trans': 0}
    observed = set()

    def narrowed(k=None, form=None, mp=None):
        c = dict(case)
        if k is not None:
            c['chunk'] = [int(k), 1]
        c['forms'] = [form] if form else 'none'
        c['maps'] = [mp] if mp else 'none'
        return c

    def report(check, sig, detail, ncase, score=0.0):
        """One violation per signature and case: the sub-point with the largest deviation (first one on ties)."""
        s = dict(sig, check=check)
        key = repr(sorted(s.items()))
        if key not in V or score > V[key][0]:
            V[key] = (score, {'check': check, 'signature': s, 'detail': detail, 'case': ncase})

    # ---- the implementations of this case -------------------------------------------------------------------------
    impls = {}

    def unit_impl(g, ax, sg):
        """The filter on grid g with the direction given as unit 3-vector (one object per (grid, direction))."""
        if (g, ax, sg) not in impls:
            impls[(g, ax, sg)] = Impl(pym, g, tuple(ro.unit_vector(ax, sg)), ns, par)
        return impls[(g, ax, sg)]

    canon = unit_impl(grid, axis, sgn)
    want_dir = np.array(ro.unit_vector(axis, sgn))
    cnt['checks'] += 1
    got = canon.direction_attribute()
    if got is None:
        observed.add('module.direction not a numeric 2/3-vector: attribute not judged')
    elif np.max(np.abs(got - want_dir)) > 1e-12:
        report('direction_attribute', {'form': 'vector', 'sign': sign},
               {'given': list(ro.unit_vector(axis, sgn)), 'module.direction': got, 'expected': want_dir},
               narrowed(fields[0][0] if fields else None))

    sel = case.get('forms', 'all')
    forms = {}
    if sel != 'none':
        for name, (arg, kind, demanded) in direction_forms(axis, sgn, dim).items():
            if sel != 'all' and name not in sel:
                continue
            if kind == 'string':
                assert ro.parse_direction(arg) == (axis, sgn), (arg, axis, sgn)
            chk = 'string_direction' if kind == 'string' else 'vector_direction'
            sg = {'sign': string_sign(arg)} if kind == 'string' else {'variant': name, 'sign': sign}
            cnt['checks'] += 1
            arg_before = np.array(arg, copy=True) if isinstance(arg, np.ndarray) else None
            try:
                im = Impl(pym, grid, arg, ns, par)
            except Exception as exc:  # noqa
                if not demanded and isinstance(exc, ValueError):
                    observed.add(f"constructor rejects the {'bare' if string_sign(arg) == 'none' else 'upper-case'} "
                                 f"spelling with ValueError (not demanded by the statement)")
                    continue
                report(chk, dict(sg, raised=type(exc).__name__),
                       {'direction_given': arg, 'error': f"{type(exc).__name__}: {exc}"[:300]},
                       narrowed(fields[0][0] if fields else None, form=name))
                continue
            if arg_before is not None:
                # the array handed to the constructor is the caller's: it is neither modified nor followed afterwards
                cnt['checks'] += 1
                if not exact_equal(arg, arg_before):
                    report('direction_argument_modified', {'variant': name, 'sign': sign},
                           {'direction_given': arg_before, 'array_after_construction': arg.copy()},
                           narrowed(fields[0][0] if fields else None, form=name))
                    arg[...] = arg_before
                keep = arg            # the filter below must keep printing in the direction given at construction ...
                arg = arg_before.copy()
                other = np.roll(arg_before, 1) * -1.0
                keep[...] = other     # ... although the caller re-uses the array for another direction
            forms[name] = (im, arg, kind, chk, sg)
            got = im.direction_attribute()
            cnt['checks'] += 1
            if got is not None and np.max(np.abs(got - want_dir)) > 1e-12:
                report('direction_attribute', {'form': kind, 'sign': sg['sign']},
                       {'direction_given': arg, 'module.direction': got, 'expected': want_dir},
                       narrowed(fields[0][0] if fields else None, form=name))

    selm = case.get('maps', 'all')
    maps = []
    if selm != 'none':
        for mp in ro.grid_maps(dim):
            name = ro.map_name(mp)
            if selm != 'all' and name not in selm:
                continue
            tshape = ro.map_shape(mp, shape)
            tgrid = (tshape[0], tshape[1], tshape[2] if dim == 3 else 0)
            taxis, tsgn = ro.map_direction(mp, axis, sgn)
            perm = np.array(ro.map_permutation(mp, shape), dtype=int)
            role = 'print' if axis in mp[1] else 'orth'
            maps.append((name, mp[0] + '_' + role, perm, ro.DIR_NAME[(taxis, tsgn)], unit_impl(tgrid, taxis, tsgn)))

    # ---- every field ----------------------------------------------------------------------------------------------
    maxerr, maxrem, maxover = 0.0, 0, -1.0
    half = math.sqrt(eps) / 2
    for k, label, x in fields:
        y = canon(x)
        cnt['trans'] += 1
        if y.shape != (nel,) or not np.all(np.isfinite(y)):
            report('output_shape_finite', {'sign': sign, 'ns': ns}, {'field': x, 'got': y}, narrowed(k))
            continue
        yref = np.array(ro.overhang(shape, dim, x.tolist(), axis, sgn, ns, xi0, p, eps))
        err = float(np.max(np.abs(y - yref)))
        maxerr = max(maxerr, err)
        maxrem = max(maxrem, int(np.sum(y < x - 0.5)))
        cnt['checks'] += 5
        if err > TOL_REF:
            e = int(np.argmax(np.abs(y - yref)))
            report('reference', {'sign': sign, 'ns': ns},
                   {'field': x, 'got': y, 'reference': yref, 'max_abs_diff': err, 'element': e, 'tol': TOL_REF,
                    'parameters': [xi0, p, eps]}, narrowed(k), score=err)
        if not exact_equal(y[base], x[base]):
            report('base_layer', {'sign': sign}, {'field': x, 'got': y, 'base_layer_elements': base}, narrowed(k))
        over = float(np.max(y - x))
        maxover = max(maxover, over)
        if over > half + TOL_OVER:
            report('overshoot', {'sign': sign},
                   {'field': x, 'got': y, 'max_y_minus_x': over, 'bound_sqrt_eps_half': half}, narrowed(k))
        sup_solid, unsup = ro.classify(shape, dim, x.tolist(), axis, sgn, ns)
        if sup_solid and float(np.min(y[sup_solid])) < 1.0 - TOL_SOLID:
            report('supported_solid', {'sign': sign},
                   {'field': x, 'got': y, 'supported_solid_elements': sup_solid, 'min': float(np.min(y[sup_solid]))},
                   narrowed(k))
        if unsup and float(np.max(y[unsup])) > half + TOL_UNSUP:
            report('unsupported_removed', {'sign': sign},
                   {'field': x, 'got': y, 'unsupported_elements': unsup, 'max': float(np.max(y[unsup])),
                    'bound': half + TOL_UNSUP}, narrowed(k))

        for name, (im, arg, kind, chk, sg) in forms.items():
            yf = im(x)
            cnt['trans'] += 1
            cnt['checks'] += 1
            e, b = alg_err(yf, y, scale=1.0)
            if not e <= b:
                report(chk, sg, {'direction_given': arg, 'same_direction_as_vector': list(want_dir), 'field': x,
                                 'got': yf, 'got_with_vector_form': y, 'max_abs_diff': e,
                                 'module.direction': im.direction_attribute()}, narrowed(k, form=name), score=e)
        for name, role, perm, tdir, im in maps:
            xt = np.zeros(nel)
            xt[perm] = x
            yt = im(xt)
            cnt['trans'] += 1
            cnt['checks'] += 1
            yexp = np.zeros(nel)
            yexp[perm] = y
            e, b = alg_err(yt, yexp, scale=1.0)
            if not e <= b:
                report('covariance', {'map': role},
                       {'map': name, 'direction': dname, 'mapped_direction': tdir, 'field': x, 'result': y,
                        'mapped_field': xt, 'result_on_mapped_field': yt, 'mapped_result': yexp, 'max_abs_diff': e},
                       narrowed(k, mp=name), score=e)

    chunk = case.get('chunk')
    key = f"{grid}|ns{ns}|{par}|{dname}|{case['fam']}{case.get('tabs', '')}|{chunk}"
    outcome = (f"{dim}d/{dname}/ns{ns}/layers{'1' if nlay == 1 else '>1'}/err{mag(maxerr)}/removed{min(maxrem, 3)}"
               f"/over{mag(max(maxover, 0.0))}")
    return {'states': len(fields), 'transitions': cnt['trans'], 'checks': cnt['checks'], 'nontrivial': nlay >= 2,
            'key': key, 'outcome': outcome, 'observed_only': sorted(observed), 'violations': [v for _, v in V.values()]}
