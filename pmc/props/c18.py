"""C18 -- signals and slices alias state, isolate accumulations and reset cleanly.

E2 explicit-state BFS on real Signal/SignalSlice objects with pmc.refs.signal.SigModel in lock-step.
A state is reached by replaying its operation path on FRESH objects; two paths are merged only when the complete
internal state (state bytes, sensitivity bytes/None of main and auxiliary signal) is identical."""
import numpy as np
from pmc.refs.signal import SigModel, SliceRef
from pmc.engine.tol import alg_close, exact_equal

PROPERTY = 'C18'
RULE = ("explicit-state BFS: bases {float(4,), float(2,3), float(2,2,2), complex(3,), python float} x {no initial sensitivity, "
        "initial zero sensitivity (keep_alloc)}; slices: basic, stepped, integer, integer array, tuple of slices, tuple of "
        "integer arrays, tuple mixing a slice with an integer array, nested basic; ~40 operations per base (assign state / sensitivity through base or slice, "
        "add_sensitivity with None / fresh array (mutated afterwards by the harness) / same object twice / same object "
        "to two signals, reset(default|keep|drop) on base, reset on slices); every operation is compared with the model "
        "through the base AND every slice; a state is distinct by full byte content; non-trivial = a sensitivity exists")
RULE += " Extended in seeding rounds 6-7:  sensitivity arrays with inf/nan entries, slice sensitivity assigned a view of other entries of its base."
ASSUMPTIONS = ["pymoto.core_objects.get_init_str (diagnostic source-location string, costs ~0.5 ms per object via "
               "inspect.stack) is replaced from outside by a constant during this check; it does not take part in the "
               "semantics under test",
               "index arrays without repeats (as in the property statement)",
               "assigning an array with `sig.sensitivity = arr` may alias arr (that is how keep_alloc is meant to work); "
               "only add_sensitivity must not alias"]

SL = np.s_
BASES = {
    'v4': dict(state=lambda: np.array([1., 2., 3., 4.]),
               slices={'a': [SL[1:3]], 'b': [SL[::2]], 'f': [np.array([0, 2])], 'i': [2], 'n': [SL[1:4], SL[0:2]],
                       'r': [SL[::-2]],
                       # slices that select ALL entries of the base in another order
                       'R': [SL[::-1]], 'P': [np.array([2, 0, 3, 1])]}),
    'm23': dict(state=lambda: np.arange(1., 7.).reshape(2, 3),
                slices={'r': [SL[0, :]], 'c': [SL[:, 1:]], 't': [(slice(0, 2), slice(0, 2))],
                        'f': [(np.array([0, 1]), np.array([2, 0]))], 'e': [SL[1, 2]], 'n': [SL[:, 1:], SL[1, :]],
                        'x': [(slice(None), np.array([2, 0]))], 'y': [(np.array([1, 0]), slice(1, 3))],
                        'X': [(slice(None), slice(None, None, -1))]}),
    'c3': dict(state=lambda: np.array([1 + 1j, 2 - 1j, 0.5j]),
               slices={'a': [SL[0:2]], 'f': [np.array([2, 0])], 'i': [1]}),
    't222': dict(state=lambda: np.arange(1., 9.).reshape(2, 2, 2),
                 slices={'a': [0], 'b': [SL[:, 1, :]], 'f': [(np.array([0, 1]), np.array([1, 0]), np.array([0, 0]))],
                         'x': [(slice(None), np.array([1, 0]), slice(0, 1))], 'e': [SL[..., 1]]}),
    's': dict(state=lambda: 2.5, slices={}),
    # sensitivities that are DyadCarrier objects (the documented sensitivity type of a sparse-matrix signal); the model
    # holds their dense value
    'dy': dict(state=lambda: np.arange(1., 10.).reshape(3, 3), slices={}),
    # 0-d arrays (what indexing with [..., 0] or a reduction with keepdims hands over): mutable, unlike python scalars
    'z0': dict(state=lambda: np.array(2.5), slices={}),
}
# a longer vector with two DIFFERENT index arrays of more than four entries (and a short one) on the same signal
BASES['v8'] = dict(state=lambda: np.arange(1., 9.),
                   slices={'g': [np.array([0, 2, 4, 6, 7])], 'h': [np.array([1, 3, 5, 7, 0])], 'k': [np.array([7, 1])]})
# the same bases with every sensitivity value of order 1e-9 (judged relative to 1e-9)
BASES['v4t'] = dict(BASES['v4'], slices={k: BASES['v4']['slices'][k] for k in ('a', 'f', 'n', 'r')})
BASES['m23t'] = dict(BASES['m23'], slices={k: BASES['m23']['slices'][k] for k in ('t', 'f', 'x')})
# the same vector with non-finite entries (inf, nan) in every sensitivity array that is assigned or added: what an
# overflowed sensitivity sweep leaves behind; reset has to clear them like any other value
BASES['v4n'] = dict(BASES['v4'], slices={k: BASES['v4']['slices'][k] for k in ('a', 'f', 'R')})
BASES['c3n'] = dict(BASES['c3'], slices={k: BASES['c3']['slices'][k] for k in ('a', 'f')})
NONFINITE = ('v4n', 'c3n')
UNIT = {'v4t': 1e-9, 'm23t': 1e-9}
SEED_CONST = [0.0, 0.5, -1.25, 2.0]


def value(kind, what, shape, seed, cplx):
    """deterministic 'generic' values: depends on operation kind only (so equal operations merge states)."""
    base = {'setS': 7.5, 'setG': 2.0, 'add': 1.0, 'twice': 3.0, 'shared': -4.0, 'newS': 10.0}[what] + SEED_CONST[seed % 4]
    unit = UNIT.get(kind, 1.0)
    if shape is None:
        return base * unit
    n = int(np.prod(shape)) if len(shape) else 1
    v = base + 0.25 * np.arange(n).reshape(shape)
    if cplx:
        v = v + 1j * (0.5 + 0.125 * np.arange(n).reshape(shape))
    if kind in NONFINITE and what in ('setG', 'add'):
        v = v.copy()
        v.flat[0] = np.inf
        if n > 2:
            v.flat[2] = np.nan
    return v * unit


REDUCED = {'v4n': ['a', 'f', 'R'], 'c3n': ['a', 'f'], 'v4': ['a', 'f', 'n', 'R'], 'm23': ['t', 'f', 'x', 'X'], 'c3': ['a', 'f'], 't222': ['b', 'x'], 's': [], 'dy': [], 'z0': [],
           'v4t': ['a', 'f', 'n'], 'm23t': ['t', 'f', 'x'], 'v8': ['g', 'h']}


def as_dyad(v):
    """DyadCarrier whose dense value is v = base + 0.25*arange(9).reshape(3,3)  (rank 2: two dyads)"""
    from pymoto import DyadCarrier
    one, idx = np.ones(3), np.arange(3.)
    base = v[0, 0]
    d = DyadCarrier([base * one + 0.75 * idx, one.copy()], [one.copy(), 0.25 * idx])
    assert np.array_equal(d.todense(), v)
    return d


def dense(x):
    return x.todense() if hasattr(x, 'todense') else x


def alphabet(kind, reduced=False):
    sl = list(BASES[kind]['slices'])
    if reduced:
        sl = REDUCED[kind]
    ops = []
    if kind == 'dy':
        return ([['setG', 'base', v] for v in ('none', 'array')] + [['add', 'base', h] for h in ('fresh', 'none', 'twice', 'shared')]
                + [['reset', 'base', ka] for ka in ('default', 'keep', 'drop')])
    for t in ['base'] + sl:
        ops.append(['setS', t, 'array'])
        if t != 'base':
            ops.append(['setS', t, 'scalar'])
        for v in ('none', 'scalar', 'array'):
            if t == 'base' and v == 'scalar':
                continue
            ops.append(['setG', t, v])
        if t != 'base' and kind in ('v4', 'c3', 'v8', 'v4n') and np.ndim(BASES[kind]['state']()[BASES[kind]['slices'][t][0]]) == 1 \
                and len(BASES[kind]['slices'][t]) == 1:
            ops.append(['setG', t, 'other_part'])
        for how in ('fresh', 'none', 'twice', 'shared', 'zero'):
            ops.append(['add', t, how])
        if t == 'base':
            for ka in ('default', 'keep', 'drop'):
                ops.append(['reset', t, ka])
        else:
            ops.append(['reset', t, 'default'])
    # simplest first: operations on the base, then slices
    return ops


_REFS = {}


class World:
    """Real objects + model + harness-held arrays."""

    def __init__(self, kind, with_sens, seed):
        import pymoto as pym
        import pymoto.core_objects as co
        co.get_init_str = lambda: 'pmc'
        self.kind, self.seed = kind, seed
        S0 = BASES[kind]['state']()
        self.cplx = np.iscomplexobj(S0)
        self.dyad = kind == 'dy'
        self.scalar = not isinstance(S0, np.ndarray)
        g0 = None
        if with_sens:
            g0 = 0.0 if self.scalar else np.zeros_like(S0)
        gi = g0
        if self.dyad and with_sens:
            gi = pym.DyadCarrier(shape=(3, 3))
        self.sig = pym.Signal('s', state=S0 if self.scalar else S0.copy(), sensitivity=gi)
        self.aux = pym.Signal('b', state=S0 if self.scalar else S0.copy())
        self.m = SigModel(S0, None if g0 is None else (g0 if self.scalar else g0.copy()))
        self.ma = SigModel(S0, None)
        self.sl, self.asl, self.ref = {}, {}, {}
        shape = () if self.scalar else S0.shape
        for name, chain in BASES[kind]['slices'].items():
            s, a = self.sig, self.aux
            for c in chain:
                s, a = s[c], a[c]
            self.sl[name], self.asl[name] = s, a
            ck = (kind, name)
            if ck not in _REFS:
                _REFS[ck] = SliceRef(shape, chain)
            self.ref[name] = _REFS[ck]
        self.held = []

    def tshape(self, t):
        if self.scalar:
            return None
        return self.m.S.shape if t == 'base' else self.ref[t].shape

    def hold(self, obj):
        if isinstance(obj, np.ndarray):
            obj += 1000.0          # the harness changes what it passed: must not reach the signal
            self.held.append((obj, obj.copy()))
        elif self.dyad:
            obj.add_dyad(np.ones(3), 1000.0 * np.ones(3))
            self.held.append((obj, obj.todense()))

    def apply(self, op):
        kind, t, arg = op
        shp = self.tshape(t)
        if kind == 'setS':
            v = value(self.kind, 'newS' if t == 'base' else 'setS', shp if arg == 'array' else None, self.seed, self.cplx)
            if t == 'base':
                self.sig.state = v if self.scalar else np.array(v)
                self.m.set_state(v)
            else:
                self.sl[t].state = v if not isinstance(v, np.ndarray) else np.array(v)
                self.m.sl_set_state(self.ref[t], v)
        elif kind == 'setG' and arg == 'other_part':
            # the slice's sensitivity is assigned a VIEW of other entries of the base signal's own sensitivity (mirroring
            # or copying between parts of one signal); enabled once the base holds an array sensitivity
            g = self.sig.sensitivity
            if self.m.G is None or not isinstance(g, np.ndarray) or len(shp) != 1 or g.ndim != 1:
                return
            n = shp[0]
            want = np.array(self.m.G)[::-1][:n].copy()
            self.sl[t].sensitivity = g[::-1][:n]
            self.m.sl_set_sens(self.ref[t], want)
        elif kind == 'setG':
            v = None if arg == 'none' else value(self.kind, 'setG', shp if arg == 'array' else None, self.seed, self.cplx)
            if t == 'base':
                obj = v if not isinstance(v, np.ndarray) else (as_dyad(v) if self.dyad else np.array(v))
                self.sig.sensitivity = obj
                self.m.set_sens(v)
            else:
                self.sl[t].sensitivity = v if not isinstance(v, np.ndarray) else np.array(v)
                self.m.sl_set_sens(self.ref[t], v)
        elif kind == 'add':
            if arg == 'none':
                (self.sig if t == 'base' else self.sl[t]).add_sensitivity(None)
                return
            what = {'fresh': 'add', 'twice': 'twice', 'shared': 'shared', 'zero': 'add'}[arg]
            v = value(self.kind, what, shp, self.seed, self.cplx)
            if arg == 'zero':      # an all-zero contribution is a contribution (it allocates the sensitivity)
                v = np.zeros_like(v) if isinstance(v, np.ndarray) else v * 0
            if isinstance(v, np.ndarray) and v.ndim == 0 and self.kind != 'z0':
                v = v.item()
            obj = (as_dyad(v) if self.dyad else np.array(v)) if (isinstance(v, np.ndarray) or self.kind == 'z0') else v
            tgt = self.sig if t == 'base' else self.sl[t]
            reps = 2 if arg == 'twice' else 1
            for _ in range(reps):
                tgt.add_sensitivity(obj)
                if t == 'base':
                    self.m.add_sens(v)
                else:
                    self.m.sl_add_sens(self.ref[t], v)
            if arg == 'shared':
                atgt = self.aux if t == 'base' else self.asl[t]
                atgt.add_sensitivity(obj)
                if t == 'base':
                    self.ma.add_sens(v)
                else:
                    self.ma.sl_add_sens(self.ref[t], v)
                # accumulate once more into the main signal: must not leak into aux or obj
                tgt.add_sensitivity(obj)
                if t == 'base':
                    self.m.add_sens(v)
                else:
                    self.m.sl_add_sens(self.ref[t], v)
            self.hold(obj)
        elif kind == 'reset':
            if t == 'base':
                if arg == 'default':
                    self.sig.reset()
                    self.m.reset()
                else:
                    self.sig.reset(keep_alloc=(arg == 'keep'))
                    self.m.reset(arg == 'keep')
            else:
                self.sl[t].reset()
                self.m.sl_reset(self.ref[t])

    # ---- comparison ----
    def _cmp(self, got, want, what, exact=False):
        if want is None or got is None:
            return None if (want is None and got is None) else f'{what}:noneness'
        g, w = np.asarray(dense(got)), np.asarray(want)
        if g.shape != w.shape:
            return f'{what}:shape'
        if (g.dtype.kind == 'c') != (w.dtype.kind == 'c'):
            return f'{what}:kind'
        if exact:
            ok = bool((g == w).all())
        elif self.kind in NONFINITE:
            # entries that are not finite in the model must be not finite in the same way (component-wise nan / +-inf);
            # all other entries as usual
            gc, wc = np.asarray(g, dtype=complex), np.asarray(w, dtype=complex)
            ok = True
            for gp, wp in ((gc.real, wc.real), (gc.imag, wc.imag)):
                fin = np.isfinite(wp)
                ok = ok and bool(np.array_equal(np.isnan(gp), np.isnan(wp)))
                ok = ok and bool(np.array_equal(gp[np.isinf(wp)], wp[np.isinf(wp)]))
                ok = ok and bool(np.all(np.isfinite(gp[fin])))
                if ok:
                    ok = bool((np.abs(gp[fin] - wp[fin]) <= 1e-9 * np.maximum(np.abs(wp[fin]), 1.0)).all())
        else:
            d = np.abs(g - w)
            ok = bool((d <= 1e-9 * np.maximum(np.abs(w), UNIT.get(self.kind, 1.0))).all())   # ALG class, elementwise scale
        return None if ok else f'{what}:value'

    def compare(self):
        """returns (number of comparisons, list of failing observation names)"""
        bad = []
        n = 0
        for sig, m, sl, pre in ((self.sig, self.m, self.sl, ''), (self.aux, self.ma, self.asl, 'aux_')):
            for r in (self._cmp(sig.state, m.S, pre + 'base_state', exact=True),
                      self._cmp(sig.sensitivity, m.G, pre + 'base_sens')):
                n += 1
                if r:
                    bad.append(r)
            for name, s in sl.items():
                ref = self.ref[name]
                for r in (self._cmp(s.state, m.sl_state(ref), pre + 'slice_state', exact=True),
                          self._cmp(s.sensitivity, m.sl_sens(ref), pre + 'slice_sens')):
                    n += 1
                    if r:
                        bad.append(r + f'[{slice_kind(self.kind, name)}]')
        for obj, snap in self.held:
            n += 1
            if not exact_equal(dense(obj), snap):
                bad.append('held_object_changed')
        return n, bad

    def canon(self):
        def b(x):
            if x is None:
                return b'N'
            a = np.asarray(dense(x))
            return a.dtype.str.encode() + str(a.shape).encode() + a.tobytes()
        alias = []
        for obj, _ in self.held:
            for s in (self.sig, self.aux):
                g = s.sensitivity
                if self.dyad:
                    alias.append(g is not None and (g is obj or g.u is obj.u or g.v is obj.v or any(
                        np.shares_memory(p_, q_) for p_ in list(g.u) + list(g.v) for q_ in list(obj.u) + list(obj.v))))
                else:
                    alias.append(isinstance(g, np.ndarray) and np.shares_memory(g, obj))
        return (b(self.sig.state), b(self.sig.sensitivity), b(self.aux.state), b(self.aux.sensitivity),
                bytes(alias) if any(alias) else b'')


def slice_kind(kind, name):
    chain = BASES[kind]['slices'][name]
    if len(chain) > 1:
        return 'nested'
    c = chain[0]
    if isinstance(c, (int, np.integer)):
        return 'int'
    if isinstance(c, np.ndarray):
        return 'intarray'
    if isinstance(c, tuple):
        if all(isinstance(x, np.ndarray) for x in c):
            return 'tuple_intarray'
        if any(isinstance(x, np.ndarray) for x in c):
            return 'tuple_slice_and_intarray'
        if any(isinstance(x, (int, np.integer)) for x in c):
            return 'tuple_int'
        return 'tuple_slices'
    if isinstance(c, slice):
        return 'stepped' if c.step not in (None, 1) else 'basic'
    return 'other'


def target_kind(kind, t):
    return 'base' if t == 'base' else slice_kind(kind, t)


def run_path(kind, with_sens, seed, path, check_from=0):
    """replay on fresh objects; steps before check_from were compared when the prefix itself was explored;
    returns (world, ncomparisons, violation or None)"""
    w = World(kind, with_sens, seed)
    ncmp = 0
    for k, op in enumerate(path):
        try:
            w.apply(op)
        except Exception as e:  # noqa
            sig = {'check': 'raised', 'op': op[0], 'target': target_kind(kind, op[1]), 'arg': op[2],
                   'exc': type(e).__name__, 'sens_before': 'unknown'}
            return w, ncmp, {'check': 'raised', 'signature': sig,
                             'detail': {'path': path, 'step': k, 'error': str(e)[:300]}}
        if k < check_from:
            continue
        n, bad = w.compare()
        ncmp += n
        if bad:
            sig = {'check': 'model_mismatch', 'op': op[0], 'target': target_kind(kind, op[1]), 'arg': op[2],
                   'observed': sorted(set(bad))[0]}
            return w, ncmp, {'check': 'model_mismatch', 'signature': sig,
                             'detail': {'path': path, 'step': k, 'mismatches': sorted(set(bad)),
                                        'impl_state': w.sig.state, 'impl_sens': w.sig.sensitivity,
                                        'model_state': w.m.S, 'model_sens': w.m.G}}
    return w, ncmp, None


def execute(case):
    kind, with_sens, seed, depth = case['base'], case['with_sens'], case['seed'], case['depth']
    prefix = case['prefix']
    ops = alphabet(kind, case.get('reduced', False))
    V = []
    w, ncmp, v = run_path(kind, with_sens, seed, prefix)
    transitions = len(prefix)
    if v:
        v['case'] = dict(case, depth=len(prefix))
        return {'states': 1, 'transitions': transitions, 'checks': ncmp, 'violations': [v], 'outcome': 'viol',
                'key': f"{kind}|{with_sens}|{prefix}"}
    seen = {w.canon()}
    frontier = [prefix]
    nontrivial = 0
    maxdepth = len(prefix)
    for d in range(len(prefix), depth):
        nxt = []
        for path in frontier:
            for op in ops:
                p2 = path + [op]
                w, n, v = run_path(kind, with_sens, seed, p2, check_from=len(path))
                transitions += 1
                ncmp += n
                if v:
                    v['case'] = dict(case, prefix=p2, depth=len(p2))
                    if not any(x['signature'] == v['signature'] for x in V):
                        V.append(v)
                    continue
                k = w.canon()
                if k not in seen:
                    seen.add(k)
                    nxt.append(p2)
                    maxdepth = len(p2)
                    if w.sig.sensitivity is not None:
                        nontrivial += 1
        frontier = nxt
        if not frontier:
            break
    return {'states': len(seen), 'transitions': transitions, 'traces': transitions, 'checks': ncmp,
            'nontrivial': nontrivial > 0,
            'key': [f"{kind}|{with_sens}|{prefix}|{i}" for i in range(nontrivial)],
            'outcome': f"states={len(seen)}", 'violations': V}


def bounds(tier, seed):
    return {'levels': ['depth2 full alphabet', 'depth3 reduced alphabet (2-3 slices per base)'] if tier == 'quick' else
            ['depth2 full', 'depth3 reduced', 'depth3 full', 'depth4 reduced', 'depth4 full', 'depth5 reduced'],
            'bases': list(BASES), 'with_initial_sensitivity': [False, True],
            'ops_per_base_full': {k: len(alphabet(k)) for k in BASES},
            'ops_per_base_reduced': {k: len(alphabet(k, True)) for k in BASES}, 'value_table': seed % 4}


def generate(tier, seed):
    plan = [(2, False), (3, True)] if tier == 'quick' else [(2, False), (3, True), (3, False), (4, True), (4, False),
                                                            (5, True)]
    for d, red in plan:
        yield {'__level__': f"depth{d}/{'reduced' if red else 'full'}"}
        for kind in ('s', 'z0', 'dy', 'c3', 'v4', 'v4t', 'v4n', 'c3n', 'v8', 'm23', 'm23t', 't222'):
            for ws in (False, True):
                al = alphabet(kind, red)
                if d <= 3:
                    prefixes = [[op] for op in al]
                else:
                    prefixes = [[o1, o2] for o1 in al for o2 in al]
                for pf in prefixes:
                    yield {'base': kind, 'with_sens': ws, 'seed': seed % 4, 'depth': d, 'prefix': pf, 'reduced': red}
