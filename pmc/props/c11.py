"""C11 -- EigenSolve returns genuine, normalised, ordered eigenpairs (E1 lattice explorer, forward response only).

dense cases : (n, matrix class, standard/generalised, value table); every sorting function x hermitian flag is a
              sub-point, each run on a FRESH module (is_hermitian is cached on the module after the first response).
sparse cases: (grid, boundary condition, pencil variant, standard/generalised, value table); every
              nmodes x sigma x hermitian flag x sorting is a sub-point on a fresh module.
Reference: pmc/refs/eig.py (numpy eig of B^-1 A on the dense pencil)."""
import contextlib
import numpy as np
from pmc.refs import eig as re_
from pmc.refs import fe
from pmc.engine.tol import mag

PROPERTY = 'C11'
RULE = ("lattice: dense n x {real symmetric, real unsymmetric with real / complex-pair spectrum, Hermitian, complex "
        "general, complex symmetric} x {standard, generalised with SPD/HPD B, generalised with B of the other field} x "
        "sorting {default, descending, |lambda|, vector-based} x hermitian flag {None, True/False where truthful}; "
        "sparse FE pencils (AssembleStiffness/AssembleMass on 2-D/3-D grids, clamped faces, bcdiagval 1e3 / 1) x "
        "variant {real symmetric, Hermitian D K D^H, complex symmetric (1+0.05i)K, real unsymmetric K diag(s)} x "
        "{standard, generalised} x nmodes {1,3,6} x sigma {0, inside, above the physical spectrum} x hermitian flag x "
        "sorting {default, descending}.  One descriptor = one pencil, its sub-points are all option combinations, each "
        "on a fresh module.  A descriptor is non-trivial if at least one sub-point was admissible and the order check "
        "could decide at least one pair; distinct by descriptor")
RULE += " Extended in seeding rounds 6-7:  sparse chain pencils without boundary rows with every number of modes up to the ARPACK limits and the default."
ASSUMPTIONS = [
    "numpy.linalg.eig/solve on the dense pencil B^-1 A (reference spectrum), scipy linear_sum_assignment (multiset match)",
    "AssembleStiffness/AssembleMass only produce the input pencils (their correctness is C08); the reference works on "
    "the dense copy of whatever they returned",
    "scipy's ARPACK wrapper draws its start vector from numpy.random.default_rng(None); the harness pins that call to "
    "seed 0 from outside while the module runs so that a run is reproducible (verdicts do not depend on it)",
    "inadmissible sub-points are counted, not judged: reference eigenvector with |q^T B q|/(q^H B q) < 1e-3 (the "
    "bilinear normalisation does not exist for isotropic vectors); sparse: one of the nmodes+2 reference eigenvalues "
    "nearest sigma is multiple (rel. gap < 1e-3, includes the artificial bc eigenvalue of multiplicity #bc), sigma is "
    "an eigenvalue, or the nmodes-th and (nmodes+1)-th nearest are equidistant (the requested set is not unique)",
    "ordering is judged only between pairs whose sort keys differ by more than 1e-6*scale; default sorting of complex "
    "eigenvalues is judged on the real part only (numpy's order for equal real parts is not part of the statement)",
    "sign rule and real-valued vectors are demanded only when A and B are both real symmetric, with tolerance "
    "mean >= -1e-12*max|q| (a mode with zero mean may have either sign)",
    "only mode='normal' of the sparse solver; only the forward response (sensitivities are C01)",
]

GAP = 1e-6
RES_TOL = 1e-9       # ALG: |A q - w B q|_max <= RES_TOL * max(|A||q| + |w||B||q|) + 1e-12
NORM_TOL = 1e-9
VAL_TOL = 1e-8       # eigenvalue multiset agreement relative to the spectral scale

DENSE_N = [2, 3, 5, 8]
SPARSE_GRIDS_Q = [(3, 2, 0), (4, 3, 0), (2, 2, 2)]
SPARSE_GRIDS_T = [(2, 1, 0), (3, 2, 0), (4, 3, 0), (5, 2, 0), (4, 4, 0), (6, 3, 0), (2, 2, 1), (2, 2, 2), (3, 2, 2)]
BCS = ['left', 'leftright', 'bottom']
NMODES = [1, 3, 6]
SIGMAS = ['zero', 'inside', 'above']
BCDIAG_K, BCDIAG_M = 1e3, 1.0


def bounds(tier, seed):
    t = seed % re_.NTABLES
    if tier == 'quick':
        return {'dense_n': DENSE_N, 'dense_classes': re_.DENSE_CLASSES, 'dense_gen': ['std', 'gen', 'genmix'],
                'sortings': list(re_.SORTINGS), 'dense_hermitian_flags': 'None, and True/False on Hermitian pencils',
                'sparse_grids': SPARSE_GRIDS_Q, 'bc': BCS[:2], 'variants': ['sym', 'herm', 'csym', 'unsym'],
                'nmodes': NMODES, 'sigma': SIGMAS, 'sparse_hermitian_flags': 'None, True on Hermitian pencils',
                'sparse_sortings': ['default', 'desc'], 'value_tables': [t]}
    return {'dense_n': list(range(1, 9)) + [12], 'dense_classes': re_.DENSE_CLASSES,
            'dense_gen': ['std', 'gen', 'genmix'], 'sortings': list(re_.SORTINGS),
            'dense_hermitian_flags': 'None, and True/False on Hermitian pencils',
            'sparse_grids': SPARSE_GRIDS_T, 'bc': BCS, 'variants': ['sym', 'herm', 'csym', 'unsym'],
            'nmodes': NMODES, 'sigma': SIGMAS, 'sparse_hermitian_flags': 'None, True on Hermitian pencils',
            'sparse_sortings': ['default', 'desc'],
            'value_tables': 'dense: table of the seed, then all 10; sparse: table of the seed, then seed+1, seed+2'}


def _dense_cases(ns, tables):
    out = []
    for n in ns:
        for cls in re_.DENSE_CLASSES:
            if n == 1 and cls in ('rgen_cpx',):
                continue  # a 1x1 real matrix has no complex pair
            for gen in ['std', 'gen', 'genmix']:
                for t in tables:
                    out.append({'path': 'dense', 'n': n, 'cls': cls, 'gen': gen, 'table': t})
    return out


def _dense_special_cases(tables):
    out = []
    for t in tables:
        for gen in ('std', 'gen'):
            for cls in ('rsym', 'rgen_real', 'csym'):
                if cls in re_.DENSE_CLASSES:
                    out.append({'path': 'dense', 'n': 2, 'cls': cls, 'gen': gen, 'table': t, 'special': 'zeromean'})
    for n in (2, 3, 5):
        for cls in re_.DENSE_CLASSES:
            for gen in ('std', 'gen', 'genmix'):
                out.append({'path': 'dense', 'n': n, 'cls': cls, 'gen': gen, 'table': tables[0], 'layout': 'F'})
    return out


def _sparse_cases(grids, bcs, variants, tables):
    out = []
    for g in grids:
        for bc in bcs:
            for var in variants:
                for gen in ['gen', 'std']:
                    for t in tables:
                        out.append({'path': 'sparse', 'grid': list(g), 'bc': bc, 'variant': var, 'gen': gen, 'table': t})
    return out


GENERIC_N = [7, 8, 12]


def _generic_cases(ns, tables):
    """Sparse chain pencils without boundary-condition rows: every eigenvalue simple, so that every number of modes
    up to the largest one the ARPACK drivers deliver (and the default of 6) is an admissible request."""
    return [{'path': 'sparse', 'generic': n, 'grid': [n, 0, 0], 'bc': 'none', 'variant': var, 'gen': gen, 'table': t}
            for n in ns for var in ['sym', 'herm', 'csym', 'unsym'] for gen in ['gen', 'std'] for t in tables]


def generate(tier, seed):
    t = seed % re_.NTABLES
    if tier == 'quick':
        yield from _dense_cases(DENSE_N, [t])
        yield from _dense_special_cases([t, (t + 1) % re_.NTABLES])
        yield from _generic_cases(GENERIC_N, [t])
        yield from _sparse_cases(SPARSE_GRIDS_Q, BCS[:2], ['sym', 'herm', 'csym', 'unsym'], [t])
        return
    # cheap levels first, so that the runner's time prediction for the next level is not dominated by the sparse cases
    yield {'__level__': 'dense design lattice (n in 2,3,5,8; table of the seed)'}
    yield from _dense_cases(DENSE_N, [t])
    yield {'__level__': 'dense special: eigenvector with exactly zero mean; Fortran-ordered inputs'}
    yield from _dense_special_cases(list(range(re_.NTABLES)))
    yield {'__level__': 'dense n in 1..8,12 x all 10 value tables'}
    base = {(c['n'], c['table']) for c in _dense_cases(DENSE_N, [t])}
    yield from [c for c in _dense_cases(list(range(1, 9)) + [12], list(range(re_.NTABLES)))
                if (c['n'], c['table']) not in base]
    yield {'__level__': 'sparse chain pencils n in 7,8,12,20: every number of modes 1..n-2 (n-1 real symmetric), default'}
    yield from _generic_cases(GENERIC_N + [20], [t, (t + 1) % re_.NTABLES, (t + 2) % re_.NTABLES])
    yield {'__level__': 'sparse design lattice (3 grids, 2 bc, 4 variants; table of the seed)'}
    yield from _sparse_cases(SPARSE_GRIDS_Q, BCS[:2], ['sym', 'herm', 'csym', 'unsym'], [t])
    seen = {(tuple(c['grid']), c['bc'], c['table']) for c in
            _sparse_cases(SPARSE_GRIDS_Q, BCS[:2], ['sym'], [t])}
    for i in range(3):
        ti = (t + i) % re_.NTABLES
        yield {'__level__': f'sparse 9 grids x 3 bc x 4 variants, value table {ti}'}
        yield from [c for c in _sparse_cases(SPARSE_GRIDS_T, BCS, ['sym', 'herm', 'csym', 'unsym'], [ti])
                    if (tuple(c['grid']), c['bc'], c['table']) not in seen]


# ------------------------------------------------------------------------------------------------------------------
@contextlib.contextmanager
def pinned_rng():
    """scipy's ARPACK wrapper calls numpy.random.default_rng(None) for its start vector: pin it (section 3.3)."""
    orig = np.random.default_rng

    def fixed(seed=None, *a, **kw):
        return orig(0 if seed is None else seed, *a, **kw)
    np.random.default_rng = fixed
    try:
        yield
    finally:
        np.random.default_rng = orig


class Judge:
    def __init__(self, case):
        self.case = case
        self.V = []
        self.checks = 0
        self.transitions = 0
        self.judged = 0
        self.order_pairs = 0
        self.observed = []
        self.outcomes = set()

    def bad(self, check, sub, sig, **detail):
        narrowed = dict(self.case)
        narrowed['only'] = sub
        s = {'check': check}
        s.update(sig)
        self.V.append({'check': check, 'signature': s, 'detail': dict(detail, sub=sub), 'case': narrowed})

    def chk(self, cond, check, sub, sig, **detail):
        self.checks += 1
        if not cond:
            self.bad(check, sub, sig, **detail)
        return cond


def _sig(sig, *keys):
    """Root-cause signature: the path plus the named options only (never sizes, tables or values)."""
    return {k: sig[k] for k in ('path',) + keys if k in sig}


def _common_pair_checks(J, sub, sig, A, B, W, Q, realsym, sortname):
    """Residual, bilinear normalisation, order, sign -- the part of the statement shared by both paths."""
    k = len(W)
    worst_r, worst_n = 0.0, 0.0
    for i in range(k):
        err, scale = re_.residual(A, B, W[i], Q[:, i])
        ratio = err / (RES_TOL * scale + 1e-12)
        worst_r = max(worst_r, ratio)
        nb = re_.bilinear_norm(B, Q[:, i])
        worst_n = max(worst_n, abs(nb - 1.0) / NORM_TOL)
    J.chk(worst_r <= 1.0, 'residual', sub, _sig(sig, 'gen', 'shift'), rel_residual=worst_r * RES_TOL, W=W)
    if not np.isfinite(worst_n):
        worst_n = float('inf')
    nbs = np.array([re_.bilinear_norm(B, Q[:, i]) for i in range(k)])
    # which wrong normalisation, if any (root cause, not values)
    how = 'other'
    if worst_n > 1.0:
        BQ = Q if B is None else B @ Q
        herm = np.real(np.sum(np.conj(Q) * np.asarray(BQ), axis=0))
        if np.allclose(herm, 1.0, atol=1e-8):
            how = 'qHBq=1'
        elif np.allclose(np.sum(np.abs(Q) ** 2, axis=0), 1.0, atol=1e-8):
            how = 'qHq=1'
        elif np.allclose(nbs, -1.0, atol=1e-8):
            how = 'qTBq=-1'
    J.chk(worst_n <= 1.0, 'norm', sub, dict(_sig(sig), how=how), qTBq=nbs)
    # order
    scale = max(float(np.max(np.abs(W))) if k else 0.0, 1.0)
    key = re_.sort_key(sortname, W, Q)
    gap = GAP * (scale if sortname != 'vec' else 1.0)
    pairs = re_.order_decidable(key, gap)
    J.order_pairs += pairs
    viol = re_.order_violations(key, gap)
    J.chk(not viol, 'order', sub, {'path': sig['path'], 'sort': sortname}, key=key, W=W, pairs=viol[:5])
    if realsym:
        J.chk(np.isrealobj(Q), 'realsym_complex_vectors', sub, {'path': sig['path']}, dtype=str(Q.dtype))
        means = np.real(np.mean(Q, axis=0))
        tol = 1e-12 * max(float(np.max(np.abs(Q))), 1.0)
        J.chk(bool(np.all(means >= -tol)), 'sign', sub, {'path': sig['path']}, means=means)


def _run_module(J, sub, sig, sigs, kw):
    """Fresh module, one response.  An exception from inside the code under test is a violation of the sub-point
    (narrowed replay case); anything else propagates as a harness error."""
    import pymoto as pym
    from pmc.engine.run import classify_exception
    try:
        m = pym.EigenSolve(sigs, **kw)
        with pinned_rng():
            m.response()
    except Exception as e:  # noqa
        in_repo, where = classify_exception(e)
        if not in_repo:
            raise
        J.transitions += 1
        J.judged += 1
        J.checks += 1
        J.bad('raised', sub, dict(sig, exc=type(e).__name__, where=where), message=str(e)[:300])
        return None, None
    W, Q = [s.state for s in m.sig_out]
    return np.asarray(W), np.asarray(Q)


def _selected(case, sub):
    only = case.get('only')
    return only is None or all(only.get(k, sub[k]) == sub[k] for k in sub)


def exec_dense(case):
    import pymoto as pym
    n, cls, gen, t = case['n'], case['cls'], case['gen'], case['table']
    J = Judge(case)
    A = re_.dense_A(cls, n, t)
    bk = re_.b_kind(cls, gen)
    B = None if bk is None else re_.dense_B(bk, n, t)
    if case.get('special') == 'zeromean':
        # 2x2 [[a, b], [b, a]]: eigenvectors (1, 1) and (1, -1) -- the second has an exactly zero mean, so the documented
        # sign convention (non-negative mean) leaves its sign open; B with the same structure shares the eigenvectors
        a_, b_ = 2.0 + 0.5 * t, (-1.0 if t % 2 == 0 else 1.0)
        A = np.array([[a_, b_], [b_, a_]]) * (1j if cls == 'csym' else 1.0)
        B = None if gen == 'std' else np.array([[2.0, 0.5], [0.5, 2.0]])
    layout = case.get('layout', 'C')
    hold = (lambda M: np.asfortranarray(M.copy())) if layout == 'F' else (lambda M: M.copy())
    Wr, Qr = re_.ref_eig(A, B)
    rho = re_.bilinear_ratio(Qr, B)
    if np.min(rho) < 1e-3:
        return {'skipped': 'isotropic_reference_vector'}
    hermitian_pencil = cls in re_.HERMITIAN_CLASSES
    realsym = re_.is_real_symmetric_problem(A, B)
    wscale = max(float(np.max(np.abs(Wr))), 1.0)
    flags = [None] + ([True, False] if hermitian_pencil else [])
    for sortname in re_.SORTINGS:
        for flag in flags:
            sub = {'sort': sortname, 'herm': flag}
            if not _selected(case, sub):
                continue
            sig = {'path': 'dense', 'kind': 'c' if (np.iscomplexobj(A) or (B is not None and np.iscomplexobj(B))) else 'r',
                   'gen': gen != 'std'}
            sigs = [pym.Signal('A', hold(A))] + ([pym.Signal('B', hold(B))] if B is not None else [])
            if layout == 'F':
                sig['layout'] = 'fortran'
            kw = {}
            if re_.SORTINGS[sortname] is not None:
                kw['sorting_func'] = re_.SORTINGS[sortname]
            if flag is not None:
                kw['hermitian'] = flag
            W, Q = _run_module(J, sub, sig, sigs, kw)
            if W is None:
                continue
            J.transitions += 1
            J.judged += 1
            unchanged = np.array_equal(sigs[0].state, A) and (B is None or np.array_equal(sigs[1].state, B))
            J.chk(unchanged, 'input_changed', sub, _sig(sig, 'layout') if layout == 'F' else {'path': 'dense'},
                  A_now=np.asarray(sigs[0].state), A=A)
            ok = J.chk(W.shape == (n,) and Q.shape == (n, n), 'count', sub, {'path': 'dense'}, W_shape=W.shape,
                       Q_shape=Q.shape)
            if not ok:
                continue
            ok = J.chk(bool(np.all(np.isfinite(W)) and np.all(np.isfinite(Q))), 'finite', sub, {'path': 'dense'})
            if not ok:
                continue
            d = re_.match_multiset(W, Wr)
            J.chk(d <= VAL_TOL * wscale, 'spectrum', sub, _sig(sig, 'gen'), W=W, Wref=Wr, dist=d, rel=mag(d / wscale))
            _common_pair_checks(J, sub, sig, A, B, W, Q, realsym, sortname)
            J.outcomes.add(f"dense/{cls}/{gen}/W{W.dtype.kind}Q{Q.dtype.kind}/{sortname}/"
                           f"{'sorted' if _is_identity_needed(W, Q, sortname) else 'perm'}")
    return _finish(J, case, f"dense|{n}|{cls}|{gen}|{t}|{case.get('special')}|{layout}")


def _is_identity_needed(W, Q, sortname):
    """Outcome tag only: whether ascending-by-real order coincides with the requested order (exposes vacuity of
    the sort axis)."""
    k1 = re_.sort_key('default', W, Q)
    return bool(np.all(np.diff(k1) >= 0))


def bc_dofs(grid, bc):
    nx, ny, nz = grid
    dim = 3 if nz > 0 else 2
    nodes = []
    for (i, j, k) in fe.node_indices(nx, ny, nz):
        if bc == 'left' and i == 0:
            nodes.append((i, j, k))
        elif bc == 'leftright' and i in (0, nx):
            nodes.append((i, j, k))
        elif bc == 'bottom' and j == 0:
            nodes.append((i, j, k))
    nn = sorted(fe.node_number(nx, ny, nz, *ijk) for ijk in nodes)
    return np.array([n * dim + d for n in nn for d in range(dim)], dtype=int), dim


def exec_sparse(case):
    import pymoto as pym
    grid, bc, var, gen, t = tuple(case['grid']), case['bc'], case['variant'], case['gen'], case['table']
    J = Judge(case)
    generic = case.get('generic')
    if generic:
        K0, M0 = re_.chain_pencil(int(generic), t, gen == 'gen')
    else:
        nx, ny, nz = grid
        dom = pym.DomainDefinition(nx, ny, nz)
        bcd, dim = bc_dofs(grid, bc)
        x = pym.Signal('x', re_.x_table(dom.nel, t))
        mK = pym.AssembleStiffness(x, domain=dom, bc=bcd, bcdiagval=BCDIAG_K)
        mK.response()
        K0 = mK.sig_out[0].state
        M0 = None
        if gen == 'gen':
            mM = pym.AssembleMass(x, domain=dom, bc=bcd, ndof=dim, bcdiagval=BCDIAG_M)
            mM.response()
            M0 = mM.sig_out[0].state
    K, M = re_.pencil_variant(K0, M0, var, t)
    n = K.shape[0]
    Kd = K.toarray()
    Md = None if M is None else M.toarray()
    Wr, Qr = re_.ref_eig(Kd, Md)
    rho = re_.bilinear_ratio(Qr, Md)
    art = BCDIAG_K / (BCDIAG_M if M is not None else 1.0)
    if generic:
        art = 1e30          # no boundary-condition rows: the whole spectrum is physical
    if var == 'csym':
        art = art * (1 + 0.05j)
    phys = re_.physical_spectrum(Wr, art, reltol=0.3)   # artificial ones (incl. K diag(s) scaling) are within 20 %
    physr = np.sort(np.real(phys))
    hermitian_pencil = var in ('sym', 'herm')
    realsym = var == 'sym'
    sig_values = {'zero': 0.0,
                  'inside': float(physr[3] + 0.37 * (physr[4] - physr[3])) if len(physr) > 4 else None,
                  'above': float(1.1 * np.max(np.abs(phys))) if len(phys) else None}
    flags = [None] + ([True] if hermitian_pencil else [])
    # the largest admissible counts of the ARPACK drivers (k < n for the real symmetric one, k < n-1 otherwise) and the
    # documented default (6 modes) -- on pencils small enough to keep the cost down
    nm_tokens = list(NMODES)
    if generic:
        kmax = n - 1 if realsym else n - 2
        nm_tokens = [k for k in range(1, n - 2)] + ['n-2'] + (['n-1'] if realsym else []) + \
                    (['default'] if 6 <= kmax else [])
    for nmtok in nm_tokens:
        nmodes = {'n-1': n - 1, 'n-2': n - 2, 'default': 6}.get(nmtok, nmtok)
        for sname in SIGMAS:
            sg = sig_values[sname]
            if sg is None:
                J.observed.append('inadmissible:too_few_physical_modes')
                continue
            expect, reason = re_.nearest_to_shift(Wr, sg, nmodes)
            if reason is None:
                # the eigenvectors of the requested eigenvalues must admit the bilinear normalisation
                idx = [int(np.argmin(np.abs(Wr - e))) for e in expect]
                if np.min(rho[idx]) < 1e-3:
                    reason = 'isotropic_reference_vector'
            for flag in flags:
                for sortname in ('default', 'desc'):
                    sub = {'nmodes': nmtok, 'sigma': sname, 'herm': flag, 'sort': sortname}
                    if not _selected(case, sub):
                        continue
                    if reason is not None:
                        J.observed.append('inadmissible:' + reason)
                        continue
                    sig = {'path': 'sparse', 'variant': var, 'gen': gen != 'std', 'sigma': sname,
                           'shift': 'zero' if sg == 0.0 else 'nonzero'}
                    sigs = [pym.Signal('K', K.copy())] + ([pym.Signal('M', M.copy())] if M is not None else [])
                    kw = {'nmodes': nmodes, 'sigma': sg}
                    if nmtok == 'default':
                        del kw['nmodes']
                    if flag is not None:
                        kw['hermitian'] = flag
                    if re_.SORTINGS[sortname] is not None:
                        kw['sorting_func'] = re_.SORTINGS[sortname]
                    W, Q = _run_module(J, sub, sig, sigs, kw)
                    if W is None:
                        continue
                    J.transitions += 1
                    J.judged += 1
                    ok = J.chk(W.shape == (nmodes,) and Q.shape == (n, nmodes), 'count', sub, {'path': 'sparse'},
                               W_shape=W.shape, Q_shape=Q.shape)
                    if not ok:
                        continue
                    ok = J.chk(bool(np.all(np.isfinite(W)) and np.all(np.isfinite(Q))), 'finite', sub,
                               {'path': 'sparse'})
                    if not ok:
                        continue
                    wscale = max(float(np.max(np.abs(expect))), abs(sg), 1e-12)
                    d = re_.match_multiset(W, expect)
                    J.chk(d <= VAL_TOL * wscale, 'closest_to_shift', sub, _sig(sig, 'gen', 'sigma'), W=W,
                          expected=expect, sigma=sg, dist=d, rel=mag(d / wscale))
                    _common_pair_checks(J, sub, sig, K, M, W, Q, realsym, sortname)
                    J.outcomes.add(f"sparse/{var}/{gen}/{sname}/k{nmtok}/W{W.dtype.kind}Q{Q.dtype.kind}")
    return _finish(J, case, f"sparse|{grid}|{bc}|{var}|{gen}|{t}")


def _finish(J, case, key):
    if J.judged == 0 and not J.V:
        reasons = sorted(set(J.observed)) or ['nothing_selected']
        return {'skipped': 'no_admissible_subpoint:' + ','.join(reasons)}
    counts = {}
    for o in J.observed:
        counts[o] = counts.get(o, 0) + 1
    return {'states': J.judged, 'transitions': J.transitions, 'checks': J.checks,
            'nontrivial': J.judged > 0 and J.order_pairs > 0, 'key': key,
            'outcome': sorted(J.outcomes) if not J.V else sorted({v['check'] for v in J.V}),
            'observed_only': J.observed, 'violations': J.V}


def execute(case):
    if case['path'] == 'dense':
        return exec_dense(case)
    return exec_sparse(case)
