"""C20 -- result files decode back to the data that was written (E1 lattice x E2 histories of 1-3 response() calls).

WriteToVTI: every admissible (grid, vector shape) of the bound x value kind x scale x overwrite x file name, every
history of response() calls in which the signal state is replaced / mutated in place / left alone; after EVERY call
the private output directory is listed and every new file is decoded by pmc.refs.vti (xml.etree + base64 + struct)
and compared with the float32 image of the state the signal had when that file was written.

ScalarToFile: every (signal set, format, separator/file name, pre-existing file) x the same histories; after EVERY
call the log is re-read: one header line, then row k = iteration k and the values after the format round-trip.
"""
import os
import shutil
import itertools
import tempfile
import numpy as np
from pmc.refs import vti as rv

PROPERTY = 'C20'
RULE = ("lattice x histories, every level a complete product.  VTI = grids (all (nx,ny[,nz]) up to the level's bound; "
        "grids where nel divides nnodes are skipped and counted) x element sizes x vector shape {cell 1/3/4 components, "
        "point 1/2/3 components, each also as block (N,k) and (k,N) with k in 3,11,1, and two multi-signal sets} "
        "(shapes whose element-/node-sized reading is not unique PER AXIS are skipped and counted; one-column blocks "
        "are observed only) x value kind {generic non-float32-representable, float32 edge values, int64, float32, "
        "strided view} x scale {1,2.5} x overwrite {F,T} x file name {with extension, without extension in a not yet "
        "existing sub-directory} x every history of response() calls of the level's depth (<=3) over {new state "
        "object, in-place mutation, unchanged}.  LOG = signal sets (python/numpy scalars, 0-d, vectors, 2-D arrays, "
        "size-1 arrays, mixtures) x fmt {.10e,.3f,.5g,e} x {tab,';' on .txt, tab,';' on .csv} x {fresh, stale file "
        "present} x all 27 histories of depth 3.  The oracle runs after EVERY call (so every prefix of a history is "
        "judged).  A history is non-trivial if at least one array with >=2 distinct float32 values was decoded and "
        "compared (VTI) or at least one data row with a value column was parsed (log); distinct by (case, "
        "configuration, history)")
RULE += " Extended in seeding rounds 6-7:  sizes and scales with long decimal expansions; logged signals sharing a tag or untagged."
ASSUMPTIONS = ["pymoto.core_objects.get_init_str (diagnostic source-location string, ~1 ms per Signal/Module via "
               "inspect.stack) is replaced from outside by a constant during this check; it takes no part in the "
               "semantics under test",
               "xml.etree / base64 / struct of the standard library and numpy's float64->float32 rounding (astype) are "
               "trusted; the reference never imports pymoto",
               "VTK binary layout: base64(length header) + base64(raw values); the UInt64 length header is decoded but "
               "only required to be >= the number of payload bytes (VTK tolerates an over-statement, the statement does "
               "not fix it)",
               "block columns are identified by the integer in the array-name suffix (zero based); a plain vector must "
               "carry exactly the signal tag; tags are plain words (no XML-special characters, none a prefix of another)",
               "file counters and logged iteration numbers are consecutive and start at 0 or at 1 (the statement does not fix the base)",
               "a two-component point vector on a 3-D domain may be written with 2 components or padded to 3 (the "
               "statement only fixes the 2-D case); two-component CELL data is kept out of the alphabet for the same "
               "reason; values stay inside the float32 range (overflow to inf is not demanded), no NaN",
               "(N,1)/(1,N) block vectors and the csv header of logged 2-D arrays (the tag 'm[0, 1]' contains the "
               "separator) are observed only (DESIGN section 5, interpretation decisions)",
               "the z-spacing of a 2-D domain is not judged (the extent is 0 0 in z)"]

PRIMES = np.sqrt(np.array([2, 3, 5, 7, 11, 13, 17, 19, 23, 29, 31, 37, 41, 43, 47, 53, 59, 61, 67, 71, 73, 79, 83, 89.]))
EDGE = np.array([0.1, -0.0, 1.0 / 3.0, 16777217.0, 3.0e38, -3.4e38, 1e-40, 1e-50, 1.0 + 2.0 ** -24, 123456.789,
                 -1e-30, 2.5, -7.0, 1.0 + 3 * 2.0 ** -25, 65504.5, -0.3])
UNITS = [(0.5, 2.0, 1.5), (1.0, 1.0, 1.0), (0.1, 0.3, 0.7)]
SCALES = [1.0, 2.5]
FNAMES = ['out.vti', 'sub/dir/res']
OPS = ['new', 'inplace', 'same']

FLAT = {'cell1': ('cell', 1, 'rho'), 'cell3': ('cell', 3, 'sig el'), 'cell4': ('cell', 4, 'q4'),
        'pt1': ('point', 1, 'T'), 'pt2': ('point', 2, 'u'), 'pt3': ('point', 3, 'disp.v3')}
MULTI = {'multi_flat': ['cell1', 'pt1', 'pt2', 'cell3', 'pt3'],
         'multi_blk': ['pt1_b3', 'cell1_t3', 'pt2_t11', 'cell3', 'pt3_b3']}
VALUE_KINDS = ['gen', 'edge', 'int', 'f32', 'view']


# --------------------------------------------------------------------------------------------------- value tables
def values(kind, n, k, seed):
    """n deterministic numbers for iteration/column index k (distinct entries so that stride errors show)."""
    i = np.arange(n)
    if kind == 'edge':
        return EDGE[(i + 3 * k + seed) % len(EDGE)].copy()
    if kind == 'int':
        v = (i * 3 - 7 + 11 * k + seed).astype(np.int64)
        v[n // 2] = 2 ** 24 + 1 + k
        return v
    v = PRIMES[(i * 5 + k * 7 + seed * 11) % len(PRIMES)] * (1 + 0.125 * i) * np.where(i % 3 == 1, -1.0, 1.0) \
        * 10.0 ** ((i + k) % 4 - 1)
    return v.astype(np.float32) if kind == 'f32' else v


def member_shape(name, nel, nnodes):
    """(flat name, shape, intended axis, ncols) of a vector spec such as 'pt2', 'pt2_b3' (N,3) or 'pt2_t3' (3,N)."""
    flat, _, blk = name.partition('_')
    kind, c, _tag = FLAT[flat]
    n = c * (nel if kind == 'cell' else nnodes)
    if not blk:
        return flat, (n,), 0, None
    k = int(blk[1:])
    return (flat, (n, k), 0, k) if blk[0] == 'b' else (flat, (k, n), 1, k)


def build(name, nel, nnodes, vkind, k, seed):
    flat, shape, ax, ncols = member_shape(name, nel, nnodes)
    if ncols is None:
        a = values(vkind, shape[0], k, seed)
    else:
        a = np.stack([values(vkind, shape[ax], 16 * k + j, seed) for j in range(ncols)], axis=1 - ax)
    if vkind == 'view':     # same values through a non-contiguous view
        big = np.zeros(a.shape[:-1] + (2 * a.shape[-1],))
        big[..., ::2] = a
        a = big[..., ::2]
    return a


def members_of(vec):
    return MULTI[vec] if vec in MULTI else [vec]


def all_vecs():
    flat = list(FLAT)
    out = list(flat)
    for k in (3, 11, 1):
        for o in 'bt':
            out += [f'{f}_{o}{k}' for f in flat]
    return out + list(MULTI)


def admissible_member(name, nel, nnodes):
    """The statement's reading of this shape is unique and is the intended one."""
    flat, shape, ax, ncols = member_shape(name, nel, nnodes)
    kind, c, _ = FLAT[flat]
    return rv.classify(shape, nel, nnodes) == (kind, ax, c, ncols)


# ------------------------------------------------------------------------------------------------------ generation
def grids_upto(m2, m3):
    g = [(nx, ny, 0) for nx in range(1, m2 + 1) for ny in range(1, m2 + 1)]
    g += [(nx, ny, nz) for nx in range(1, m3 + 1) for ny in range(1, m3 + 1) for nz in range(1, m3 + 1)]
    g.sort(key=lambda t: (rv.grid_counts(*t)[2], t))
    return g


def all_histories(depth, ops):
    return [list(h) for h in itertools.product(ops, repeat=depth)]


CONFIGS = [[s, ow, fn] for fn in FNAMES for ow in (False, True) for s in SCALES]

LOG_SETS = [['pyfloat'], ['npf64'], ['pyint'], ['npf32'], ['npi64'], ['a0d'], ['vec3'], ['vec2'], ['vec5i'], ['m22'],
            ['m23'], ['m31'], ['pyfloat', 'npf64', 'pyint'], ['pyfloat', 'npf64', 'vec3', 'm22'],
            ['vec3', 'pyint', 'm23', 'a0d'], ['vec1'], ['m11'], ['npf64', 'vec1'], ['vec3r'], ['m23f'],
            ['pyfloat', 'vec3r', 'm23f', 'vec2'], ['m23x'], ['npf64', 'm23x', 'vec3r'],
            # signals that share a tag ('kind@tag'; an empty tag is the default of an untagged signal)
            ['pyfloat', 'npf64@f', 'vec3', 'pyint@', 'npf32@'], ['vec2', 'vec3@w', 'npf64@'], ['npf64@', 'pyfloat@']]


def log_kind(nm):
    return nm.split('@')[0]


def log_tag(nm):
    return nm.split('@')[1] if '@' in nm else LOG_KINDS[nm]

LOG_FMTS = ['.10e', '.3f', '.5g', 'e']
LOG_FILES = [['\t', 'log.txt'], [';', 'log.txt'], ['\t', 'log.csv'], [';', 'sub/hist.csv'], [';', 'history'],
             ['\t', 'out.cs'], ['|', 'run.v']]


CONFIGS_EXT = [c for c in CONFIGS if c[2] == FNAMES[0]]
DEMO_GRIDS = [(2, 2, 0), (2, 2, 2)]


def plan(tier, seed):
    """[(level, grids, units, vector names, value kinds, configs, histories)]: every level is a complete product."""
    vecs = all_vecs()
    small = grids_upto(4, 2)
    u = [UNITS[seed % 3]]
    other = [k for k in VALUE_KINDS if k != 'gen']
    h2, h3 = all_histories(2, OPS), all_histories(3, OPS)
    # arrays of more than 256 (and more than 1024) values: nel > 256, nnodes > 256, padded 2-D vectors with nnodes > 85
    large = [(10, 10, 0), (17, 16, 0), (6, 6, 6), (33, 32, 0)]
    large_level = ('vti/large-grids: arrays beyond 256 and 1024 values, depth 1', large, u, list(FLAT) + ['multi_flat'],
                   ['gen'], CONFIGS_EXT, [[['new']], [['new'], ['new']]] if False else all_histories(1, ['new']))
    # element sizes and scale factors whose decimal expansion does not end after a few digits (1/3, 0.123456789, inches)
    odd_units = [(1.0 / 3.0, 0.123456789, 1.23456789), (1.0 / 7.0, 2.0 / 3.0, 0.0254123)]
    odd_level = ('vti/sizes and scales with long decimal expansions, depth 2 over {new}', DEMO_GRIDS + [(3, 2, 0)], odd_units,
                 ['cell1', 'pt1', 'multi_flat'], ['gen'], [[sc_, ow_, FNAMES[0]] for sc_ in (1.0, 0.0254123, 1e-3 / 3.0)
                                                            for ow_ in (False, True)], all_histories(2, ['new']))
    if tier == 'quick':
        return [large_level, odd_level,
                ('vti/shapes: all small grids x all shapes, depth 2', small, u, vecs, ['gen'], CONFIGS, h2),
                ('vti/value-kinds: two grids x all shapes x other value kinds, depth 2', DEMO_GRIDS, u, vecs, other,
                 CONFIGS_EXT, h2),
                ('vti/depth3: two grids x all shapes, depth 3 over {new,same}', DEMO_GRIDS, u, vecs, ['gen'], CONFIGS,
                 all_histories(3, ['new', 'same']))]
    larger = [g for g in grids_upto(6, 3) if g not in small]
    return [large_level, odd_level,
            ('vti/small-grids x all shapes x {gen,edge}, depth 3', small, u, vecs, ['gen', 'edge'], CONFIGS, h3),
            ('vti/small-grids x all shapes x {int,f32,view}, depth 2', small, u, vecs, ['int', 'f32', 'view'], CONFIGS, h2),
            ('vti/larger-grids x all element sizes x all shapes, depth 2', larger, UNITS, vecs, ['gen'], CONFIGS, h2)]


def bounds(tier, seed):
    b = {'value_table': seed, 'ops': OPS,
         'vti_levels': [{'level': nm, 'grids': len(g), 'max_grid': [max(t[i] for t in g) for i in range(3)], 'units': u,
                         'vector_shapes': len(v), 'value_kinds': vk, 'configs(scale,overwrite,file)': cf,
                         'histories': len(h), 'max_depth': max(len(x) for x in h)}
                        for nm, g, u, v, vk, cf, h in plan(tier, seed)],
         'log': {'signal_sets': LOG_SETS, 'fmts': LOG_FMTS, 'separator_file': LOG_FILES, 'stale_file': [False, True],
                 'histories': 'all 27 of depth 3 over the three operations'}}
    return b


def generate(tier, seed):
    yield {'__level__': 'log'}
    for names in LOG_SETS:
        for fmt in LOG_FMTS:
            yield {'kind': 'log', 'signals': names, 'table': seed, 'fmts': [fmt], 'files': LOG_FILES,
                   'stale': [False, True], 'histories': all_histories(3, OPS)}
    for name, grids, units, vecs, vkinds, cfgs, hists in plan(tier, seed):
        yield {'__level__': name}
        for g in grids:
            for u in units:
                for vec in vecs:
                    for vk in vkinds:
                        yield {'kind': 'vti', 'grid': list(g), 'unit': list(u), 'vec': vec, 'values': vk, 'table': seed,
                               'configs': cfgs, 'histories': hists}


# ------------------------------------------------------------------------------------------------------- execution
def _in_repo(exc):
    from pmc.engine.run import classify_exception
    return classify_exception(exc)


def _listdir(root):
    out = []
    for d, _, files in os.walk(root):
        for f in files:
            out.append(os.path.relpath(os.path.join(d, f), root))
    return sorted(out)


def _remove_files(root):
    for f in _listdir(root):
        os.unlink(os.path.join(root, f))


class _Sink:
    """Collects violations (one per signature per case), observed-only tags and counters."""

    def __init__(self, case):
        self.case = case
        self.V = []
        self.obs = set()
        self.checks = 0
        self.judged = True

    def bad(self, check, sig, narrowed, **detail):
        if not self.judged:
            self.obs.add(f"one-column block {narrowed.get('vec')}: {check}")
            return
        s = dict(sig, check=check)
        if any(v['signature'] == s for v in self.V):
            return
        self.V.append({'check': check, 'signature': s, 'detail': detail, 'case': narrowed})

    def chk(self, cond, check, sig, narrowed, **detail):
        self.checks += 1
        if not cond:
            self.bad(check, sig, narrowed, **detail)
        return bool(cond)


def execute(case):
    import pymoto.core_objects as co
    co.get_init_str = lambda: 'pmc'     # diagnostic source-location string (inspect.stack, ~1 ms per object)
    root = tempfile.mkdtemp(prefix='pmc_c20_', dir=os.environ.get('TMPDIR') or None)
    try:
        if case['kind'] == 'vti':
            return _execute_vti(case, root)
        return _execute_log(case, root)
    finally:
        shutil.rmtree(root, ignore_errors=True)


# ------------------------------------------------------------------------------------------------------------ VTI
def _execute_vti(case, root):
    nx, ny, nz = case['grid']
    dim, nel, nnodes = rv.grid_counts(nx, ny, nz)
    if nnodes % nel == 0 or nel % nnodes == 0:
        return {'skipped': 'grid: element and node counts are multiples of each other'}
    members = [m for m in members_of(case['vec']) if admissible_member(m, nel, nnodes)]
    if not members or (case['vec'] in MULTI and len(members) < 2):
        return {'skipped': 'vector shape has no unique element-/node-sized reading on this grid'}
    sink = _Sink(case)
    sink.judged = not any(member_shape(m, nel, nnodes)[3] == 1 for m in members)
    states = trans = nontriv = 0
    keys, outcomes = [], set()
    for n, cfg in enumerate(case['configs']):
        d = os.path.join(root, f'c{n}')     # one directory per configuration, emptied of files after every history
        os.makedirs(d)
        for hist in case['histories']:
            tag, nt, steps = _vti_history(case, members, cfg, hist, d, sink, dim, nel, nnodes)
            _remove_files(d)
            states += 1
            trans += steps
            outcomes.add(tag)
            if nt:
                nontriv += 1
                keys.append(f"vti|{case['grid']}|{case['unit']}|{case['vec']}|{case['values']}|{cfg}|{''.join(h[0] for h in hist)}")
    return {'states': states, 'transitions': trans, 'checks': sink.checks, 'nontrivial': nontriv > 0,
            'key': keys or [f"vti|{case['grid']}|{case['vec']}|{case['values']}|trivial"], 'outcome': sorted(outcomes),
            'observed_only': sorted(sink.obs), 'violations': sink.V}


def _raise_cause(members, states, nel, nnodes):
    """Root cause tag for an exception out of the writer (known: block classified by its TOTAL size)."""
    for m, a in zip(members, states):
        flat, shape, ax, ncols = member_shape(m, nel, nnodes)
        kind = FLAT[flat][0]
        if ncols is not None and kind == 'point' and a.size % nel == 0:
            return 'point_block_total_size_multiple_of_nel'
    return 'other'


def _vti_history(case, members, cfg, hist, d, sink, dim, nel, nnodes):
    import pymoto as pym
    scale, overwrite, fname = cfg
    nx, ny, nz = case['grid']
    ux, uy, uz = case['unit']
    vk, seed = case['values'], case['table']
    narrowed = dict(case, configs=[cfg], histories=[hist])
    stem = os.path.splitext(fname)[0] if fname.lower().endswith('.vti') else fname
    blockish = any('_' in m for m in members)
    sigbase = {'input': 'block' if blockish else 'vector'}

    dom = pym.DomainDefinition(nx, ny, nz, unitx=ux, unity=uy, unitz=uz)
    tags = [FLAT[m.partition('_')[0]][2] for m in members]
    sigs = [pym.Signal(t, build(m, nel, nnodes, vk, 0, seed)) for t, m in zip(tags, members)]
    written = []        # snapshot of the states at each response
    seen = {}           # file name -> bytes at the time it was first judged
    k = 0
    tag = 'ok'
    nontrivial = False
    steps = 0
    try:
        mod = pym.WriteToVTI(sigs, domain=dom, saveto=os.path.join(d, fname), overwrite=overwrite, scale=scale)
    except Exception as e:  # noqa
        inrepo, where = _in_repo(e)
        if not inrepo:
            raise
        sink.bad('vti_raised', dict(sigbase, exc=type(e).__name__, where=where, cause='constructor'),
                 dict(narrowed, histories=[[]]), error=str(e)[-400:])
        return 'raised:ctor', False, 0
    for s, op in enumerate(hist):
        nar = dict(narrowed, histories=[hist[:s + 1]])
        if op != 'same':
            k += 1
            for sg, m in zip(sigs, members):
                new = build(m, nel, nnodes, vk, k, seed)
                if op == 'new':
                    sg.state = new
                else:
                    sg.state[...] = new
        snap = [np.array(sg.state, copy=True) for sg in sigs]
        steps += 1
        try:
            mod.response()
        except Exception as e:  # noqa
            inrepo, where = _in_repo(e)
            if not inrepo:
                raise
            sink.bad('vti_raised', dict(sigbase, exc=type(e).__name__, where=where,
                                        cause=_raise_cause(members, snap, nel, nnodes)), nar,
                     error=str(e)[-400:], shapes=[list(a.shape) for a in snap], nel=nel, nnodes=nnodes)
            return f'raised:{type(e).__name__}', False, steps
        written.append(snap)
        # ---- which files exist now
        files = _listdir(d)
        sub = os.path.dirname(fname)
        counters = {}
        okfiles = True
        for f in files:
            c = rv.file_counter(os.path.basename(f), os.path.basename(stem)) if os.path.dirname(f) == sub else None
            if c is None or c in counters:
                okfiles = False
            counters[c] = f
        # the statement does not fix whether counting starts at 0 or 1: both are accepted, it must be consecutive
        wants = [['']] if overwrite else [list(range(s + 1)), list(range(1, s + 2))]
        okfiles = okfiles and any(sorted(counters, key=str) == sorted(w_, key=str) for w_ in wants)
        if not sink.chk(okfiles, 'vti_files', {'overwrite': overwrite}, nar, files=files, calls=s + 1,
                        expected='one file <stem>.vti' if overwrite else 'files <stem>.<k>.vti, k=0..calls-1'):
            return 'files', nontrivial, steps
        # ---- earlier files untouched, new/overwritten file decodes to the current state
        for c, f in counters.items():
            path = os.path.join(d, f)
            with open(path, 'rb') as fh:
                raw = fh.read()
            cbase = 0 if overwrite or 0 in counters else 1
            it = s if overwrite else c - cbase
            if it < s:
                sink.chk(seen.get(f) == raw, 'vti_earlier_file_changed', {}, nar, file=f, call=s)
                continue
            seen[f] = raw
            nt = _judge_vti_file(raw, f, members, tags, written[it], case, scale, dim, nel, nnodes, sink, nar)
            if nt is None:
                tag = 'bad'
            else:
                nontrivial = nontrivial or nt
    if tag == 'ok':
        secs = sorted({FLAT[m.partition('_')[0]][0] for m in members})
        tag = f"ok:{'+'.join(secs)}:{'ow' if overwrite else 'files' + str(len(hist))}"
    return tag, nontrivial, steps


def _judge_vti_file(raw, fname, members, tags, states, case, scale, dim, nel, nnodes, sink, nar):
    """Returns None if something was wrong, else whether a non-constant array was compared."""
    nx, ny, nz = case['grid']
    ok = True
    try:
        dec = rv.decode_vti(raw)
    except rv.VTIFormatError as e:
        sink.chk(False, 'vti_malformed', {'what': e.what}, nar, file=fname, error=str(e)[:300])
        return None
    sink.checks += 1
    ext = [0, nx, 0, ny, 0, nz]
    ok &= sink.chk(dec['whole_extent'] == ext and dec['piece_extent'] == ext, 'vti_extent', {'dim': dim}, nar,
                   whole=dec['whole_extent'], piece=dec['piece_extent'], want=ext)
    want_sp = [u * scale for u in case['unit']]
    nsp = 3 if dim == 3 else 2
    sp_ok = all(abs(a - b) <= 1e-9 * abs(b) + 1e-12 for a, b in zip(dec['spacing'][:nsp], want_sp[:nsp])) \
        and all(np.isfinite(dec['spacing']))
    ok &= sink.chk(sp_ok, 'vti_spacing', {'scaled': scale != 1.0}, nar, got=dec['spacing'], want=want_sp, scale=scale)
    ok &= sink.chk(all(abs(o) <= 1e-12 for o in dec['origin']), 'vti_origin', {}, nar, got=dec['origin'])
    ok &= sink.chk(dec['npoints'] == nnodes and dec['ncells'] == nel, 'vti_counts', {}, nar,
                   got=[dec['npoints'], dec['ncells']], want=[nnodes, nel])

    # expected arrays: name -> (section, allowed [(ncomp, payload)], layout tag)
    expected = {}
    by_index = {}
    for m, tag, st in zip(members, tags, states):
        flat, shape, ax, ncols = member_shape(m, nel, nnodes)
        kind, c, _ = FLAT[flat]
        layout = 'pad2d' if (kind == 'point' and c == 2 and dim == 2) else 'plain'
        if ncols is None:
            expected[tag] = (kind, rv.expected_payload(st, kind, c, dim, nnodes), layout, False)
        else:
            for j, col in enumerate(rv.block_columns(st, ax)):
                by_index[(tag, j)] = (kind, rv.expected_payload(col, kind, c, dim, nnodes), layout, True)
    found = set()
    nontrivial = False
    for arr in dec['arrays']:
        name = arr['name']
        exp = expected.get(name)
        ident = name
        if exp is None:
            for tag in tags:
                j = rv.column_index_from_name(name, tag)
                if j is not None and (tag, j) in by_index:
                    exp, ident = by_index[(tag, j)], (tag, j)
                    break
            if exp is None and not sink.judged:
                # one-column block written under the bare tag
                for tag in tags:
                    if name == tag and (tag, 0) in by_index:
                        exp, ident = by_index[(tag, 0)], (tag, 0)
        if exp is None or ident in found:
            ok &= sink.chk(False, 'vti_array_name', {'block': bool(by_index)}, nar, file=fname, name=name,
                           expected_names=sorted(expected) + sorted(f"{t}<{j}>" for t, j in by_index))
            continue
        found.add(ident)
        kind, allowed, layout, isblk = exp
        sig = {'data': kind, 'layout': layout, 'block': isblk}
        ok &= sink.chk(arr['type'] == 'Float32' and arr['format'] == 'binary', 'vti_array_type', sig, nar, name=name,
                       type=arr['type'], format=arr['format'])
        ok &= sink.chk(arr['section'] == ('CellData' if kind == 'cell' else 'PointData'), 'vti_section', sig, nar,
                       name=name, got=arr['section'])
        ncs = [a[0] for a in allowed]
        if not sink.chk(arr['ncomp'] in ncs, 'vti_ncomp', sig, nar, name=name, got=arr['ncomp'], allowed=ncs):
            ok = False
            continue
        want = next(a[1] for a in allowed if a[0] == arr['ncomp'])
        got = arr['values']
        same = arr['type'] == 'Float32' and got.shape == want.shape and got.tobytes() == want.tobytes()
        if not same and arr['type'] == 'Float32' and got.shape == want.shape:
            # -0.0 vs 0.0 is not a difference in value
            same = bool(np.array_equal(got, want))
        if not sink.chk(same, 'vti_payload', sig, nar, name=name, got=got[:64], want=want[:64],
                        got_len=int(got.size), want_len=int(want.size),
                        same_multiset=bool(got.shape == want.shape and np.array_equal(np.sort(got), np.sort(want)))):
            ok = False
        ok &= sink.chk(arr['declared_len'] >= len(arr['raw']), 'vti_header_len', sig, nar, name=name,
                       declared=arr['declared_len'], payload_bytes=len(arr['raw']))
        if len(np.unique(want)) >= 2:
            nontrivial = True
    missing = [str(x) for x in list(expected) + list(by_index) if x not in found]
    ok &= sink.chk(not missing, 'vti_array_missing', {}, nar, file=fname, missing=missing,
                   names=[a['name'] for a in dec['arrays']])
    return nontrivial if ok else None


# ------------------------------------------------------------------------------------------------------------ log
def _scal(k, j, seed):
    return float(PRIMES[(k * 7 + j * 5 + seed * 11) % len(PRIMES)] * 10.0 ** ((k + 2 * j + seed) % 7 - 3)
                 * (-1) ** (j + k))


def log_value(name, k, seed):
    j = sorted(LOG_KINDS).index(name)
    arr = lambda n: np.array([_scal(k, j + 3 * i, seed) for i in range(n)])  # noqa
    if name == 'pyfloat':
        return _scal(k, j, seed)
    if name == 'pyint':
        return 3 + 5 * k - 4 * seed
    if name == 'npf64':
        return np.float64(_scal(k, j, seed))
    if name == 'npf32':
        return np.float32(_scal(k, j, seed))
    if name == 'npi64':
        return np.int64(1234567 * (k + 1) - seed)
    if name == 'a0d':
        return np.array(_scal(k, j, seed))
    if name == 'vec1':
        return arr(1)
    if name == 'vec2':
        return arr(2)
    if name == 'vec3':
        return arr(3)
    if name == 'vec5i':
        return np.arange(5) * (k + 2) - 3 - seed
    if name == 'm11':
        return arr(1).reshape(1, 1)
    if name == 'm22':
        return arr(4).reshape(2, 2)
    if name == 'm23':
        return arr(6).reshape(2, 3)
    if name == 'm31':
        return arr(3).reshape(3, 1)
    # other memory layouts of the same kind of data (a reversed view, Fortran order, a layout that changes from call to
    # call): which column holds which entry is told by the header labels tag[i, j]
    if name == 'vec3r':
        return arr(3)[::-1]
    if name == 'm23f':
        return np.asfortranarray(arr(6).reshape(2, 3))
    if name == 'm23x':
        a = arr(6).reshape(2, 3)
        return np.asfortranarray(a) if k % 2 == 0 else np.ascontiguousarray(a)
    raise KeyError(name)


LOG_KINDS = {'pyfloat': 'f', 'pyint': 'n', 'npf64': 'g', 'npf32': 'g32', 'npi64': 'ni', 'a0d': 'z', 'vec1': 'lam',
             'vec2': 'w', 'vec3': 'v', 'vec5i': 'idx', 'm11': 'q', 'm22': 'm', 'm23': 'A', 'm31': 'col',
             'vec3r': 'lr', 'm23f': 'Af', 'm23x': 'Ax'}


def label_order(header, sigs_shapes, tags):
    """column -> (signal number, index tuple) as told by header labels of the form tag[i, j]; None if the header cannot be
    read that way (then the columns are taken in index order)"""
    import json
    out = []
    pos = 1
    for j, (shape, tag) in enumerate(zip(sigs_shapes, tags)):
        cnt = int(np.prod(shape)) if len(shape) else 1
        fields = header[pos:pos + cnt]
        pos += cnt
        if not len(shape):
            out.append((j, ()))
            continue
        got = []
        for f in fields:
            if not f.startswith(tag + '['):
                return None
            try:
                idx = tuple(json.loads(f[len(tag):]))
            except ValueError:
                return None
            if len(idx) != len(shape) or not all(isinstance(q, int) and 0 <= q < n_ for q, n_ in zip(idx, shape)):
                return None
            got.append(idx)
        if len(set(got)) != cnt:
            return None
        out += [(j, idx) for idx in got]
    return out if pos == len(header) else None


def _execute_log(case, root):
    sink = _Sink(case)
    states = trans = nontriv = 0
    keys, outcomes = [], set()
    n = 0
    for fmt in case['fmts']:
        for sepfile in case['files']:
            for stale in case['stale']:
                d = os.path.join(root, f'l{n}')   # one directory per configuration, emptied after every history
                n += 1
                os.makedirs(d)
                for hist in case['histories']:
                    tag, nt, steps = _log_history(case, fmt, sepfile, stale, hist, d, sink)
                    _remove_files(d)
                    states += 1
                    trans += steps
                    outcomes.add(tag)
                    if nt:
                        nontriv += 1
                        keys.append(f"log|{case['signals']}|{fmt}|{sepfile}|{stale}|{''.join(h[0] for h in hist)}")
    return {'states': states, 'transitions': trans, 'checks': sink.checks, 'nontrivial': nontriv > 0,
            'key': keys or [f"log|{case['signals']}|trivial"], 'outcome': sorted(outcomes),
            'observed_only': sorted(sink.obs), 'violations': sink.V}


def _log_history(case, fmt, sepfile, stale, hist, d, sink):
    import pymoto as pym
    sep, fname = sepfile
    names, seed = case['signals'], case['table']
    narrowed = dict(case, fmts=[fmt], files=[sepfile], stale=[stale], histories=[hist])
    path = os.path.join(d, fname)
    usep = ',' if fname.lower().endswith('.csv') else sep
    if stale:
        os.makedirs(os.path.dirname(path), exist_ok=True)
        with open(path, 'w') as f:
            f.write('Iteration\told\n0\t1.0\n1\t2.0\n2\t3.0\n3\t4.0\n4\t5.0\n')
    sigs = [pym.Signal(log_tag(nm), log_value(log_kind(nm), 0, seed + 7 * j_ * ('@' in nm))) for j_, nm in enumerate(names)]
    size1 = any(isinstance(sg.state, np.ndarray) and sg.state.ndim > 0 and sg.state.size == 1 for sg in sigs)
    has2d = any(isinstance(sg.state, np.ndarray) and sg.state.ndim >= 2 for sg in sigs)
    sigin = {'input': 'size1_array' if size1 else 'array' if any(isinstance(sg.state, np.ndarray) and sg.state.ndim > 0
                                                               for sg in sigs) else 'scalar'}
    try:
        mod = pym.ScalarToFile(sigs, saveto=path, fmt=fmt, separator=sep)
    except Exception as e:  # noqa
        inrepo, where = _in_repo(e)
        if not inrepo:
            raise
        sink.bad('log_raised', dict(sigin, exc=type(e).__name__, where=where), dict(narrowed, histories=[[]]),
                 error=str(e)[-400:])
        return 'raised:ctor', False, 0
    logged = []
    snaps = []
    prev_text = None
    k = 0
    steps = 0
    nontrivial = False
    for s, op in enumerate(hist):
        nar = dict(narrowed, histories=[hist[:s + 1]])
        if op != 'same':
            k += 1
            for sg, nm in zip(sigs, names):
                new = log_value(log_kind(nm), k, seed + 7 * names.index(nm) * ('@' in nm))
                if op == 'inplace' and isinstance(sg.state, np.ndarray) and sg.state.ndim > 0:
                    sg.state[...] = new
                else:
                    sg.state = new
        logged.append([v for sg in sigs for v in rv.flat_values(sg.state)])
        snaps.append([np.array(sg.state, dtype=float, order='C') for sg in sigs])
        steps += 1
        try:
            mod.response()
        except Exception as e:  # noqa
            inrepo, where = _in_repo(e)
            if not inrepo:
                raise
            sink.bad('log_raised', dict(sigin, exc=type(e).__name__, where=where), nar, error=str(e)[-400:],
                     states=[repr(sg.state)[:80] for sg in sigs])
            return f'raised:{type(e).__name__}', False, steps
        files = _listdir(d)
        if not sink.chk(files == [fname], 'log_files', {}, nar, files=files, want=[fname]):
            return 'files', nontrivial, steps
        log = rv.parse_log(path, usep)
        if not sink.chk(len(log['lines']) == s + 2, 'log_lines', {'stale_file_present': bool(stale)}, nar,
                        lines=log['lines'][:12], calls=s + 1):
            return 'lines', nontrivial, steps
        if prev_text is not None:
            sink.chk(log['text'].startswith(prev_text), 'log_earlier_rows_changed', {}, nar, before=prev_text,
                     now=log['text'])
        prev_text = log['text']
        # header: one non-numeric line naming every signal, one field per column
        ncols = 1 + len(logged[-1])
        hdr_ok = not all(rv.is_number(h) for h in log['header']) and \
            all(log_tag(nm) in log['lines'][0] for nm in names)
        sink.chk(hdr_ok, 'log_header', dict(sigin, what='content'), nar, header=log['lines'][0])
        if usep == ',' and has2d:
            if len(log['header']) != ncols:
                sink.obs.add('csv header of a logged 2-D array has more fields than the rows (tag contains the comma)')
        else:
            sink.chk(len(log['header']) == ncols, 'log_header', dict(sigin, what='field_count'), nar,
                     header=log['header'], columns=ncols)
        # which entry a column holds: as labelled by the header (tag[i, j]); in index order if it has no such labels
        order = label_order(log['header'], [np.shape(a_) for a_ in snaps[0]], [log_tag(nm) for nm in names]) \
            if len(log['header']) == ncols else None
        if order is not None:
            logged_now = [[float(sn[j][idx]) if idx else float(sn[j]) for j, idx in order] for sn in snaps]
        else:
            logged_now = logged
        # every row written so far
        for r, (row, vals) in enumerate(zip(log['rows'], logged_now)):
            if not sink.chk(len(row) == 1 + len(vals), 'log_columns', sigin, nar, row=row, expected_values=len(vals)):
                continue
            first = float(log['rows'][0][0]) if rv.is_number(log['rows'][0][0]) else None
            base = first if first in (0.0, 1.0) else 0.0      # counting may start at 0 or at 1
            sink.chk(rv.is_number(row[0]) and float(row[0]) == r + base, 'log_iteration', {}, nar, row_index=r,
                     got=row[0])
            bad = [(c, col, v, format(float(v), fmt)) for c, (col, v) in enumerate(zip(row[1:], vals))
                   if not rv.column_ok(col, v, fmt)]
            sink.chk(not bad, 'log_values', sigin, nar, fmt=fmt, row_index=r,
                     mismatches=[{'column': c + 1, 'got': col, 'value': v, 'formatted': w} for c, col, v, w in bad[:5]])
            nontrivial = nontrivial or len(vals) > 0
    return f"ok:{sigin['input']}:{fmt}:{'csv' if usep == ',' else repr(usep)}", nontrivial, steps
