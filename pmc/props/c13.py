"""C13 -- structured-grid numbering, connectivity and shape functions (E1 lattice explorer)."""
import itertools
import os
import numpy as np
from pmc.refs import fe
from pmc.engine.tol import alg_close, exact_equal

PROPERTY = 'C13'
RULE = ("lattice: every (nelx,nely[,nelz]) up to the bound x element-size table x dofs-per-node 1..3; per grid every "
        "element, node and every point of the 5^dim local lattice (corners, centre, edges) plus Gauss points; "
        "a case is non-trivial if the grid has >1 element or dim==3; distinct by (grid,size)")
RULE += " Extended in seeding rounds 6-7:  scalar node arguments give scalar-shaped answers; geometry unchanged after a scaled write_to_vti."
ASSUMPTIONS = ["reference numbering/shape functions in pmc/refs/fe.py are written from the DomainDefinition docstring",
               "'integer or array' arguments: a single node number gives one index tuple of shape (dim,), one position of "
               "shape (dim,) and a scalar node number on the way back (no extra axis of length one)",
               "numpy integer/float arithmetic"]

SIZE_TABLES = {
    0: [(1.0, 1.0, 1.0), (0.5, 2.5, 1.0), (2.5, 1.0, 0.5)],
    1: [(1.0, 1.0, 1.0), (2.5, 0.5, 2.5), (0.5, 0.5, 1.0)],
    2: [(1.0, 1.0, 1.0), (1.0, 2.5, 0.5), (2.5, 2.5, 2.5)],
}
# python-int element sizes (unitx=2 is as legitimate as unitx=2.0)
INT_SIZES = [(1, 1, 1), (2, 1, 3), (1, 3, 2)]
for _k in SIZE_TABLES:
    SIZE_TABLES[_k] = SIZE_TABLES[_k] + [INT_SIZES[0], INT_SIZES[1 + _k % 2]]
ALL_SIZES = sorted(set(itertools.product((1.0, 0.5, 2.5), repeat=3))) + INT_SIZES


def bounds(tier, seed):
    if tier == 'quick':
        return {'max2d': 5, 'max3d': 3, 'sizes': SIZE_TABLES[seed % 3], 'ndof': [1, 2, 3]}
    return {'max2d': 6, 'max3d': 4, 'sizes': 'all 27 of {1,0.5,2.5}^3 and three python-int triples', 'ndof': [1, 2, 3]}


def generate(tier, seed):
    b = bounds(tier, seed)
    sizes = SIZE_TABLES[seed % 3] if tier == 'quick' else ALL_SIZES
    grids = [(nx, ny, 0) for nx in range(1, b['max2d'] + 1) for ny in range(1, b['max2d'] + 1)]
    grids += [(nx, ny, nz) for nx in range(1, b['max3d'] + 1) for ny in range(1, b['max3d'] + 1)
              for nz in range(1, b['max3d'] + 1)]
    grids.sort(key=lambda g: (fe.nel(*g), g))
    for g in grids:
        for s in sizes:
            if g[2] == 0 and s[2] != 1.0 and tier == 'thorough':
                continue  # third size irrelevant in 2-D
            yield {'grid': list(g), 'size': list(s)}


def ref_nd_tab(nx, ny, nz, nidx, ref_n):
    t = np.zeros((nx + 1, ny + 1, nz + 1), dtype=int)
    for (i, j, k), n in zip(nidx, ref_n):
        t[i, j, k] = n
    return t


def same_domain(a, b):
    """two DomainDefinition objects describe the same grid (public attributes and tables)"""
    keys = ('dim', 'nel', 'nnodes', 'elemnodes', 'nelx', 'nely', 'nelz')
    if any(getattr(a, k) != getattr(b, k) for k in keys):
        return False
    return all(np.array_equal(np.asarray(getattr(a, k)), np.asarray(getattr(b, k)))
               for k in ('conn', 'elements', 'nodes', 'element_size'))


def execute(case):
    import pymoto as pym
    nx, ny, nz = case['grid']
    sz = case['size']
    dim = 3 if nz > 0 else 2
    dom = pym.DomainDefinition(nx, ny, nz, unitx=sz[0], unity=sz[1], unitz=sz[2])
    V = []
    nchecks = 0

    def bad(check, **detail):
        V.append({'check': check, 'signature': {'check': check, 'dim': dim}, 'detail': detail})

    def chk(cond, check, **detail):
        nonlocal nchecks
        nchecks += 1
        if not cond:
            bad(check, **detail)

    chk(dom.dim == dim and dom.nel == fe.nel(nx, ny, nz) and dom.nnodes == fe.nnodes(nx, ny, nz)
        and dom.elemnodes == 2 ** dim, 'counts', got=[dom.dim, dom.nel, dom.nnodes, dom.elemnodes])
    if dim == 2:
        # the other documented spellings of a 2-D grid: nelz omitted, nelz=None
        for how, mk in (('omitted', lambda: pym.DomainDefinition(nx, ny, unitx=sz[0], unity=sz[1], unitz=sz[2])),
                        ('none', lambda: pym.DomainDefinition(nx, ny, None, unitx=sz[0], unity=sz[1], unitz=sz[2]))):
            try:
                d2 = mk()
                okd = same_domain(d2, dom)
            except Exception as e:  # noqa
                okd = False
            chk(okd, 'two_d_spelling', how=how)

    # element numbers: bijection with Cartesian indices, scalar and array forms
    eidx = fe.elem_indices(nx, ny, nz)
    ref_e = [fe.elem_number(nx, ny, nz, *ijk) for ijk in eidx]
    got_e = [int(dom.get_elemnumber(*ijk)) for ijk in eidx]
    chk(got_e == ref_e and sorted(got_e) == list(range(dom.nel)), 'elem_number_bijection', got=got_e, ref=ref_e)
    ii, jj, kk = (np.array(c) for c in zip(*eidx))
    chk(exact_equal(dom.get_elemnumber(ii, jj, kk), np.array(ref_e)), 'elem_number_array')

    # node numbers
    nidx = fe.node_indices(nx, ny, nz)
    ref_n = [fe.node_number(nx, ny, nz, *ijk) for ijk in nidx]
    got_n = [int(dom.get_nodenumber(*ijk)) for ijk in nidx]
    chk(got_n == ref_n and sorted(got_n) == list(range(dom.nnodes)), 'node_number_bijection', got=got_n, ref=ref_n)
    # inverse map
    inv = dom.get_node_indices()
    ref_inv = np.array([ijk[:dim] for ijk in nidx]).T
    chk(exact_equal(inv, ref_inv), 'node_indices_inverse', got=inv, ref=ref_inv)
    for n in (0, dom.nnodes - 1, dom.nnodes // 2):
        # a single node number (python int or numpy integer) gives ONE index tuple (i, j[, k]), a single position and
        # a scalar number on the way back -- not arrays with an extra axis of length one
        for nn_ in (int(n), np.int64(n)):
            one = dom.get_node_indices(nn_)
            chk(exact_equal(np.asarray(one), ref_inv[:, n]), 'node_indices_scalar', n=n, got=one,
                got_shape=list(np.shape(one)), want_shape=[dim])
            back = dom.get_nodenumber(*one)
            chk(np.ndim(back) == 0 and int(np.asarray(back).reshape(-1)[0]) == n, 'node_number_roundtrip_scalar', n=n,
                got=back, got_shape=list(np.shape(back)))
            p1 = np.asarray(dom.get_node_position(nn_))
            chk(p1.shape == (dim,) and alg_close(p1, fe.node_positions(nx, ny, nz, sz)[:, n]), 'node_position_scalar',
                n=n, got=p1, got_shape=list(p1.shape))
    sel = np.arange(dom.nnodes)[::-1]
    chk(exact_equal(dom.get_node_indices(sel), ref_inv[:, sel]), 'node_indices_array')

    # connectivity
    conn = fe.connectivity(nx, ny, nz)
    chk(exact_equal(dom.conn, conn), 'conn', got=dom.conn, ref=conn)
    chk(exact_equal(dom.get_elemconnectivity(ii, jj, kk), conn), 'elemconnectivity_array')
    for (i, j, k), e in zip(eidx, ref_e):
        chk(exact_equal(np.asarray(dom.get_elemconnectivity(i, j, k)).flatten(), conn[e]), 'elemconnectivity_scalar',
            ijk=[i, j, k])
        # corners are exactly the 2^dim nodes of this cell
        chk(len(set(conn[e].tolist())) == 2 ** dim, 'conn_distinct_corners')
    # index arrays of any shape ("integer or array"): a block of elements addressed by meshgrid index arrays
    Ib = np.meshgrid(np.arange(nx), np.arange(ny), *( [np.arange(nz)] if dim == 3 else [] ), indexing='ij')
    gotb = np.asarray(dom.get_elemconnectivity(*Ib))
    refb = np.zeros(Ib[0].shape + (2 ** dim,), dtype=int)
    for idx in np.ndindex(*Ib[0].shape):
        refb[idx] = conn[fe.elem_number(nx, ny, nz, *(list(idx) + [0] * (3 - len(idx))))]
    chk(gotb.shape == refb.shape and exact_equal(gotb, refb), 'elemconnectivity_block',
        got_shape=list(gotb.shape), want_shape=list(refb.shape))
    nb = np.asarray(dom.get_nodenumber(*np.meshgrid(np.arange(nx + 1), np.arange(ny + 1),
                                                     *([np.arange(nz + 1)] if dim == 3 else []), indexing='ij')))
    chk(exact_equal(nb.reshape(nb.shape + (1,) * (3 - nb.ndim)), ref_nd_tab(nx, ny, nz, nidx, ref_n)), 'nodenumber_block')
    for ndof in (1, 2, 3):
        dc = fe.dof_connectivity(nx, ny, nz, ndof)
        got = dom.get_dofconnectivity(ndof)
        chk(exact_equal(got, dc), 'dofconnectivity', ndof=ndof, got=got, ref=dc)

    # helper tables
    ref_el = np.zeros((nx, ny, max(nz, 1)), dtype=int)
    for (i, j, k), e in zip(eidx, ref_e):
        ref_el[i, j, k] = e
    chk(exact_equal(dom.elements, ref_el), 'elements_table')
    ref_nd = np.zeros((nx + 1, ny + 1, nz + 1), dtype=int)
    for (i, j, k), n in zip(nidx, ref_n):
        ref_nd[i, j, k] = n
    chk(exact_equal(dom.nodes, ref_nd), 'nodes_table')

    # positions
    pos = fe.node_positions(nx, ny, nz, sz)
    chk(alg_close(dom.get_node_position(), pos), 'node_position', got=dom.get_node_position(), ref=pos)
    chk(alg_close(dom.get_node_position(sel), pos[:, sel]), 'node_position_array')
    # every number of requested nodes from 1 to 4 (one of them equals the space dimension)
    for cnt in range(1, min(4, dom.nnodes) + 1):
        pick = np.arange(dom.nnodes)[::-1][:cnt][::-1] if cnt % 2 else np.arange(dom.nnodes)[:cnt][::-1]
        got = np.asarray(dom.get_node_position(pick))
        chk(got.shape == (dim, cnt) and alg_close(got, pos[:, pick]), 'node_position_few', count=cnt,
            got=got, ref=pos[:, pick])
    # element corner positions follow local order
    for e in (0, dom.nel - 1):
        p = dom.get_node_position(dom.conn[e])
        offs = fe.local_offsets(dim)
        d = p - p[:, [0]]
        ref_d = np.array([[o[c] * sz[c] for o in offs] for c in range(dim)])
        chk(alg_close(d, ref_d), 'corner_positions_local_order', e=e, got=d, ref=ref_d)

    # shape functions on the 5^dim lattice + Gauss points
    lat = [np.array(t) for t in itertools.product((-0.5, -0.25, 0.0, 0.25, 0.5), repeat=dim)]
    pts = [t * np.array(sz[:dim]) for t in lat] + [p for p, _ in fe.gauss_points(dim, sz, 2)]
    offs = fe.local_offsets(dim)
    for p in pts:
        N = dom.eval_shape_fun(p)
        Nref = fe.shape_fun(dim, sz, p)
        chk(np.shape(N) == (2 ** dim,) and alg_close(N, Nref, scale=1.0), 'shape_fun_value', pos=p, got=N, ref=Nref)
        chk(np.all(np.asarray(N) >= -1e-12) and abs(np.sum(N) - 1) <= 1e-12, 'shape_fun_partition', pos=p, got=N)
        dN = dom.eval_shape_fun_der(p)
        dref = fe.shape_fun_der(dim, sz, p)
        sc = 1.0 / min(sz[:dim])
        chk(np.shape(dN) == (dim, 2 ** dim) and alg_close(dN, dref, scale=sc), 'shape_fun_der_value', pos=p, got=dN,
            ref=dref)
        # gradient of the module's own functions (central difference is exact for multilinear functions)
        h = 0.125
        fd = np.zeros((dim, 2 ** dim))
        for d in range(dim):
            e_d = np.zeros(dim)
            e_d[d] = h * sz[d]
            fd[d] = (np.asarray(dom.eval_shape_fun(p + e_d)) - np.asarray(dom.eval_shape_fun(p - e_d))) / (2 * h * sz[d])
        chk(alg_close(dN, fd, scale=sc), 'shape_fun_der_is_gradient', pos=p, got=dN, ref=fd)
    for a, o in enumerate(offs):
        corner = np.array([(o[d] - 0.5) * sz[d] for d in range(dim)])
        N = np.asarray(dom.eval_shape_fun(corner))
        ref = np.zeros(2 ** dim)
        ref[a] = 1.0
        chk(alg_close(N, ref, scale=1.0), 'shape_fun_kronecker', a=a, got=N)

    # the geometry belongs to the domain, not to what was last done with it: writing a (scaled) result file leaves
    # element sizes, node positions and shape functions as they were
    import tempfile
    with tempfile.TemporaryDirectory(prefix='pmc_c13_') as td:
        try:
            dom.write_to_vti({'rho': np.linspace(0.0, 1.0, dom.nel)}, os.path.join(td, 'g.vti'), scale=2.5)
            wrote = True
        except Exception:  # noqa   (file writing itself is judged by C20)
            wrote = False
    if wrote:
        chk(exact_equal(np.asarray(dom.element_size, dtype=float), np.asarray(sz, dtype=float)), 'geometry_after_write',
            what='element_size', got=np.asarray(dom.element_size), want=list(sz))
        chk(alg_close(dom.get_node_position(), pos), 'geometry_after_write', what='node_position')
        p0 = pts[1]
        chk(alg_close(dom.eval_shape_fun_der(p0), fe.shape_fun_der(dim, sz, p0), scale=1.0 / min(sz[:dim])),
            'geometry_after_write', what='shape_fun_der')

    return {'states': 1, 'transitions': nchecks, 'checks': nchecks,
            'nontrivial': dom.nel > 1 or dim == 3, 'key': f"{nx}x{ny}x{nz}|{sz}",
            'outcome': f"{dom.nel}/{dom.nnodes}/{'ok' if not V else V[0]['check']}", 'violations': V}
