"""Dense reference semantics for DyadCarrier operations (never imports pymoto).

The reference value of a carrier is the plain numpy matrix it stands for; every operation below is the ordinary
numpy operation on that matrix.  Operand tables are deterministic functions of the current shape.
"""
import numpy as np

PRIMES = np.sqrt(np.array([2, 3, 5, 7, 11, 13, 17, 19, 23, 29, 31, 37, 41, 43, 47, 53, 59, 61, 67, 71, 73, 79, 83, 89.]))


def tab(n, k, seed=0):
    """n 'generic' numbers in (-1,1), deterministic in (k, seed)."""
    v = PRIMES[(np.arange(n) * 5 + k * 7 + seed * 11) % len(PRIMES)] * (1.0 + 0.37 * k)
    return (v - np.floor(v)) * 2 - 1


def vec(n, k, seed=0, cplx=False):
    v = tab(n, k, seed)
    if cplx:
        v = v + 1j * tab(n, k + 13, seed)
    return v


def mat(r, c, k, seed=0, cplx=False):
    m = tab(r * c, k, seed).reshape(r, c)
    if cplx:
        m = m + 1j * tab(r * c, k + 17, seed).reshape(r, c)
    return m


def dyads(names, r, c, seed=0):
    """list of (u, v) pairs for an initial state / operand carrier name."""
    if names == 'empty':
        return []
    if names == 'r1':
        return [(vec(r, 1, seed), vec(c, 2, seed))]
    if names == 'r2':
        return [(vec(r, 1, seed), vec(c, 2, seed)), (vec(r, 3, seed), vec(c, 4, seed))]
    if names == 'c1':
        return [(vec(r, 5, seed, True), vec(c, 6, seed, True))]
    if names == 'mix':
        return [(vec(r, 1, seed), vec(c, 6, seed, True)), (vec(r, 5, seed, True), vec(c, 4, seed))]
    if names == 'Pr':
        return [(vec(r, 7, seed), vec(c, 8, seed))]
    if names == 'Pc':
        return [(vec(r, 9, seed, True), vec(c, 10, seed))]
    raise KeyError(names)


def dense_of(pairs, r, c):
    cplx = any(np.iscomplexobj(u) or np.iscomplexobj(v) for u, v in pairs)
    out = np.zeros((r, c), dtype=complex if cplx else float)
    for u, v in pairs:
        out = out + np.outer(u, v)
    return out


def zero_rows(R, idx):
    R = R.copy()
    R[idx, :] = 0
    return R


def zero_cols(R, idx):
    R = R.copy()
    R[:, idx] = 0
    return R
