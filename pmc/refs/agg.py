"""Reference model for C16 (aggregation bounds, active sets, damped scale factor).

Written from the property statement; does NOT import pymoto.  Everything that decides a verdict on set
membership is done in exact rational arithmetic (Python floats are exact rationals), so the reference never has
to guess which way a floating-point rounding went: points where the statement's answer depends on a rounding of
the last bit are reported as *ambiguous* (band edges) or *inadmissible* (counts) and are not judged.
"""
import itertools
import math
from fractions import Fraction

import numpy as np

# ----------------------------------------------------------------------------------------------------------------
# value tables ("generic" numbers: fractional parts of square roots of primes; no RNG)
# ----------------------------------------------------------------------------------------------------------------
PRIMES = [2, 3, 5, 7, 11, 13, 17, 19, 23, 29, 31, 37, 41, 43, 47, 53, 59, 61, 67, 71, 73, 79, 83, 89, 97, 101, 103,
          107, 109, 113, 127, 131, 137, 139, 149, 151, 157, 163, 167, 173, 179, 181, 191, 193, 197, 199, 211, 223,
          227, 229, 233, 239, 241, 251, 257, 263, 269, 271, 277, 281, 283, 293, 307, 311, 313, 317, 331, 337, 347,
          349, 353, 359, 367, 373, 379, 383, 389, 397, 401, 409, 419, 421, 431, 433, 439, 443, 449, 457, 461, 463,
          467, 479, 487, 491, 499, 503, 509, 521, 523, 541]

# three-level sets for the exhaustive tie vectors {a,b,c}^n; all entries are dyadic so that differences and the
# normalised values 0, (b-a)/(c-a), 1 are computed without rounding surprises.  The last one has mixed signs and is
# used for the active set only (aggregations are stated for positive data).
LEVELS = {
    'L0': (1.0, 2.0, 3.0),
    'L1': (0.5, 1.25, 2.0),
    'L2': (1.0, 2.0, 4.0),
    'L3': (2.0, 3.0, 6.0),
    'L4': (0.25, 1.0, 1.75),
    'LM': (-1.0, 0.5, 2.0),
}
POSITIVE_LEVELS = ['L0', 'L1', 'L2', 'L3', 'L4']


def generic(n, k, seed=0, lo=0.2, span=3.1):
    """n distinct positive 'generic' numbers in (lo, lo+span); table k of value-table family `seed`."""
    off = 13 * k + 31 * seed
    out = []
    for i in range(n):
        r = math.sqrt(PRIMES[(7 * i + off) % len(PRIMES)])
        out.append(lo + span * (r - math.floor(r)))
    return np.array(out, dtype=float)


def vector(spec, seed_unused=None):
    """Vector from a JSON descriptor.
      ['tie', levelset, [digits]]      entries levelset[d]
      ['gen', k, n, seed]              generic table
      ['gen', k, n, seed, scale]       scaled generic table
    """
    kind = spec[0]
    if kind == 'tie':
        lv = LEVELS[spec[1]]
        return np.array([lv[d] for d in spec[2]], dtype=float)
    if kind == 'gen':
        v = generic(int(spec[2]), int(spec[1]), int(spec[3]))
        if len(spec) > 4:
            v = v * float(spec[4])
        return v
    if kind == 'aff':   # ['aff', k, n, seed, offset, scale]: offset + scale * generic table (clustered / tiny data)
        return float(spec[4]) + float(spec[5]) * generic(int(spec[2]), int(spec[1]), int(spec[3]))
    raise KeyError(spec)


def min_gap(x):
    """smallest difference between two distinct-position entries (inf for n<2)"""
    xs = np.sort(np.asarray(x, dtype=float))
    return float(np.min(np.diff(xs))) if xs.size > 1 else float('inf')


# ----------------------------------------------------------------------------------------------------------------
# active set
# ----------------------------------------------------------------------------------------------------------------
# fractions are table entries addressed by name: the float handed to the code is float(name), the count is computed
# from the intended rational
FRACTIONS = {
    '0': Fraction(0), '0.1': Fraction(1, 10), '0.125': Fraction(1, 8), '0.2': Fraction(1, 5),
    '0.25': Fraction(1, 4), '0.3': Fraction(3, 10), '0.4': Fraction(2, 5), '0.5': Fraction(1, 2),
    '0.6': Fraction(3, 5), '0.7': Fraction(7, 10), '0.75': Fraction(3, 4), '0.8': Fraction(4, 5),
    '0.875': Fraction(7, 8), '0.9': Fraction(9, 10), '1': Fraction(1),
}


def is_dyadic(f):
    d = Fraction(f).denominator
    return d & (d - 1) == 0


def removal_count(n, fraction):
    """floor(n*fraction) entries ("rounded down to whole entries"), or None when the point is inadmissible: the exact
    product is a non-zero integer but the fraction is not representable in binary, so that 'rounded down' would be
    decided by the last bit of a floating-point product (10*(1-0.9) = 0.99999999999999978)."""
    f = Fraction(fraction)
    prod = n * f
    if prod.denominator == 1 and prod != 0 and not is_dyadic(f):
        return None
    return int(math.floor(prod))


def counts(n, lower_amt, upper_amt):
    """(#lowest to drop, #highest to drop) for fraction names; None if inadmissible"""
    kl = removal_count(n, FRACTIONS[lower_amt])
    kh = removal_count(n, 1 - FRACTIONS[upper_amt])
    if kl is None or kh is None:
        return None
    return kl, kh


EDGE_TOL = Fraction(1, 10 ** 12)


def band(x, lower_rel, upper_rel):
    """Exact band membership of the normalised values (x-min)/(max-min) in [lower_rel, upper_rel].
    Returns (inband, free): `free` marks entries whose normalised value is within 1e-12 of an edge without
    being exactly on a dyadic edge -- floating-point evaluation may legitimately put them on either side.
    Constant vector -> None (normalisation undefined)."""
    xs = [Fraction(float(v)) for v in x]
    lo, hi = min(xs), max(xs)
    if hi == lo:
        return None
    lr, ur = Fraction(float(lower_rel)), Fraction(float(upper_rel))
    inband, free = [], []
    for v in xs:
        rel = (v - lo) / (hi - lo)
        inband.append(lr <= rel <= ur)
        amb = False
        for e in (lr, ur):
            d = abs(rel - e)
            if d <= EDGE_TOL and not (d == 0 and is_dyadic(e) and e.denominator <= 4):
                amb = True
        free.append(amb)
    return inband, free


def extreme_choices(x, k, lowest=True):
    """All index sets that are 'the k lowest (highest) entries' of x; ties at the threshold value: any choice."""
    n = len(x)
    if k == 0:
        return [frozenset()]
    key = [float(v) if lowest else -float(v) for v in x]
    thr = sorted(key)[k - 1]
    must = [i for i in range(n) if key[i] < thr]
    ties = [i for i in range(n) if key[i] == thr]
    need = k - len(must)
    return [frozenset(must) | frozenset(c) for c in itertools.combinations(ties, need)]


def as_mask(m, n):
    """Normalise what an active set returned: Ellipsis -> all selected; bool array of shape (n,) -> list; else None"""
    if m is Ellipsis:
        return [True] * n
    a = np.asarray(m)
    if a.dtype != bool or a.shape != (n,):
        return None
    return [bool(v) for v in a]


def valid_masks(x, lower_rel, upper_rel, kl, kh, band_=False):
    """Iterator over (expected mask, free flags) for every allowed choice of lowest/highest entries.
    band_: optionally the precomputed result of band(x, lower_rel, upper_rel)."""
    n = len(x)
    b = band(x, lower_rel, upper_rel) if band_ is False else band_
    if b is None:
        # constant vector: normalised value undefined -> everything is selected (DESIGN); also accept the reading
        # "band = everything, then drop the k lowest/highest" (all entries tie, any choice)
        yield [True] * n, [False] * n
        inband, free = [True] * n, [False] * n
    else:
        inband, free = b
    for L in extreme_choices(x, kl, True):
        for H in extreme_choices(x, kh, False):
            exp = [inband[i] and i not in L and i not in H for i in range(n)]
            fr = [free[i] and i not in L and i not in H for i in range(n)]
            yield exp, fr


def mask_ok(x, mask, lower_rel, upper_rel, kl, kh, band_=False):
    """True if `mask` (list of bool) is band minus SOME valid choice of the kl lowest / kh highest entries."""
    for exp, fr in valid_masks(x, lower_rel, upper_rel, kl, kh, band_):
        if all(fr[i] or exp[i] == mask[i] for i in range(len(mask))):
            return True
    return False


def mask_diagnosis(x, mask, lower_rel, upper_rel, kl, kh):
    """'removes_too_many' / 'removes_too_few' / 'removes_wrong_entries' relative to the set of valid masks"""
    nrem = sum(1 for v in mask if not v)
    lo, hi = None, None
    for exp, fr in valid_masks(x, lower_rel, upper_rel, kl, kh):
        a = sum(1 for i, v in enumerate(exp) if not v and not fr[i])
        b = sum(1 for i, v in enumerate(exp) if not v or fr[i])
        lo = a if lo is None else min(lo, a)
        hi = b if hi is None else max(hi, b)
    if nrem > hi:
        return 'removes_too_many'
    if nrem < lo:
        return 'removes_too_few'
    return 'removes_wrong_entries'


# ----------------------------------------------------------------------------------------------------------------
# aggregation bounds (positive data)
# ----------------------------------------------------------------------------------------------------------------
def true_extreme(x, which):
    x = np.asarray(x, dtype=float)
    return float(np.max(x)) if which == 'max' else float(np.min(x))


def which_of(param):
    """positive parameter approximates the maximum, negative the minimum"""
    return 'max' if param > 0 else 'min'


def bounds(cls, param, x):
    """(lo, hi): the known bounds of the aggregate of positive data x.
      PNorm      p>0: max <= S <= n^(1/p) max          p<0: n^(1/p) min <= S <= min
      KSFunction r>0: max <= S <= max + ln(n)/r        r<0: min + ln(n)/r <= S <= min
      SoftMinMax a>0: mean <= S <= max                 a<0: min <= S <= mean
    """
    x = np.asarray(x, dtype=float)
    n = x.size
    mx, mn, mean = float(np.max(x)), float(np.min(x)), float(math.fsum(x.tolist()) / n)
    if cls == 'PNorm':
        f = float(n) ** (1.0 / param)
        return (mx, f * mx) if param > 0 else (f * mn, mn)
    if cls == 'KSFunction':
        s = math.log(n) / param
        return (mx, mx + s) if param > 0 else (mn + s, mn)
    if cls == 'SoftMinMax':
        return (mean, mx) if param > 0 else (mn, mean)
    raise KeyError(cls)


def formula(cls, param, x):
    """Textbook value (overflow-safe evaluation), used for information only -- the statement demands bounds."""
    x = np.asarray(x, dtype=float)
    if cls == 'PNorm':
        ref = float(np.max(x)) if param > 0 else float(np.min(x))
        return ref * float(math.fsum(((x / ref) ** param).tolist())) ** (1.0 / param)
    if cls == 'KSFunction':
        ref = float(np.max(x)) if param > 0 else float(np.min(x))
        return ref + math.log(math.fsum(np.exp(param * (x - ref)).tolist())) / param
    if cls == 'SoftMinMax':
        ref = float(np.max(x)) if param > 0 else float(np.min(x))
        w = np.exp(param * (x - ref))
        return float(math.fsum((x * w).tolist()) / math.fsum(w.tolist()))
    raise KeyError(cls)


def in_range(cls, param, x):
    """Admissible numeric range: positive data and no overflow/underflow-to-zero of the naive exp / power sums
    (the statement is about the mathematical functions, not about the floating-point range).  The sum overflows if
    its LARGEST term does and underflows to zero only if its largest term does: terms far below the largest one may
    vanish without harm (a soft minimum of widely spread data is well defined)."""
    x = np.asarray(x, dtype=float)
    if x.size == 0 or not np.all(x > 0) or not np.all(np.isfinite(x)):
        return False
    if cls == 'PNorm':
        return bool(abs(np.max(param * np.log(x))) <= 300.0)
    if cls == 'KSFunction':
        return bool(abs(np.max(param * x)) <= 300.0)
    return True


def tol(scale):
    """ALG class of DESIGN 3.2"""
    return 1e-9 * abs(scale) + 1e-12


# ----------------------------------------------------------------------------------------------------------------
# damped scale factor
# ----------------------------------------------------------------------------------------------------------------
class ScaleModel:
    """s_k = d*s_(k-1) + (1-d)*true_k/approx_k;  the first call has no previous factor: s_0 = true_0/approx_0."""

    def __init__(self, damping):
        self.d = float(damping)
        self.s = None
        self.k = 0

    def step(self, true, approx):
        r = float(true) / float(approx)
        if self.s is None:
            self.s = r
        else:
            self.s = self.d * self.s + (1.0 - self.d) * r
        self.k += 1
        return self.s
