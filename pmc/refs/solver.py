"""Reference bookkeeping for linear solvers (never imports pymoto).

* op(A, trans)               -- the matrix a request is about
* Span bookkeeping for LDAS  -- which right-hand sides are already answerable for which effective system,
  following the table documented in LDAWrapper.solve:

      requested     symmetric A      Hermitian A      any A (adjoint storage)
      A   x = b     A x = b          A x = b          A x = b
      A^T x = b     A x = b          A x* = b*        A^H x* = b*
      A^H x = b     A x* = b*        A x = b          A^H x = b
"""
import itertools
import numpy as np


def op(A, trans):
    A = np.asarray(A)
    return {'N': A, 'T': A.T, 'H': A.conj().T}[trans]


def is_symmetric(A):
    A = np.asarray(A)
    return bool(np.abs(A - A.T).max() <= 1e-13 * max(1.0, np.abs(A).max()))


def is_hermitian(A):
    A = np.asarray(A)
    return bool(np.abs(A - A.conj().T).max() <= 1e-13 * max(1.0, np.abs(A).max()))


def canonical(trans, b, column):
    """(system, rhs) under one column of the documented table; column in {'sym','herm','gen'}."""
    if trans == 'N':
        return 'N', b
    if column == 'sym':
        return ('N', b) if trans == 'T' else ('N', np.conj(b))
    if column == 'herm':
        return ('N', np.conj(b)) if trans == 'T' else ('N', b)
    return ('H', np.conj(b)) if trans == 'T' else ('H', b)


def span_residual(c, vecs, real_only=False):
    """relative distance of c from span(vecs) (complex span, or real span of the real members)."""
    c = np.asarray(c)
    nc = np.linalg.norm(c)
    if nc == 0:
        return 0.0
    if real_only:
        # real members, and the real direction r of members z*r that are a complex multiple of a real vector (what is
        # left of a real right-hand side after removing its component along z*r is real again)
        rv = []
        for v in vecs:
            re_, im_ = np.real(v), np.imag(v)
            if np.linalg.norm(im_) == 0:
                rv.append(re_)
            elif np.linalg.norm(re_) == 0:
                rv.append(im_)
            else:
                k_ = int(np.argmax(np.abs(v)))
                r_ = v / v[k_]
                if np.linalg.norm(np.imag(r_)) <= 1e-13 * np.linalg.norm(np.real(r_)):
                    rv.append(np.real(r_) * abs(v[k_]))
        vecs = rv
        if np.linalg.norm(np.imag(c)) != 0:
            return 1.0
        c = np.real(c)
    vecs = [v for v in vecs if np.linalg.norm(v) > 0]
    if not vecs:
        return 1.0
    M = np.stack(vecs, axis=1)
    coef = np.linalg.lstsq(M, c, rcond=None)[0]
    return float(np.linalg.norm(M @ coef - c) / nc)


class SpanModel:
    """History of right-hand sides solved for the current matrix, per table column."""

    def __init__(self):
        self.A = None
        self.columns = []
        self.hist = {}

    def update(self, A):
        self.A = np.asarray(A)
        cols = []
        if is_symmetric(self.A):
            cols.append('sym')
        if is_hermitian(self.A):
            cols.append('herm')
        if not cols:
            cols = ['gen']
        self.columns = cols
        self.hist = {c: {'N': [], 'H': []} for c in cols}

    def _cols(self, b):
        b = np.asarray(b)
        return [b] if b.ndim == 1 else [b[:, j] for j in range(b.shape[1])]

    def must_reuse(self, trans, b):
        """'yes' if every column of b lies in the span of the history under every applicable reading,
        'no' if some column is clearly outside under every reading, 'open' otherwise (no demand)."""
        real_data = not np.iscomplexobj(self.A) and not np.iscomplexobj(b)
        verdicts = []
        for col in self.columns:
            worst = 0.0
            for bj in self._cols(b):
                s, c = canonical(trans, bj, col)
                worst = max(worst, span_residual(c, self.hist[col][s], real_only=real_data))
            verdicts.append(worst)
        if all(v <= 1e-10 for v in verdicts):
            return 'yes'
        if all(v >= 1e-3 for v in verdicts):
            return 'no'
        return 'open'

    def record(self, trans, b):
        for col in self.columns:
            for bj in self._cols(b):
                s, c = canonical(trans, bj, col)
                self.hist[col][s].append(np.array(c))


def decoupled_dofs(A):
    """dofs whose row and column hold nothing but the diagonal entry."""
    A = np.asarray(A)
    n = A.shape[0]
    out = []
    for i in range(n):
        if A[i, i] != 0 and all(A[i, j] == 0 and A[j, i] == 0 for j in range(n) if j != i):
            out.append(i)
    return out


def offdiag_positions(n):
    return [(i, j) for i in range(n) for j in range(n) if i != j]


def upper_positions(n):
    return [(i, j) for i in range(n) for j in range(i + 1, n)]


def all_patterns(npos):
    return list(itertools.product([0, 1], repeat=npos))
