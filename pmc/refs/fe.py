"""Reference finite-element conventions, written from the documentation (never imports pymoto).

Grid: elements (i,j,k) numbered x-fastest: e = (k*nely + j)*nelx + i; nodes likewise on the (nel+1) grid.
Local node a of an element sits at offset (a&1, (a>>1)&1, (a>>2)&1) -- the documented order
0:(-,-,-) 1:(+,-,-) 2:(-,+,-) 3:(+,+,-) 4:(-,-,+) ...
Dof d of node n has number n*ndof + d.
"""
import itertools
import numpy as np


def dims(nelx, nely, nelz):
    return 3 if nelz > 0 else 2


def nel(nelx, nely, nelz):
    return nelx * nely * max(nelz, 1)


def nnodes(nelx, nely, nelz):
    return (nelx + 1) * (nely + 1) * (nelz + 1)


def elem_number(nelx, nely, nelz, i, j, k=0):
    return (k * nely + j) * nelx + i


def node_number(nelx, nely, nelz, i, j, k=0):
    return (k * (nely + 1) + j) * (nelx + 1) + i


def local_offsets(dim):
    return [tuple((a >> d) & 1 for d in range(3)) if dim == 3 else ((a & 1), (a >> 1) & 1, 0)
            for a in range(2 ** dim)]


def elem_indices(nelx, nely, nelz):
    """All (i,j,k) in element-number order."""
    return [(i, j, k) for k in range(max(nelz, 1)) for j in range(nely) for i in range(nelx)]


def node_indices(nelx, nely, nelz):
    return [(i, j, k) for k in range(nelz + 1) for j in range(nely + 1) for i in range(nelx + 1)]


def connectivity(nelx, nely, nelz):
    dim = dims(nelx, nely, nelz)
    offs = local_offsets(dim)
    conn = np.zeros((nel(nelx, nely, nelz), 2 ** dim), dtype=int)
    for (i, j, k) in elem_indices(nelx, nely, nelz):
        e = elem_number(nelx, nely, nelz, i, j, k)
        for a, (oi, oj, ok) in enumerate(offs):
            conn[e, a] = node_number(nelx, nely, nelz, i + oi, j + oj, k + ok)
    return conn


def dof_connectivity(nelx, nely, nelz, ndof):
    conn = connectivity(nelx, nely, nelz)
    out = np.zeros((conn.shape[0], conn.shape[1] * ndof), dtype=int)
    for e in range(conn.shape[0]):
        for a in range(conn.shape[1]):
            for d in range(ndof):
                out[e, a * ndof + d] = conn[e, a] * ndof + d
    return out


def node_positions(nelx, nely, nelz, size):
    dim = dims(nelx, nely, nelz)
    pos = np.zeros((dim, nnodes(nelx, nely, nelz)))
    for (i, j, k) in node_indices(nelx, nely, nelz):
        n = node_number(nelx, nely, nelz, i, j, k)
        ijk = (i, j, k)
        for d in range(dim):
            pos[d, n] = ijk[d] * size[d]
    return pos


def shape_fun(dim, size, pos):
    """N_a(x) = prod_d (1/2 + s_ad x_d / w_d), x in [-w/2, w/2]^dim."""
    offs = local_offsets(dim)
    N = np.ones(2 ** dim)
    for a, o in enumerate(offs):
        for d in range(dim):
            s = 2 * o[d] - 1
            N[a] *= 0.5 + s * pos[d] / size[d]
    return N


def shape_fun_der(dim, size, pos):
    offs = local_offsets(dim)
    dN = np.ones((dim, 2 ** dim))
    for a, o in enumerate(offs):
        for i in range(dim):
            for d in range(dim):
                s = 2 * o[d] - 1
                if d == i:
                    dN[i, a] *= s / size[d]
                else:
                    dN[i, a] *= 0.5 + s * pos[d] / size[d]
    return dN


def gauss_points(dim, size, npt=2):
    """Tensor Gauss-Legendre rule on [-w/2,w/2]^dim: list of (pos, weight)."""
    x, w = np.polynomial.legendre.leggauss(npt)
    pts = []
    for idx in itertools.product(range(npt), repeat=dim):
        p = np.array([x[idx[d]] * size[d] / 2 for d in range(dim)])
        wt = np.prod([w[idx[d]] * size[d] / 2 for d in range(dim)])
        pts.append((p, wt))
    return pts


def hooke(dim, E, nu, plane='strain'):
    """Textbook isotropic elasticity matrix in Voigt order (xx,yy,xy) / (xx,yy,zz,xy,yz,zx), engineering shear."""
    mu = E / (2 * (1 + nu))
    if dim == 2 and plane == 'stress':
        c = E / (1 - nu ** 2)
        return np.array([[c, c * nu, 0], [c * nu, c, 0], [0, 0, mu]])
    lam = E * nu / ((1 + nu) * (1 - 2 * nu))
    if dim == 2:
        return np.array([[lam + 2 * mu, lam, 0], [lam, lam + 2 * mu, 0], [0, 0, mu]])
    D = np.zeros((6, 6))
    D[:3, :3] = lam
    D[:3, :3] += 2 * mu * np.eye(3)
    D[3:, 3:] = mu * np.eye(3)
    return D


def bmatrix(dim, dN):
    """Strain-displacement matrix for node-wise interleaved dofs; Voigt order xx,yy,xy / xx,yy,zz,xy,yz,zx."""
    nn = dN.shape[1]
    if dim == 2:
        B = np.zeros((3, 2 * nn))
        for a in range(nn):
            B[0, 2 * a] = dN[0, a]
            B[1, 2 * a + 1] = dN[1, a]
            B[2, 2 * a] = dN[1, a]
            B[2, 2 * a + 1] = dN[0, a]
        return B
    B = np.zeros((6, 3 * nn))
    for a in range(nn):
        B[0, 3 * a] = dN[0, a]
        B[1, 3 * a + 1] = dN[1, a]
        B[2, 3 * a + 2] = dN[2, a]
        B[3, 3 * a] = dN[1, a]
        B[3, 3 * a + 1] = dN[0, a]
        B[4, 3 * a + 1] = dN[2, a]
        B[4, 3 * a + 2] = dN[1, a]
        B[5, 3 * a] = dN[2, a]
        B[5, 3 * a + 2] = dN[0, a]
    return B


def stiffness_element(dim, size, E, nu, plane='strain', thickness=1.0):
    D = hooke(dim, E, nu, plane)
    nd = dim * 2 ** dim
    K = np.zeros((nd, nd))
    for p, w in gauss_points(dim, size, 3):
        B = bmatrix(dim, shape_fun_der(dim, size, p))
        K += w * B.T @ D @ B
    if dim == 2:
        K *= thickness
    return K


def mass_element(dim, size, rho, ndof, thickness=1.0):
    """Consistent mass matrix, ndof interleaved dofs per node."""
    nn = 2 ** dim
    M1 = np.zeros((nn, nn))
    for p, w in gauss_points(dim, size, 3):
        N = shape_fun(dim, size, p)
        M1 += w * np.outer(N, N)
    M1 *= rho * (thickness if dim == 2 else 1.0)
    M = np.zeros((nn * ndof, nn * ndof))
    for d in range(ndof):
        M[d::ndof, d::ndof] = M1
    return M


def poisson_element(dim, size, kappa, thickness=1.0):
    nn = 2 ** dim
    P = np.zeros((nn, nn))
    for p, w in gauss_points(dim, size, 3):
        dN = shape_fun_der(dim, size, p)
        P += w * kappa * dN.T @ dN
    if dim == 2:
        P *= thickness
    return P


def scatter(nelx, nely, nelz, ndof, x, Ke):
    """Dense sum_e x_e K_e through the dof connectivity (triple loop)."""
    dc = dof_connectivity(nelx, nely, nelz, ndof)
    n = nnodes(nelx, nely, nelz) * ndof
    K = np.zeros((n, n), dtype=np.result_type(np.asarray(Ke).dtype, np.asarray(x).dtype, float))
    for e in range(dc.shape[0]):
        for a in range(dc.shape[1]):
            for b in range(dc.shape[1]):
                K[dc[e, a], dc[e, b]] += x[e] * Ke[a, b]
    return K


# ---------------------------------------------------------------------------------------------------------------
# Additions for C08 / C12 (assembly with boundary conditions, physics invariants, affine fields, element operators)
# ---------------------------------------------------------------------------------------------------------------

def apply_bc(K, bc, diagval):
    """Rows and columns of the constrained dofs zeroed, `diagval` on their diagonal (dense copy)."""
    K = np.array(K, copy=True)
    for d in bc:
        for j in range(K.shape[1]):
            K[d, j] = 0
        for i in range(K.shape[0]):
            K[i, d] = 0
    for d in bc:
        K[d, d] = diagval
    return K


def elem_centroids(nelx, nely, nelz, size):
    """Centroid coordinates (dim, nel) in element-number order (origin at node (0,0,0))."""
    dim = dims(nelx, nely, nelz)
    c = np.zeros((dim, nel(nelx, nely, nelz)))
    for (i, j, k) in elem_indices(nelx, nely, nelz):
        e = elem_number(nelx, nely, nelz, i, j, k)
        ijk = (i, j, k)
        for d in range(dim):
            c[d, e] = (ijk[d] + 0.5) * size[d]
    return c


def elem_volume(dim, size, thickness_2d=True):
    """Element volume; in 2-D the out-of-plane size is the thickness."""
    v = 1.0
    for d in range(dim):
        v *= size[d]
    if dim == 2 and thickness_2d:
        v *= size[2]
    return v


def affine_nodal_field(pos, a, G):
    """u(x) = a + G x sampled at the nodes, node-wise interleaved: u[n*m + c] (m = len(a) components)."""
    a = np.asarray(a, dtype=float)
    G = np.asarray(G, dtype=float)
    m = a.shape[0]
    nn = pos.shape[1]
    u = np.zeros(nn * m)
    for n in range(nn):
        for c in range(m):
            v = a[c]
            for d in range(pos.shape[0]):
                v += G[c, d] * pos[d, n]
            u[n * m + c] = v
    return u


# position of each shear pair in the strain vector
SHEAR_PAIRS = {
    (2, 'voigt'): [(0, 1)],
    (2, 'standard'): [(0, 1)],
    (3, 'voigt'): [(1, 2), (2, 0), (0, 1)],      # yz, zx, xy
    (3, 'standard'): [(0, 1), (1, 2), (2, 0)],   # xy, yz, zx
}


def strain_of_gradient(dim, G, order='voigt', engineering=True):
    """Symmetric gradient of u = a + G x as a vector: normals xx,yy(,zz) then the shear pairs in the given order;
    engineering shear gamma_ij = G_ij + G_ji, tensor shear eps_ij = gamma_ij / 2."""
    G = np.asarray(G, dtype=float)
    out = [G[d, d] for d in range(dim)]
    for (i, j) in SHEAR_PAIRS[(dim, order)]:
        g = G[i, j] + G[j, i]
        out.append(g if engineering else 0.5 * g)
    return np.array(out)


def hooke_voigt(dim, E, nu, plane='strain'):
    """Elasticity matrix for the Voigt order xx,yy,zz,yz,zx,xy.  For an isotropic material the shear block is mu*I,
    so it coincides with `hooke` (a permutation of the shear rows leaves it unchanged)."""
    return hooke(dim, E, nu, plane)


def rigid_body_modes(pos):
    """Translations and infinitesimal rotations as node-wise interleaved vectors: 3 in 2-D, 6 in 3-D."""
    dim, nn = pos.shape
    modes = []
    for d in range(dim):
        a = np.zeros(dim)
        a[d] = 1.0
        modes.append(affine_nodal_field(pos, a, np.zeros((dim, dim))))
    for (i, j) in ([(0, 1)] if dim == 2 else [(0, 1), (1, 2), (2, 0)]):
        W = np.zeros((dim, dim))
        W[i, j] = -1.0
        W[j, i] = 1.0
        modes.append(affine_nodal_field(pos, np.zeros(dim), W))
    return modes


def thermal_load_element(dim, size, E, nu, alpha, plane='strain', thickness=1.0):
    """int B^T D (alpha*Phi) dV with Phi the unit normal strain (1,1,0) / (1,1,1,0,0,0): nodal load equivalent to a
    unit temperature rise."""
    D = hooke(dim, E, nu, plane)
    Phi = np.zeros(D.shape[0])
    Phi[:dim] = 1.0
    f = np.zeros(dim * 2 ** dim)
    for p, w in gauss_points(dim, size, 3):
        B = bmatrix(dim, shape_fun_der(dim, size, p))
        f += w * alpha * (B.T @ D @ Phi)
    if dim == 2:
        f *= thickness
    return f


def scatter_vector(nelx, nely, nelz, ndof, x, fe_vec):
    """Dense sum_e x_e f_e through the dof connectivity."""
    dc = dof_connectivity(nelx, nely, nelz, ndof)
    f = np.zeros(nnodes(nelx, nely, nelz) * ndof)
    for e in range(dc.shape[0]):
        for a in range(dc.shape[1]):
            f[dc[e, a]] += x[e] * fe_vec[a]
    return f


def element_operator_dense(nelx, nely, nelz, ndof, B):
    """Dense matrix of y[..., e] = sum_k B[..., k] u[dofconn[e, k]] : rows = flattened (..., e) in C order,
    columns = nodal dofs.  B has shape (..., nodes_per_element*ndof)."""
    B = np.asarray(B)
    dc = dof_connectivity(nelx, nely, nelz, ndof)
    ne = dc.shape[0]
    lead = B.shape[:-1]
    nlead = int(np.prod(lead)) if lead else 1
    B2 = B.reshape(nlead, B.shape[-1])
    M = np.zeros((nlead * ne, nnodes(nelx, nely, nelz) * ndof), dtype=B.dtype)
    for r in range(nlead):
        for e in range(ne):
            for k in range(dc.shape[1]):
                M[r * ne + e, dc[e, k]] += B2[r, k]
    return M


def expand_per_dof(B, ndof):
    """Element operator given per node (..., nn) repeated for every dof: result (ndof, ..., nn*ndof) with
    out[d, ..., a*ndof + d] = B[..., a]."""
    B = np.asarray(B)
    nn = B.shape[-1]
    out = np.zeros((ndof,) + B.shape[:-1] + (nn * ndof,), dtype=B.dtype)
    for d in range(ndof):
        for a in range(nn):
            out[d, ..., a * ndof + d] = B[..., a]
    return out
