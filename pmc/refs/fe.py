"""Reference finite-element conventions, written from the documentation (never imports pymoto).

Grid: elements (i,j,k) numbered x-fastest: e = (k*nely + j)*nelx + i; nodes likewise on the (nel+1) grid.
Local node a of an element sits at offset (a&1, (a>>1)&1, (a>>2)&1) -- the documented order
0:(-,-,-) 1:(+,-,-) 2:(-,+,-) 3:(+,+,-) 4:(-,-,+) ...
Dof d of node n has number n*ndof + d.
"""
import itertools
import numpy as np


def dims(nelx, nely, nelz):
    return 3 if nelz > 0 else 2


def nel(nelx, nely, nelz):
    return nelx * nely * max(nelz, 1)


def nnodes(nelx, nely, nelz):
    return (nelx + 1) * (nely + 1) * (nelz + 1)


def elem_number(nelx, nely, nelz, i, j, k=0):
    return (k * nely + j) * nelx + i


def node_number(nelx, nely, nelz, i, j, k=0):
    return (k * (nely + 1) + j) * (nelx + 1) + i


def local_offsets(dim):
    return [tuple((a >> d) & 1 for d in range(3)) if dim == 3 else ((a & 1), (a >> 1) & 1, 0)
            for a in range(2 ** dim)]


def elem_indices(nelx, nely, nelz):
    """All (i,j,k) in element-number order."""
    return [(i, j, k) for k in range(max(nelz, 1)) for j in range(nely) for i in range(nelx)]


def node_indices(nelx, nely, nelz):
    return [(i, j, k) for k in range(nelz + 1) for j in range(nely + 1) for i in range(nelx + 1)]


def connectivity(nelx, nely, nelz):
    dim = dims(nelx, nely, nelz)
    offs = local_offsets(dim)
    conn = np.zeros((nel(nelx, nely, nelz), 2 ** dim), dtype=int)
    for (i, j, k) in elem_indices(nelx, nely, nelz):
        e = elem_number(nelx, nely, nelz, i, j, k)
        for a, (oi, oj, ok) in enumerate(offs):
            conn[e, a] = node_number(nelx, nely, nelz, i + oi, j + oj, k + ok)
    return conn


def dof_connectivity(nelx, nely, nelz, ndof):
    conn = connectivity(nelx, nely, nelz)
    out = np.zeros((conn.shape[0], conn.shape[1] * ndof), dtype=int)
    for e in range(conn.shape[0]):
        for a in range(conn.shape[1]):
            for d in range(ndof):
                out[e, a * ndof + d] = conn[e, a] * ndof + d
    return out


def node_positions(nelx, nely, nelz, size):
    dim = dims(nelx, nely, nelz)
    pos = np.zeros((dim, nnodes(nelx, nely, nelz)))
    for (i, j, k) in node_indices(nelx, nely, nelz):
        n = node_number(nelx, nely, nelz, i, j, k)
        ijk = (i, j, k)
        for d in range(dim):
            pos[d, n] = ijk[d] * size[d]
    return pos


def shape_fun(dim, size, pos):
    """N_a(x) = prod_d (1/2 + s_ad x_d / w_d), x in [-w/2, w/2]^dim."""
    offs = local_offsets(dim)
    N = np.ones(2 ** dim)
    for a, o in enumerate(offs):
        for d in range(dim):
            s = 2 * o[d] - 1
            N[a] *= 0.5 + s * pos[d] / size[d]
    return N


def shape_fun_der(dim, size, pos):
    offs = local_offsets(dim)
    dN = np.ones((dim, 2 ** dim))
    for a, o in enumerate(offs):
        for i in range(dim):
            for d in range(dim):
                s = 2 * o[d] - 1
                if d == i:
                    dN[i, a] *= s / size[d]
                else:
                    dN[i, a] *= 0.5 + s * pos[d] / size[d]
    return dN


def gauss_points(dim, size, npt=2):
    """Tensor Gauss-Legendre rule on [-w/2,w/2]^dim: list of (pos, weight)."""
    x, w = np.polynomial.legendre.leggauss(npt)
    pts = []
    for idx in itertools.product(range(npt), repeat=dim):
        p = np.array([x[idx[d]] * size[d] / 2 for d in range(dim)])
        wt = np.prod([w[idx[d]] * size[d] / 2 for d in range(dim)])
        pts.append((p, wt))
    return pts


def hooke(dim, E, nu, plane='strain'):
    """Textbook isotropic elasticity matrix in Voigt order (xx,yy,xy) / (xx,yy,zz,xy,yz,zx), engineering shear."""
    mu = E / (2 * (1 + nu))
    if dim == 2 and plane == 'stress':
        c = E / (1 - nu ** 2)
        return np.array([[c, c * nu, 0], [c * nu, c, 0], [0, 0, mu]])
    lam = E * nu / ((1 + nu) * (1 - 2 * nu))
    if dim == 2:
        return np.array([[lam + 2 * mu, lam, 0], [lam, lam + 2 * mu, 0], [0, 0, mu]])
    D = np.zeros((6, 6))
    D[:3, :3] = lam
    D[:3, :3] += 2 * mu * np.eye(3)
    D[3:, 3:] = mu * np.eye(3)
    return D


def bmatrix(dim, dN):
    """Strain-displacement matrix for node-wise interleaved dofs; Voigt order xx,yy,xy / xx,yy,zz,xy,yz,zx."""
    nn = dN.shape[1]
    if dim == 2:
        B = np.zeros((3, 2 * nn))
        for a in range(nn):
            B[0, 2 * a] = dN[0, a]
            B[1, 2 * a + 1] = dN[1, a]
            B[2, 2 * a] = dN[1, a]
            B[2, 2 * a + 1] = dN[0, a]
        return B
    B = np.zeros((6, 3 * nn))
    for a in range(nn):
        B[0, 3 * a] = dN[0, a]
        B[1, 3 * a + 1] = dN[1, a]
        B[2, 3 * a + 2] = dN[2, a]
        B[3, 3 * a] = dN[1, a]
        B[3, 3 * a + 1] = dN[0, a]
        B[4, 3 * a + 1] = dN[2, a]
        B[4, 3 * a + 2] = dN[1, a]
        B[5, 3 * a] = dN[2, a]
        B[5, 3 * a + 2] = dN[0, a]
    return B


def stiffness_element(dim, size, E, nu, plane='strain', thickness=1.0):
    D = hooke(dim, E, nu, plane)
    nd = dim * 2 ** dim
    K = np.zeros((nd, nd))
    for p, w in gauss_points(dim, size, 3):
        B = bmatrix(dim, shape_fun_der(dim, size, p))
        K += w * B.T @ D @ B
    if dim == 2:
        K *= thickness
    return K


def mass_element(dim, size, rho, ndof, thickness=1.0):
    """Consistent mass matrix, ndof interleaved dofs per node."""
    nn = 2 ** dim
    M1 = np.zeros((nn, nn))
    for p, w in gauss_points(dim, size, 3):
        N = shape_fun(dim, size, p)
        M1 += w * np.outer(N, N)
    M1 *= rho * (thickness if dim == 2 else 1.0)
    M = np.zeros((nn * ndof, nn * ndof))
    for d in range(ndof):
        M[d::ndof, d::ndof] = M1
    return M


def poisson_element(dim, size, kappa, thickness=1.0):
    nn = 2 ** dim
    P = np.zeros((nn, nn))
    for p, w in gauss_points(dim, size, 3):
        dN = shape_fun_der(dim, size, p)
        P += w * kappa * dN.T @ dN
    if dim == 2:
        P *= thickness
    return P


def scatter(nelx, nely, nelz, ndof, x, Ke):
    """Dense sum_e x_e K_e through the dof connectivity (triple loop)."""
    dc = dof_connectivity(nelx, nely, nelz, ndof)
    n = nnodes(nelx, nely, nelz) * ndof
    K = np.zeros((n, n), dtype=np.result_type(np.asarray(Ke).dtype, np.asarray(x).dtype, float))
    for e in range(dc.shape[0]):
        for a in range(dc.shape[1]):
            for b in range(dc.shape[1]):
                K[dc[e, a], dc[e, b]] += x[e] * Ke[a, b]
    return K
