"""Plain-array reference semantics of Signal / SignalSlice (never imports pymoto).

One ndarray (or python scalar) S, one G (same shape) or None, one flag `keep`.
A slice is represented by the flat indices it selects in the base (computed on an index array), and its shape.
"""
import numpy as np


class SliceRef:
    def __init__(self, shape, chain):
        """chain: list of index expressions applied one after another (nested slices)."""
        idx = np.arange(int(np.prod(shape))).reshape(shape)
        for sl in chain:
            idx = idx[sl]
        self.idx = np.asarray(idx)
        self.shape = np.shape(idx)
        self.flat = np.ravel(self.idx)

    def get(self, arr):
        out = np.asarray(arr).reshape(-1)[self.flat].reshape(self.shape)
        return out

    def put(self, arr, val):
        v = np.broadcast_to(np.asarray(val), self.shape)
        arr.reshape(-1)[self.flat] = np.ravel(v)

    def add(self, arr, val):
        v = np.broadcast_to(np.asarray(val), self.shape)
        flat = arr.reshape(-1)
        for i, x in zip(self.flat, np.ravel(v)):   # no repeated indices in the alphabet; loop keeps it boring
            flat[i] += x


class SigModel:
    def __init__(self, state, sens=None):
        self.scalar = not isinstance(state, np.ndarray)
        self.S = state if self.scalar else np.array(state)
        self.G = None if sens is None else (sens if self.scalar else np.array(sens))
        self.keep = sens is not None

    # ---- base ----
    def set_state(self, v):
        self.S = v if self.scalar else np.array(v)

    def set_sens(self, v):
        self.G = None if v is None else (v if self.scalar else np.array(v))

    def add_sens(self, v):
        if v is None:
            return
        if self.G is None:
            self.G = v if self.scalar else np.array(v)
        else:
            self.G = self.G + v

    def reset(self, keep_alloc=None):
        if self.G is None:
            return
        k = self.keep if keep_alloc is None else keep_alloc
        if k:
            # zero of the same shape and type (not G*0: entries that are not finite have to become zero as well)
            self.G = np.zeros_like(self.G) if isinstance(self.G, np.ndarray) else type(self.G)(0)
        else:
            self.G = None

    # ---- through a slice ----
    def sl_state(self, sl):
        return sl.get(self.S)

    def sl_sens(self, sl):
        return None if self.G is None else sl.get(self.G)

    def sl_set_state(self, sl, v):
        self.S = np.array(self.S)
        sl.put(self.S, v)

    def sl_set_sens(self, sl, v):
        if self.G is None:
            if v is None:
                return
            self.G = np.zeros_like(self.S)
        self.G = np.array(self.G)
        sl.put(self.G, 0 if v is None else v)

    def sl_add_sens(self, sl, v):
        if v is None:
            return
        if self.G is None:
            self.G = np.zeros_like(self.S)
        self.G = np.array(self.G)
        sl.add(self.G, v)

    def sl_reset(self, sl):
        if self.G is not None:
            self.G = np.array(self.G)
            sl.put(self.G, 0)
