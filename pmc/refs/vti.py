"""Reference decoder for the files written by WriteToVTI / ScalarToFile (never imports pymoto).

Everything here is written from the property statement and the public VTK XML image-data conventions:

* a ``.vti`` file is an XML document ``VTKFile[type=ImageData] / ImageData[WholeExtent Origin Spacing] / Piece[Extent] /
  {PointData, CellData} / DataArray[type Name NumberOfComponents format]``;
* ``format="binary"`` arrays are base64 text: a length header (``header_type`` UInt32/UInt64, byte order from
  ``byte_order``) followed by the raw values.  The header is normally encoded on its own (then the first block ends in
  ``=`` padding); a jointly encoded stream is accepted as well;
* an extent ``0 nx 0 ny 0 nz`` describes ``(nx+1)(ny+1)(nz+1)`` points and ``nx*ny*max(nz,1)`` cells.

The second half defines what the statement *expects* for a given input vector: which section, how many components,
which float32 payload (2-D two-component point vectors padded to three components), and which inputs are
unambiguous enough to be judged at all.  The log-file half parses header/rows and defines the format round-trip.
"""
import re
import base64
import struct
import xml.etree.ElementTree as ET
import numpy as np


class VTIFormatError(Exception):
    """The file is not a well-formed VTK image-data file; ``what`` is a short root-cause tag."""

    def __init__(self, what, msg=''):
        super().__init__(f"{what}: {msg}")
        self.what = what


# ----------------------------------------------------------------------------------------------------------- grids
def grid_counts(nx, ny, nz):
    """(dim, nel, nnodes) of a structured grid; nz == 0 means 2-D."""
    dim = 3 if nz > 0 else 2
    return dim, nx * ny * max(nz, 1), (nx + 1) * (ny + 1) * (nz + 1)


def counts_from_extent(ext):
    """(npoints, ncells) described by a 6-integer VTK extent."""
    d = [ext[2 * i + 1] - ext[2 * i] for i in range(3)]
    npts, ncl = 1, 1
    for n in d:
        npts *= n + 1
        ncl *= max(n, 1)
    return npts, ncl


# ------------------------------------------------------------------------------------------------------- decoding
_NP_TYPES = {'Float32': 'f4', 'Float64': 'f8', 'Int32': 'i4', 'Int64': 'i8', 'UInt8': 'u1', 'UInt32': 'u4',
             'UInt64': 'u8', 'Int8': 'i1', 'Int16': 'i2', 'UInt16': 'u2'}


def _ints(txt, n, what):
    try:
        v = [int(t) for t in txt.split()]
    except (ValueError, AttributeError):
        raise VTIFormatError(what, f"not integers: {txt!r}")
    if len(v) != n:
        raise VTIFormatError(what, f"{len(v)} entries instead of {n}: {txt!r}")
    return v


def _floats(txt, n, what):
    try:
        v = [float(t) for t in txt.split()]
    except (ValueError, AttributeError):
        raise VTIFormatError(what, f"not numbers: {txt!r}")
    if len(v) != n:
        raise VTIFormatError(what, f"{len(v)} entries instead of {n}: {txt!r}")
    return v


def _decode_binary(text, header_type, bo):
    """base64 text -> (declared length, raw payload bytes)."""
    txt = ''.join((text or '').split())
    hsize = {'UInt32': 4, 'UInt64': 8}.get(header_type)
    if hsize is None:
        raise VTIFormatError('header_type', repr(header_type))
    hchars = 4 * ((hsize + 2) // 3)
    if len(txt) < hchars:
        raise VTIFormatError('array_truncated', f"{len(txt)} base64 characters")
    try:
        if '=' in txt[:hchars]:     # header encoded on its own
            head = base64.b64decode(txt[:hchars], validate=True)
            raw = base64.b64decode(txt[hchars:], validate=True)
        else:                       # header and data encoded as one stream
            both = base64.b64decode(txt, validate=True)
            head, raw = both[:hsize], both[hsize:]
    except Exception as e:  # binascii.Error
        raise VTIFormatError('base64', str(e))
    if len(head) != hsize:
        raise VTIFormatError('array_header', f"{len(head)} header bytes")
    declared = struct.unpack(bo + ('I' if hsize == 4 else 'Q'), head)[0]
    return declared, raw


def decode_vti(src):
    """Parse one .vti file (a path, or its content as bytes).  Raises VTIFormatError if it is not a well-formed image-data file.

    Returns a dict with whole_extent, piece_extent, origin, spacing, npoints, ncells and ``arrays``: a list (file
    order) of dicts section/name/ncomp/type/format/declared_len/raw/values (values: 1-D numpy array in the declared
    type, native byte order)."""
    try:
        root = ET.fromstring(src) if isinstance(src, (bytes, bytearray)) else ET.parse(src).getroot()
    except ET.ParseError as e:
        raise VTIFormatError('xml', str(e))
    if root.tag != 'VTKFile' or root.get('type') != 'ImageData':
        raise VTIFormatError('root', f"{root.tag} type={root.get('type')}")
    byte_order = root.get('byte_order', 'LittleEndian')
    if byte_order not in ('LittleEndian', 'BigEndian'):
        raise VTIFormatError('byte_order', repr(byte_order))
    bo = '<' if byte_order == 'LittleEndian' else '>'
    header_type = root.get('header_type', 'UInt32')
    if root.get('compressor'):
        raise VTIFormatError('compressor', 'compressed files are not decoded by this reference')
    imgs = root.findall('ImageData')
    if len(imgs) != 1:
        raise VTIFormatError('imagedata', f"{len(imgs)} ImageData elements")
    img = imgs[0]
    out = {'byte_order': byte_order, 'header_type': header_type,
           'whole_extent': _ints(img.get('WholeExtent'), 6, 'whole_extent'),
           'origin': _floats(img.get('Origin'), 3, 'origin'),
           'spacing': _floats(img.get('Spacing'), 3, 'spacing')}
    pieces = img.findall('Piece')
    if len(pieces) != 1:
        raise VTIFormatError('piece', f"{len(pieces)} Piece elements")
    piece = pieces[0]
    out['piece_extent'] = _ints(piece.get('Extent'), 6, 'piece_extent')
    out['npoints'], out['ncells'] = counts_from_extent(out['piece_extent'])
    arrays = []
    for child in piece:
        if child.tag not in ('PointData', 'CellData'):
            raise VTIFormatError('piece_child', child.tag)
        ntuples = out['npoints'] if child.tag == 'PointData' else out['ncells']
        for da in child:
            if da.tag != 'DataArray':
                raise VTIFormatError('section_child', da.tag)
            typ, fmt, name = da.get('type'), da.get('format'), da.get('Name')
            if typ not in _NP_TYPES:
                raise VTIFormatError('array_type', repr(typ))
            if name is None:
                raise VTIFormatError('array_name', 'missing')
            try:
                ncomp = int(da.get('NumberOfComponents', '1'))
            except ValueError:
                raise VTIFormatError('array_ncomp', repr(da.get('NumberOfComponents')))
            dt = np.dtype(bo + _NP_TYPES[typ])
            if fmt == 'binary':
                declared, raw = _decode_binary(da.text, header_type, bo)
                if len(raw) % dt.itemsize:
                    raise VTIFormatError('array_bytes', f"{len(raw)} bytes is not a whole number of {typ}")
                vals = np.frombuffer(raw, dtype=dt).astype(dt.newbyteorder('='))
            elif fmt == 'ascii':
                try:
                    vals = np.array([float(t) for t in (da.text or '').split()]).astype(dt.newbyteorder('='))
                except ValueError as e:
                    raise VTIFormatError('array_ascii', str(e))
                declared, raw = vals.nbytes, vals.astype(dt).tobytes()
            else:
                raise VTIFormatError('array_format', repr(fmt))
            arrays.append({'section': child.tag, 'name': name, 'ncomp': ncomp, 'type': typ, 'format': fmt,
                           'declared_len': int(declared), 'raw': raw, 'values': vals, 'ntuples': ntuples})
    out['arrays'] = arrays
    return out


# ----------------------------------------------------------------------------- what the statement expects of a vector
def classify_axis(length, nel, nnodes):
    """'cell' / 'point' if the length is a multiple of exactly one of nel / nnodes, 'both' if of both, else None."""
    c, p = length % nel == 0, length % nnodes == 0
    if c and p:
        return 'both'
    return 'cell' if c else 'point' if p else None


def classify(shape, nel, nnodes):
    """How the statement reads an input of this shape on a grid with nel elements and nnodes nodes.

    Returns (kind, axis, ncomp, ncols) -- kind 'cell'/'point', the axis that runs over elements/nodes, the number of
    components per element/node, and the number of block columns (None for a plain vector) -- or None when the
    reading is not unique (some length is a multiple of both counts, or both axes of a block are element-/node-sized)
    or the shape is not a vector/block.  Only the individual axis lengths matter: the vectors of a block are
    element- or node-sized, the total size of the block says nothing."""
    if len(shape) == 1:
        k = classify_axis(shape[0], nel, nnodes)
        if k in ('cell', 'point'):
            return k, 0, shape[0] // (nel if k == 'cell' else nnodes), None
        return None
    if len(shape) == 2:
        ks = [classify_axis(s, nel, nnodes) for s in shape]
        good = [i for i, k in enumerate(ks) if k in ('cell', 'point')]
        if len(good) == 1 and ks[1 - good[0]] is None:
            ax = good[0]
            k = ks[ax]
            return k, ax, shape[ax] // (nel if k == 'cell' else nnodes), shape[1 - ax]
    return None


def expected_payload(column, kind, ncomp, dim, nnodes):
    """[(ncomp_in_file, float32 payload)] -- every layout the statement allows for one written vector."""
    v32 = np.asarray(column).astype(np.float32)
    if kind == 'point' and ncomp == 2:
        pad = np.zeros(3 * nnodes, dtype=np.float32)
        pad[0::3] = v32[0::2]
        pad[1::3] = v32[1::2]
        if dim == 2:
            return [(3, pad)]                 # "2D vectors padded to three"
        return [(2, v32), (3, pad)]           # 3-D domain: the statement does not say; both accepted
    return [(ncomp, v32)]


def block_columns(vec, axis):
    """The individual vectors of a block, in column order."""
    vec = np.asarray(vec)
    return [vec[:, k] if axis == 0 else vec[k, :] for k in range(vec.shape[1 - axis])]


def column_index_from_name(name, tag):
    """Block columns are identified by the integer contained in what follows the tag (``u(03)``, ``u_03``, ...)."""
    if not name.startswith(tag):
        return None
    digits = re.findall(r'\d+', name[len(tag):])
    if len(digits) != 1:
        return None
    return int(digits[0])


def file_counter(fname, stem):
    """'' for ``<stem>.vti``; the integer k for ``<stem><sep><digits>.vti`` (sep one of . _ - or nothing); else None."""
    m = re.fullmatch(re.escape(stem) + r'(?:[._-]?(\d+))?\.vti', fname)
    if m is None:
        return None
    return '' if m.group(1) is None else int(m.group(1))


# ------------------------------------------------------------------------------------------------------- log files
def parse_log(path, sep):
    """{'text', 'lines' (without the final empty one), 'ends_with_newline', 'header' fields, 'rows' field lists}."""
    with open(path, 'r', newline='') as f:
        text = f.read()
    lines = text.split('\n')
    ends = lines[-1] == ''
    if ends:
        lines = lines[:-1]
    return {'text': text, 'lines': lines, 'ends_with_newline': ends,
            'header': lines[0].split(sep) if lines else [], 'rows': [ln.split(sep) for ln in lines[1:]]}


def is_number(txt):
    try:
        float(txt)
        return True
    except ValueError:
        return False


def flat_values(state):
    """Python floats of a logged quantity in row order (C order for arrays)."""
    a = np.asarray(state)
    return [float(x) for x in a.reshape(-1)]


def column_ok(col, value, fmt):
    """The column parses back to the value as far as the format keeps it, and is itself a fixed point of the format."""
    try:
        got = float(col)
    except ValueError:
        return False
    want = float(format(float(value), fmt))
    same = (got == want) or (got != got and want != want)
    return bool(same and format(got, fmt) == col)
