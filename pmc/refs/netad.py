"""Reference total derivative of a module graph: forward accumulation of exact local Jacobians in topological
order (never imports pymoto).  Every signal is a real vector; a complex signal z is stored as [Re z; Im z].

Convention of the code under test (pymoto.modules.complex docstring, finite_difference): a sensitivity g on a
signal y means  d/dt Re(sum(g * y(t))).  For a complex signal the equivalent real gradient on [Re; Im] is
[Re g; -Im g]."""
import numpy as np

M32 = np.array([[1.0, -2.0, 0.5], [0.3, 0.7, -1.1]])
M23 = M32.T.copy() * 0.9

SIZE = {'v3': 3, 'v2': 2, 's': 1, 'c2': 4}

# name -> (input types, output types)
SPECS = {
    'Sq3': (['v3'], ['v3']),
    'Sq2': (['v2'], ['v2']),
    'L32': (['v3'], ['v2']),
    'L23': (['v2'], ['v3']),
    'Mul3': (['v3', 'v3'], ['v3']),
    'Mul2': (['v2', 'v2'], ['v2']),
    'Fan3': (['v3'], ['v3', 's']),
    'Dot3': (['v3', 'v3'], ['s']),
    'SlIn': (['v3'], ['v2']),        # consumes x[0:2] (a SignalSlice) through Sq
    'SlOut': (['v2'], ['v3']),       # Sq writes into base[1:3] of a fresh 3-vector whose entry 0 stays 0
    'Cat': (['v2', 's'], ['v3']),    # ConcatSignal
    'SMul3': (['s', 'v3'], ['v3']),  # s * x
    'MkC': (['v2', 'v2'], ['c2']),   # MakeComplex
    'CNorm': (['c2'], ['v2']),       # ComplexNorm
    'Re': (['c2'], ['v2']),          # RealPart
    'Im': (['c2'], ['v2']),          # ImagPart
    'Diff3': (['v3'], ['s']),        # x[0] - x[1]: hands a sensitivity [g, -g, 0] (entries cancel) to its input
    'RevIn': (['v3'], ['v3']),       # consumes x[::-1] (a slice as long as its base, in another order) through Sq
    'PermIn': (['v3'], ['v3']),      # consumes x[[2, 0, 1]] through Sq
    'Add3': (['v3', 'v3', 'v3'], ['v3']),   # a + b + c; its sensitivity hands the SAME array object to all three inputs
}
COMPLEX_SUB = ['MkC', 'CNorm', 'Re', 'Im', 'Sq2']
USER_ONLY = ['Sq3', 'Sq2', 'L32', 'L23', 'Mul3', 'Mul2', 'Fan3', 'SlIn', 'SlOut', 'SMul3', 'Diff3', 'RevIn', 'PermIn', 'Add3']


def forward(name, xs):
    """returns (list of output vectors, list over outputs of list over inputs of Jacobians)"""
    if name in ('Sq3', 'Sq2'):
        x = xs[0]
        return [x * x + x], [[np.diag(2 * x + 1)]]
    if name == 'L32':
        return [M32 @ xs[0]], [[M32]]
    if name == 'L23':
        return [M23 @ xs[0]], [[M23]]
    if name in ('Mul3', 'Mul2'):
        a, b = xs
        return [a * b], [[np.diag(b), np.diag(a)]]
    if name == 'Fan3':
        x = xs[0]
        return [2 * x, np.array([np.sum(x)])], [[2 * np.eye(3)], [np.ones((1, 3))]]
    if name == 'Dot3':
        a, b = xs
        return [np.array([a @ b])], [[b[None, :], a[None, :]]]
    if name == 'SlIn':
        x = xs[0][0:2]
        P = np.zeros((2, 3))
        P[0, 0] = P[1, 1] = 1
        return [x * x + x], [[np.diag(2 * x + 1) @ P]]
    if name == 'SlOut':
        x = xs[0]
        P = np.zeros((3, 2))
        P[1, 0] = P[2, 1] = 1
        return [P @ (x * x + x)], [[P @ np.diag(2 * x + 1)]]
    if name == 'Cat':
        v, s = xs
        Jv = np.zeros((3, 2))
        Jv[0, 0] = Jv[1, 1] = 1
        Js = np.zeros((3, 1))
        Js[2, 0] = 1
        return [np.concatenate([v, s])], [[Jv, Js]]
    if name == 'SMul3':
        s, x = xs
        return [s[0] * x], [[x[:, None], s[0] * np.eye(3)]]
    if name == 'MkC':
        x, y = xs
        Z = np.zeros((2, 2))
        return [np.concatenate([x, y])], [[np.vstack([np.eye(2), Z]), np.vstack([Z, np.eye(2)])]]
    if name == 'CNorm':
        z = xs[0]
        x, y = z[:2], z[2:]
        A = np.sqrt(x * x + y * y)
        return [A], [[np.hstack([np.diag(x / A), np.diag(y / A)])]]
    if name == 'Re':
        z = xs[0]
        return [z[:2]], [[np.hstack([np.eye(2), np.zeros((2, 2))])]]
    if name == 'Im':
        z = xs[0]
        return [z[2:]], [[np.hstack([np.zeros((2, 2)), np.eye(2)])]]
    if name == 'Add3':
        return [xs[0] + xs[1] + xs[2]], [[np.eye(3), np.eye(3), np.eye(3)]]
    if name == 'Diff3':
        x = xs[0]
        return [np.array([x[0] - x[1]])], [[np.array([[1.0, -1.0, 0.0]])]]
    if name in ('RevIn', 'PermIn'):
        idx = [2, 1, 0] if name == 'RevIn' else [2, 0, 1]
        P = np.zeros((3, 3))
        for r, cidx in enumerate(idx):
            P[r, cidx] = 1
        x = P @ xs[0]
        return [x * x + x], [[np.diag(2 * x + 1) @ P]]
    raise KeyError(name)


def evaluate(prog, sources):
    """prog: list of (name, [input signal ids]); sources: list of real vectors.
    returns (values, jacobians wrt the concatenated sources, types)"""
    nsrc = sum(len(s) for s in sources)
    vals, J = [], []
    off = 0
    for s in sources:
        vals.append(np.array(s, dtype=float))
        Ji = np.zeros((len(s), nsrc))
        Ji[:, off:off + len(s)] = np.eye(len(s))
        J.append(Ji)
        off += len(s)
    for name, ins in prog:
        ys, Js = forward(name, [vals[i] for i in ins])
        for o, y in enumerate(ys):
            vals.append(np.asarray(y, dtype=float))
            tot = np.zeros((len(y), nsrc))
            for q, i in enumerate(ins):
                tot = tot + np.atleast_2d(Js[o][q]) @ J[i]
            J.append(tot)
    return vals, J


def total_gradient(J, seeds):
    """seeds: list of (signal id, real seed vector in the [Re; -Im] convention for complex signals)"""
    g = np.zeros(J[0].shape[1])
    for si, w in seeds:
        g = g + np.atleast_1d(w) @ J[si]
    return g


def programs(k, names, src_types):
    """every type-correct sequence of k modules, every wiring to any earlier signal"""
    import itertools

    def rec(prog, types):
        if len(prog) == k:
            yield [(n, list(i)) for n, i in prog]
            return
        for mn in names:
            it, ot = SPECS[mn]
            choices = [[i for i, t in enumerate(types) if t == need] for need in it]
            if any(not c for c in choices):
                continue
            for ins in itertools.product(*choices):
                yield from rec(prog + [(mn, ins)], types + ot)
    yield from rec([], list(src_types))
