"""Reference model for density filters (property C09).  Never imports pymoto.

Written from the property statement:

* density filter:  y_i = sum_j H_ij x_j / sum_j H_ij,  H_ij = max(0, r - d_ij),  d_ij the distance between the
  centres of elements i and j (in element counts by default);
* convolution filter:  y[i] = sum_a w[a] * X[i - a]  (a over the centred kernel offsets, per axis -p..p), with X the
  field extended beyond each boundary by the rule selected for that boundary:

      'symmetric'  reflect about the boundary *including* the edge element   (.. x1 x0 | x0 x1 ..)
      'edge'       clamp: repeat the edge element                            (.. x0 x0 | x0 x1 ..)
      'wrap'       periodic                                                  (.. x_{n-2} x_{n-1} | x0 x1 ..)
      number       that constant

  The extension is separable: every axis maps its own coordinate independently.  Where the padding regions of two
  axes overlap (corners) and one of them is a constant the constant is used; if both are constants the LATER axis
  (x < y < z) wins -- the checks only place *different* constants on the same axis, so this choice is never decisive.

Element numbering is the documented x-fastest one: e = (k*nely + j)*nelx + i.

Everything is plain Python loops over elements and kernel taps; operators are returned as a dense matrix A and an
offset c (y = A x + c, c collecting the constant-valued padding/overrides) so that many fields can be compared.
"""
import itertools
import math
from numbers import Number

import numpy as np


# ---------------------------------------------------------------------------------------------- grid helpers
def dims3(grid):
    """(nx, ny, nz') with nz' = 1 for a 2-D grid (nelz == 0)."""
    nx, ny, nz = grid
    return nx, ny, max(nz, 1)


def nel(grid):
    nx, ny, nz = dims3(grid)
    return nx * ny * nz


def elem_number(grid, i, j, k=0):
    nx, ny, _ = dims3(grid)
    return (k * ny + j) * nx + i


def elem_indices(grid):
    """All (i, j, k) in element-number order."""
    nx, ny, nz = dims3(grid)
    return [(i, j, k) for k in range(nz) for j in range(ny) for i in range(nx)]


# ---------------------------------------------------------------------------------------------- boundary rules
def is_const(mode):
    return isinstance(mode, Number) and not isinstance(mode, bool)


def ext_index(i, n, lo, hi):
    """Where does coordinate i (possibly <0 or >=n) of the extended axis take its value from?

    Returns an int in [0, n) or ('c', value).  lo / hi are the rules of the minimum / maximum boundary."""
    if 0 <= i < n:
        return i
    mode = lo if i < 0 else hi
    if is_const(mode):
        return ('c', float(mode))
    if mode == 'edge':
        return 0 if i < 0 else n - 1
    if mode == 'wrap':
        return i % n
    if mode == 'symmetric':
        j = i % (2 * n)          # mirror images alternate with period 2n
        return j if j < n else 2 * n - 1 - j
    raise ValueError(f"unknown boundary rule {mode!r}")


def axis_is_mixed(lo, hi):
    """Different rules on the two boundaries of one axis (two different constants count as the same *rule*)."""
    if is_const(lo) and is_const(hi):
        return False
    return lo != hi


def effective_constants(modes, pads):
    """{axis: set of constants} for the axes whose padding is actually used (pad > 0)."""
    out = {}
    for ax in range(3):
        if pads[ax] <= 0:
            continue
        cs = {float(m) for m in (modes[2 * ax], modes[2 * ax + 1]) if is_const(m)}
        if cs:
            out[ax] = cs
    return out


def admissible(grid, pads, modes):
    """None if the statement defines the result uniquely, otherwise the reason why not.

    * an axis with different rules on its two boundaries and a pad wider than the domain: a one-sided rule
      (reflect / wrap) would have to look past the *other* boundary, which the statement does not define;
    * different constants on different (active) axes: the value in the corner regions is not defined."""
    n3 = dims3(grid)
    for ax in range(3):
        if pads[ax] > 0 and axis_is_mixed(modes[2 * ax], modes[2 * ax + 1]) and pads[ax] > n3[ax]:
            return 'mixed rules on one axis with pad wider than the domain'
    ec = effective_constants(modes, pads)
    axes = sorted(ec)
    for a in axes:
        for b in axes:
            if a < b and any(c1 != c2 for c1 in ec[a] for c2 in ec[b]):
                return 'different constants on different axes (corner value undefined)'
    return None


# ---------------------------------------------------------------------------------------------- kernels
def as3d(w):
    w = np.asarray(w, dtype=float)
    while w.ndim < 3:
        w = w[..., None]
    return w


def pads_of(w3):
    return [s // 2 for s in w3.shape]


def needed_halfwidth(radius, h):
    """Largest element offset k along one axis that still carries a noticeable cone weight (k*h < r)."""
    k = 0
    while radius - (k + 1) * h > 1e-9 * radius:
        k += 1
    return k


def cone_kernel(radius, h, half):
    """Normalised cone weights max(0, r - d) on the offsets -half..half per axis, spacing h per axis."""
    shape = [2 * p + 1 for p in half]
    w = np.zeros(shape)
    for a in range(shape[0]):
        for b in range(shape[1]):
            for c in range(shape[2]):
                d = math.sqrt(((a - half[0]) * h[0]) ** 2 + ((b - half[1]) * h[1]) ** 2 + ((c - half[2]) * h[2]) ** 2)
                w[a, b, c] = max(0.0, radius - d)
    return w / w.sum()


def is_unit_nonneg(w3):
    return bool(np.all(w3 >= 0.0)) and abs(float(w3.sum()) - 1.0) <= 1e-9


def is_mirror_symmetric(w3):
    return all(np.allclose(w3, np.flip(w3, axis=ax), rtol=0, atol=1e-13 * max(1.0, float(np.max(np.abs(w3)))))
               for ax in range(3))


# ---------------------------------------------------------------------------------------------- operators
def conv_operator(grid, w, modes, overrides=(), override_order='after'):
    """Dense (A, c) with y = A x + c for the convolution of kernel w with the extended field.

    modes = (xmin, xmax, ymin, ymax, zmin, zmax); the z rules are irrelevant for a 2-D grid.
    overrides = [(iterable of (i,j,k), value), ...] fixes the value *seen by the filter* at those elements:
      'after'  : the field is extended first, then the listed elements are replaced (mirror images still show x);
      'before' : the listed elements are replaced first, then the field is extended (mirror images show the value).
    Later overrides win over earlier ones."""
    nx, ny, nz = dims3(grid)
    w3 = as3d(w)
    px, py, pz = pads_of(w3)
    if grid[2] == 0 and pz != 0:
        raise ValueError('2-D grid needs a kernel of size one in z')
    n = nx * ny * nz
    A = np.zeros((n, n))
    c = np.zeros(n)
    ov = {}
    for elems, value in overrides:
        for ijk in elems:
            ov[tuple(int(t) for t in ijk)] = float(value)
    lo = (modes[0], modes[2], modes[4])
    hi = (modes[1], modes[3], modes[5])
    # per-axis extension tables: coordinate t in [-p, n+p) -> source index or ('c', value)
    tx = {t: ext_index(t, nx, lo[0], hi[0]) for t in range(-px, nx + px)}
    ty = {t: ext_index(t, ny, lo[1], hi[1]) for t in range(-py, ny + py)}
    tz = {t: ext_index(t, nz, lo[2], hi[2]) for t in range(-pz, nz + pz)} if grid[2] > 0 else {0: 0}
    for (i, j, k) in elem_indices(grid):
        row = elem_number(grid, i, j, k)
        for a in range(-px, px + 1):
            for b in range(-py, py + 1):
                for cc in range(-pz, pz + 1):
                    wt = w3[a + px, b + py, cc + pz]
                    pos = (i - a, j - b, k - cc)           # convolution: y[i] = sum_a w[a] X[i-a]
                    if ov and override_order == 'after' and pos in ov:   # keys of ov are interior elements only
                        c[row] += wt * ov[pos]
                        continue
                    src = (tx[pos[0]], ty[pos[1]], tz[pos[2]])
                    const = None
                    for s in src:                        # later axis wins
                        if isinstance(s, tuple):
                            const = s[1]
                    if const is not None:
                        c[row] += wt * const
                        continue
                    if ov and override_order == 'before' and src in ov:
                        c[row] += wt * ov[src]
                        continue
                    A[row, (src[2] * ny + src[1]) * nx + src[0]] += wt
    return A, c


def conv_apply(grid, w, modes, x, overrides=(), override_order='after'):
    A, c = conv_operator(grid, w, modes, overrides, override_order)
    return A @ np.asarray(x, dtype=float) + c


def density_operator(grid, radius, h=(1.0, 1.0, 1.0)):
    """Dense A with y = A x: cone-weighted average over all elements, normalised per element (row)."""
    idx = elem_indices(grid)
    n = len(idx)
    A = np.zeros((n, n))
    for (i, j, k) in idx:
        r = elem_number(grid, i, j, k)
        for (a, b, cc) in idx:
            d = math.sqrt(((i - a) * h[0]) ** 2 + ((j - b) * h[1]) ** 2 + ((k - cc) * h[2]) ** 2)
            A[r, elem_number(grid, a, b, cc)] = max(0.0, radius - d)
        A[r, :] /= A[r, :].sum()
    return A


# ---------------------------------------------------------------------------------------------- mode lattices
def all_tuples(alphabet, nsides):
    return [list(t) for t in itertools.product(alphabet, repeat=nsides)]
