"""Reference model of Langelaar's additive-manufacturing (overhang) filter, written from the papers and from the
statement of property C14.  Never imports pymoto.

  Langelaar (2017), SMO 55:871 (2-D, 3 supports) and Langelaar (2016), Addit. Manuf. 12:60 (3-D, 5 supports; the
  9-support variant uses the full 3x3 block below the element).

Scheme.  The part is printed layer by layer along one grid axis, starting from the base layer (the first layer met
when walking in the print direction).  With x the blueprint density and y the printed density

    base layer            y_e = x_e
    every other element   y_e = smin(x_e, smax(y_s : s in supports(e)))
    smax(y_1..y_m) = (sum_k y_k^P)^(1/Q),   Q = P + ln(ns)/ln(xi_0)          (P-Q mean; ns is the NOMINAL number of
                                                                             supports, also next to a domain wall)
    smin(x, s)     = ( x + s - sqrt((x-s)^2 + eps) + sqrt(eps) ) / 2

supports(e) are the elements of the previous layer inside the domain at in-layer offsets
    ns = 3 (2-D): -1, 0, +1 along the one in-plane axis orthogonal to the print axis
    ns = 5 (3-D): (0,0), (+-1,0), (0,+-1)            ns = 9 (3-D): the full 3x3 block.
No safety shifts are applied (the implementation adds ~1e-6 shifts against 0^P; the check allows 1e-4 for them).

Conventions.  Fields are flat sequences in the documented element order (x fastest: e = (k*nely + j)*nelx + i, the
numbering property C13 verifies); `shape` is (nelx, nely, max(nelz,1)); `dim` is 2 or 3.  The print direction is a
pair (axis, sgn).  The direction is handled by *index permutation*: the field is brought to a canonical array
c[layer][a][b] whose layer index increases in print direction, the canonical upward scheme is applied with plain
per-element loops, and the result is permuted back.
"""
import math
import functools

DIRS = {'x+': (0, 1), 'x-': (0, -1), 'y+': (1, 1), 'y-': (1, -1), 'z+': (2, 1), 'z-': (2, -1)}
DIR_NAME = {v: k for k, v in DIRS.items()}

STENCIL = {
    3: [(-1, 0), (0, 0), (1, 0)],
    5: [(0, 0), (-1, 0), (1, 0), (0, -1), (0, 1)],
    9: [(da, db) for da in (-1, 0, 1) for db in (-1, 0, 1)],
}


def admissible(dim, ns, xi0, p, eps):
    """Parameter points the statement covers: 3 supports in 2-D, 5 or 9 in 3-D, 0<xi0<1, Q>0, eps>=0."""
    if not ((dim == 2 and ns == 3) or (dim == 3 and ns in (5, 9))):
        return False
    if not (0.0 < xi0 < 1.0 and p > 0 and eps >= 0):
        return False
    return p + math.log(ns) / math.log(xi0) > 0


def unit_vector(axis, sgn):
    v = [0.0, 0.0, 0.0]
    v[axis] = float(sgn)
    return v


def parse_direction(text):
    """Meaning of a direction string according to the statement ('+x', 'y-', ...): exactly one axis letter and an
    optional sign written before or after it; no sign means the positive direction.  Returns (axis, sgn)."""
    t = text.strip()
    letters = [c for c in t if c.lower() in 'xyz']
    signs = [c for c in t if c in '+-']
    rest = [c for c in t if c.lower() not in 'xyz' and c not in '+-']
    if len(letters) != 1 or len(signs) > 1 or rest:
        raise ValueError(f"not a direction string: {text!r}")
    return 'xyz'.index(letters[0].lower()), (-1 if signs == ['-'] else 1)


# ---------------------------------------------------------------- index permutation ---------------------------------
def elem_number(shape, i, j, k):
    return (k * shape[1] + j) * shape[0] + i


def _layout(shape, dim, axis):
    """Axes of the canonical array: (print axis, in-layer axis a, in-layer axis b).  In 2-D the dummy z axis is b,
    so that the 3-support stencil acts along the in-plane axis."""
    others = [d for d in range(3) if d != axis]     # increasing order; for dim == 2 (axis in {0,1}) z comes last
    return axis, others[0], others[1]


@functools.lru_cache(maxsize=256)
def canonical_index_map(shape, dim, axis, sgn):
    """idx[l][a][b] = element number sitting in canonical position (layer l counted from the base, a, b).
    (memoised; `shape` must be a tuple; the result is never modified)"""
    ax, oa, ob = _layout(shape, dim, axis)
    nl, na, nb = shape[ax], shape[oa], shape[ob]
    idx = [[[0] * nb for _ in range(na)] for _ in range(nl)]
    for l in range(nl):
        for a in range(na):
            for b in range(nb):
                ijk = [0, 0, 0]
                ijk[ax] = l if sgn > 0 else nl - 1 - l
                ijk[oa] = a
                ijk[ob] = b
                idx[l][a][b] = elem_number(shape, *ijk)
    return idx


@functools.lru_cache(maxsize=4096)
def support_positions(na, nb, ns, a, b):
    """In-layer positions (a', b') of the supports of canonical position (a, b) that lie inside the domain."""
    out = []
    for da, db in STENCIL[ns]:
        aa, bb = a + da, b + db
        if 0 <= aa < na and 0 <= bb < nb:
            out.append((aa, bb))
    return out


# ---------------------------------------------------------------- the smooth operators ------------------------------
def smax(values, p, q):
    acc = 0.0
    for v in values:
        acc += max(v, 0.0) ** p
    return acc ** (1.0 / q)


def smin(x, s, eps):
    return 0.5 * (x + s - math.sqrt((x - s) * (x - s) + eps) + math.sqrt(eps))


# ---------------------------------------------------------------- the filter -----------------------------------------
def overhang(shape, dim, x, axis, sgn, ns, xi0, p, eps):
    """Printed densities (flat list) of the blueprint x (flat sequence) for print direction (axis, sgn)."""
    q = p + math.log(ns) / math.log(xi0)
    idx = canonical_index_map(shape, dim, axis, sgn)
    nl, na, nb = len(idx), len(idx[0]), len(idx[0][0])
    y = [float(v) for v in x]
    for l in range(1, nl):
        for a in range(na):
            for b in range(nb):
                below = [y[idx[l - 1][aa][bb]] for aa, bb in support_positions(na, nb, ns, a, b)]
                e = idx[l][a][b]
                y[e] = smin(float(x[e]), smax(below, p, q), eps)
    return y


def base_layer(shape, dim, axis, sgn):
    idx = canonical_index_map(shape, dim, axis, sgn)
    return sorted(e for row in idx[0] for e in row)


def n_layers(shape, axis):
    return shape[axis]


def classify(shape, dim, x, axis, sgn, ns):
    """Sets of element numbers the qualitative clauses of the statement speak about.

    supported_solid: x_e == 1 and every element straight below it, down to the base layer, has x == 1
                     ("fully supported solid stays solid").
    unsupported:     element above the base layer whose whole support cone is void: every support has x == 0 and is
                     itself in the base layer or unsupported ("unsupported material is removed")."""
    idx = canonical_index_map(shape, dim, axis, sgn)
    nl, na, nb = len(idx), len(idx[0]), len(idx[0][0])
    solid_col = [[[False] * nb for _ in range(na)] for _ in range(nl)]
    void_cone = [[[False] * nb for _ in range(na)] for _ in range(nl)]
    supported_solid, unsupported = [], []
    for l in range(nl):
        for a in range(na):
            for b in range(nb):
                e = idx[l][a][b]
                solid_col[l][a][b] = (x[e] == 1.0) and (l == 0 or solid_col[l - 1][a][b])
                if l == 0:
                    void_cone[l][a][b] = (x[e] == 0.0)
                else:
                    sup_void = all(void_cone[l - 1][aa][bb] for aa, bb in support_positions(na, nb, ns, a, b))
                    void_cone[l][a][b] = (x[e] == 0.0) and sup_void
                    if sup_void:
                        unsupported.append(e)
                if solid_col[l][a][b]:
                    supported_solid.append(e)
    return supported_solid, unsupported


# ---------------------------------------------------------------- symmetries (for the covariance oracle) ------------
def grid_maps(dim):
    """Generators of the symmetry group of a structured grid: one mirror per axis, one swap per axis pair."""
    axes = list(range(dim))
    maps = [('mirror', (a,)) for a in axes]
    maps += [('swap', (a, b)) for a in axes for b in axes if a < b]
    return maps


def map_name(m):
    return m[0] + ''.join('xyz'[a] for a in m[1])


def map_by_name(name):
    kind = 'mirror' if name.startswith('mirror') else 'swap'
    return kind, tuple('xyz'.index(c) for c in name[len(kind):])


def map_shape(m, shape):
    s = list(shape)
    if m[0] == 'swap':
        a, b = m[1]
        s[a], s[b] = s[b], s[a]
    return tuple(s)


def map_direction(m, axis, sgn):
    if m[0] == 'mirror':
        return (axis, -sgn) if axis == m[1][0] else (axis, sgn)
    a, b = m[1]
    return ({a: b, b: a}.get(axis, axis), sgn)


def map_permutation(m, shape):
    """perm such that (pi x)[perm[e]] = x[e]: element e=(i,j,k) of the grid `shape` lands on element perm[e] of the
    mapped grid map_shape(m, shape)."""
    tshape = map_shape(m, shape)
    perm = [0] * (shape[0] * shape[1] * shape[2])
    for k in range(shape[2]):
        for j in range(shape[1]):
            for i in range(shape[0]):
                ijk = [i, j, k]
                if m[0] == 'mirror':
                    a = m[1][0]
                    ijk[a] = shape[a] - 1 - ijk[a]
                else:
                    a, b = m[1]
                    ijk[a], ijk[b] = ijk[b], ijk[a]
                perm[elem_number(shape, i, j, k)] = elem_number(tshape, *ijk)
    return perm


def apply_permutation(perm, x):
    out = [0.0] * len(perm)
    for e, t in enumerate(perm):
        out[t] = x[e]
    return out
