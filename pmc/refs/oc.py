"""Reference model of the optimality-criteria (OC) design update (never imports pymoto).

Written from the textbook form of the method (Bendsoe & Sigmund, 99-line code) and from the statement of C17:

    minimise f(x)   subject to   sum(x) <= V,   xmin <= x <= xmax,     df/dx <= 0

One OC step from the design x with gradient g = df/dx and move limit m:

    box      lower_i = max(xmin_i, x_i - m),   upper_i = min(xmax_i, x_i + m)
    update   U_i(lam) = clip( x_i * sqrt(-g_i / lam), lower_i, upper_i )
    volume   W(lam)   = sum_i U_i(lam)                 (non-increasing in lam)

and the multiplier lam is the root of W(lam) = V, located by bisection to a tolerance `tol` on lam.  Any bisection
that stops when its bracket is shorter than `tol` returns U(lam) for some lam within `tol` of the root set, hence
(U and W being monotone in lam)

    U(lam_hi + tol) <= x_new <= U(lam_lo - tol)     and     W(lam_hi + tol) <= sum(x_new) <= W(lam_lo - tol)

with [lam_lo, lam_hi] the root set {lam : W(lam) = V} (a point if some variable is strictly inside its box, an
interval where W is flat).  This is "the band implied by the bisection tolerance".  The root set is located here by
bisection down to the last bit of lam (double precision, i.e. 4-12 orders of magnitude finer than `tol`), with the
comparison W(lam) >< V widened by `eps` so that summation-order rounding on flat parts of W cannot decide anything.

Also: the objective family of the check (value and gradient, closed forms) and the analytic optimum of the separable
member sum c_i/x_i under a volume constraint and box bounds (x_i = clip(sqrt(c_i/mu)), mu from sum x = V).
"""
import numpy as np

TINY = 1e-300


# ----------------------------------------------------------------------------------------------- objective family
def objective(kind, c, x):
    """Value of the negative-gradient test objectives.  kind: 'inv' sum c/x, 'invsq' sum c/x^2, 'comp' 1/(c.x)."""
    c = np.asarray(c, dtype=float)
    x = np.asarray(x, dtype=float)
    if kind == 'inv':
        return float(np.sum(c / x))
    if kind == 'invsq':
        return float(np.sum(c / x ** 2))
    if kind == 'comp':
        return float(1.0 / np.dot(c, x))
    raise KeyError(kind)


def gradient(kind, c, x):
    c = np.asarray(c, dtype=float)
    x = np.asarray(x, dtype=float)
    if kind == 'inv':
        return -c / x ** 2
    if kind == 'invsq':
        return -2.0 * c / x ** 3
    if kind == 'comp':
        return -c / np.dot(c, x) ** 2
    raise KeyError(kind)


# ----------------------------------------------------------------------------------------------- one OC step
def full(v, n):
    """scalar-or-vector bound -> vector of length n"""
    return np.broadcast_to(np.asarray(v, dtype=float), (n,)).astype(float)


def move_box(x, xmin, xmax, move):
    x = np.asarray(x, dtype=float)
    n = x.size
    return np.maximum(full(xmin, n), x - move), np.minimum(full(xmax, n), x + move)


def oc_update(x, g, lam, lower, upper):
    """U(lam); lam <= 0 stands for the limit lam -> 0+ (infinite scaling where g < 0, zero where g == 0)."""
    x = np.asarray(x, dtype=float)
    g = np.minimum(np.asarray(g, dtype=float), 0.0)
    if lam > 0:
        with np.errstate(over='ignore', invalid='ignore', divide='ignore'):
            t = x * np.sqrt(-g / lam)
        t = np.where(g < 0, t, 0.0)
    else:
        t = np.where((g < 0) & (x > 0), np.inf, 0.0)
    return np.minimum(np.maximum(t, lower), upper)


def _sup_true(pred, l1, l2, iters=400):
    """sup of {lam in (l1, l2] : pred(lam)} for a predicate that is true left of a threshold; l1 if never true."""
    if pred(l2):
        return l2
    if not pred(-1.0):           # the limit lam -> l1+ (only l1 = 0 is used: oc_update treats lam<=0 as the limit)
        return l1
    lo, hi = l1, l2              # pred(lo+) true, pred(hi) false
    for _ in range(iters):
        mid = 0.5 * (lo + hi)
        if mid <= lo or mid >= hi:
            break
        if pred(mid):
            lo = mid
        else:
            hi = mid
    return 0.5 * (lo + hi)


def reachable(lower, upper, maxvol, eps=0.0):
    """the prescribed volume can be met inside the move box"""
    return bool(np.sum(lower) - eps <= maxvol <= np.sum(upper) + eps)


def oc_band(x, g, xmin, xmax, move, maxvol, tol, l1=0.0, l2=1e5, eps=None):
    """Everything the statement allows for one OC step.  Returns a dict with
    lower/upper (move box), reachable, root_in_bracket, lam_lo/lam_hi (root set inside [l1,l2], widened by eps in
    volume), x_lo/x_hi (component band), v_lo/v_hi (volume band), x_star (update at the centre of the root set)."""
    x = np.asarray(x, dtype=float)
    lower, upper = move_box(x, xmin, xmax, move)
    if eps is None:
        eps = 1e-12 * max(1.0, float(np.sum(np.abs(upper))), abs(float(maxvol)))
    assert l1 == 0.0, "reference written for the default lower end of the multiplier bracket"

    gneg = np.minimum(np.asarray(g, dtype=float), 0.0)
    a = x * np.sqrt(-gneg)             # x*sqrt(-g/lam) = a/sqrt(lam): same formula, cheaper inside the root search
    a_inf = np.where(a > 0, np.inf, 0.0)

    def W(lam):
        t = a / np.sqrt(lam) if lam > 0 else a_inf
        return float(np.sum(np.minimum(np.maximum(t, lower), upper)))

    lam_lo = _sup_true(lambda lam: W(lam) > maxvol + eps, l1, l2)          # left of it the volume is too large
    nxt = lam_lo * (1.0 + 1e-12) + TINY
    if nxt < l2 and W(nxt) < maxvol - eps:
        lam_hi = nxt                                                       # isolated root (some variable is free)
    else:
        lam_hi = _sup_true(lambda lam: not (W(lam) < maxvol - eps), l1, l2)  # right of it the volume is too small
    lam_hi = max(lam_hi, lam_lo)
    starved = W(-1.0) < maxvol - eps       # even lam -> 0+ gives too little volume (variables with zero gradient)
    above = W(l2) > maxvol + eps           # the root lies above the upper end of the multiplier bracket
    root_in_bracket = not starved and not above
    x_hi = oc_update(x, g, lam_lo - tol, lower, upper)
    x_lo = oc_update(x, g, lam_hi + tol, lower, upper)
    return {'lower': lower, 'upper': upper, 'reachable': reachable(lower, upper, maxvol, eps),
            'root_in_bracket': bool(root_in_bracket), 'root_above_bracket': bool(above),
            'lam_lo': lam_lo, 'lam_hi': lam_hi,
            'x_lo': x_lo, 'x_hi': x_hi, 'v_lo': float(np.sum(x_lo)), 'v_hi': float(np.sum(x_hi)),
            'x_star': oc_update(x, g, 0.5 * (lam_lo + lam_hi), lower, upper), 'eps': eps,
            'free': int(np.sum((x_lo > lower) & (x_hi < upper)))}


# ----------------------------------------------------------------------------------------------- analytic optimum
def analytic_optimum_inv(c, xmin, xmax, maxvol, tol=0.0):
    """min sum c_i/x_i  s.t. sum x <= V, xmin <= x <= xmax  (c >= 0).
    KKT: x_i = clip(sqrt(c_i/mu), xmin_i, xmax_i), mu >= 0, sum x = V if mu > 0.
    Returns None if infeasible (V < sum xmin), else dict with x_opt, f_opt and the band of designs/objective values
    a multiplier within `tol` of the exact one gives (f is decreasing in every x_i)."""
    c = np.asarray(c, dtype=float)
    n = c.size
    lo, hi = full(xmin, n), full(xmax, n)
    eps = 1e-12 * max(1.0, float(np.sum(hi)), abs(float(maxvol)))
    if maxvol < np.sum(lo) - eps:
        return None
    ones = np.ones(n)
    g = -c                      # with x = 1:  x*sqrt(-g/mu) = sqrt(c/mu)

    def W(mu):
        return float(np.sum(oc_update(ones, g, mu, lo, hi)))

    big = 1e12
    mu_lo = _sup_true(lambda mu: W(mu) > maxvol + eps, 0.0, big)
    mu_hi = max(_sup_true(lambda mu: not (W(mu) < maxvol - eps), 0.0, big), mu_lo)
    x_opt = oc_update(ones, g, 0.5 * (mu_lo + mu_hi), lo, hi)
    x_hi = oc_update(ones, g, mu_lo - tol, lo, hi)
    x_lo = oc_update(ones, g, mu_hi + tol, lo, hi)
    pos = c > 0

    def f(xx):
        return float(np.sum(c[pos] / xx[pos]))
    return {'x_opt': x_opt, 'f_opt': f(x_opt), 'x_lo': x_lo, 'x_hi': x_hi, 'f_lo': f(x_hi), 'f_hi': f(x_lo),
            'mu': (mu_lo, mu_hi), 'volume_active': bool(W(-1.0) > maxvol + eps)}
