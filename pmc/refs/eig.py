"""Reference model for C11 (EigenSolve): value tables, matrix classes, reference spectra and the oracles written
from the property statement.  Never imports pymoto.

Statement: A q_i = lambda_i B q_i, q_i^T B q_i = 1 (bilinear form, no conjugation), order given by the sorting
function (ascending by default), real symmetric problems give real vectors with non-negative mean entry, the dense
path returns the complete spectrum, the sparse path the requested number of eigenvalues closest to the shift."""
import numpy as np

PRIMES = np.array([
    2, 3, 5, 7, 11, 13, 17, 19, 23, 29, 31, 37, 41, 43, 47, 53, 59, 61, 67, 71, 73, 79, 83, 89, 97, 101, 103, 107, 109,
    113, 127, 131, 137, 139, 149, 151, 157, 163, 167, 173, 179, 181, 191, 193, 197, 199, 211, 223, 227, 229, 233, 239,
    241, 251, 257, 263, 269, 271, 277, 281, 283, 293, 307, 311, 313, 317, 331, 337, 347, 349, 353, 359, 367, 373, 379,
    383, 389, 397, 401, 409, 419, 421, 431, 433, 439, 443, 449, 457, 461, 463, 467, 479, 487, 491, 499, 503, 509, 521,
    523, 541])
NTABLES = 10


def tab(n, stream, table=0):
    """n 'generic' numbers in (-1, 1): fractional parts of square roots of primes.  `stream` separates the uses
    inside one case (A real part, A imaginary part, B, ...), `table` is the value table chosen by VERIF_SEED."""
    idx = (np.arange(n) * 7 + stream * 13 + table * 31) % len(PRIMES)
    v = np.sqrt(PRIMES[idx].astype(float))
    return (v - np.floor(v)) * 2 - 1


def sq(n, stream, table):
    return tab(n * n, stream, table).reshape(n, n)


DENSE_CLASSES = ['rsym', 'rgen_real', 'rgen_cpx', 'cherm', 'cgen', 'csym']
REAL_CLASSES = ('rsym', 'rgen_real', 'rgen_cpx')
HERMITIAN_CLASSES = ('rsym', 'cherm')


def dense_A(cls, n, table):
    R, I = sq(n, 1, table), sq(n, 2, table)
    d = 1.7 * np.arange(1.0, n + 1) - 0.9 * n  # distinct, both signs
    if cls == 'rsym':
        return R + R.T + np.diag(0.3 * d)
    if cls == 'cherm':
        C = R + 1j * I
        return C + C.conj().T + np.diag(0.3 * d)
    if cls == 'cgen':
        return np.diag(d) + 0.4 * (R + 1j * I)
    if cls == 'csym':
        C = R + 1j * I
        return np.diag(d + 0.5j * d[::-1]) + 0.3 * (C + C.T)
    # real unsymmetric matrices with a prescribed spectrum: S D S^-1, S a mild perturbation of the identity
    S = np.eye(n) + 0.25 * sq(n, 5, table)
    if cls == 'rgen_real':
        D = np.diag(d)
    elif cls == 'rgen_cpx':
        D = np.zeros((n, n))
        for k in range(0, n - 1, 2):
            a, b = d[k], 0.6 + 0.35 * k
            D[k:k + 2, k:k + 2] = [[a, b], [-b, a]]
        if n % 2:
            D[n - 1, n - 1] = d[n - 1]
    else:
        raise KeyError(cls)
    return S @ D @ np.linalg.inv(S)


def dense_B(kind, n, table):
    """Positive definite second matrix: 'spd' real symmetric, 'hpd' complex Hermitian."""
    S = sq(n, 3, table)
    if kind == 'spd':
        return S @ S.T + n * np.eye(n)
    if kind == 'hpd':
        S = S + 1j * sq(n, 4, table)
        return S @ S.conj().T + n * np.eye(n)
    raise KeyError(kind)


def b_kind(cls, gen):
    """'std' -> None; 'gen' -> B of the same field as A; 'genmix' -> B of the other field."""
    if gen == 'std':
        return None
    real = cls in REAL_CLASSES
    if gen == 'gen':
        return 'spd' if real else 'hpd'
    if gen == 'genmix':
        return 'hpd' if real else 'spd'
    raise KeyError(gen)


def is_real_symmetric_problem(A, B):
    ok = np.isrealobj(A) and np.array_equal(A, A.T)
    if B is not None:
        ok = ok and np.isrealobj(B) and np.array_equal(B, B.T)
    return bool(ok)


# ---------------------------------------------------------------- sorting functions handed to the module and keys
def sort_desc(W, Q):
    return np.argsort(-np.real(W))


def sort_abs(W, Q):
    return np.argsort(np.abs(W))


def _vec_key(Q):
    return np.abs(Q[0, :]) / np.sqrt(np.sum(np.abs(Q) ** 2, axis=0))


def sort_vec(W, Q):
    """Mode-tracking style function that uses the vectors (invariant to their scaling)."""
    return np.argsort(_vec_key(Q))


SORTINGS = {'default': None, 'desc': sort_desc, 'abs': sort_abs, 'vec': sort_vec}


def sort_key(name, W, Q):
    """The quantity that has to be non-decreasing along the returned pairs."""
    if name == 'default':
        return np.real(W)   # complex: numpy orders by real part first; ties in the real part are not judged
    if name == 'desc':
        return -np.real(W)
    if name == 'abs':
        return np.abs(W)
    if name == 'vec':
        return _vec_key(Q)
    raise KeyError(name)


def order_violations(key, gap):
    """Pairs i<j with key_i > key_j + gap (keys closer than the gap are not judged)."""
    key = np.asarray(key, dtype=float)
    out = []
    for i in range(len(key)):
        for j in range(i + 1, len(key)):
            if key[i] > key[j] + gap:
                out.append((i, j))
    return out


def order_decidable(key, gap):
    """Number of pairs whose keys differ by more than the gap (what the order check can decide on)."""
    key = np.asarray(key, dtype=float)
    d = np.abs(key[:, None] - key[None, :])
    return int(np.sum(np.triu(d > gap, 1)))


# ---------------------------------------------------------------- reference spectrum
def ref_eig(A, B=None):
    """Spectrum and unit-2-norm right eigenvectors of the dense pencil via B^-1 A (numpy/LAPACK geev)."""
    A = np.asarray(A)
    M = A if B is None else np.linalg.solve(np.asarray(B), A)
    W, Q = np.linalg.eig(M)
    Q = Q / np.sqrt(np.sum(np.abs(Q) ** 2, axis=0))[None, :]
    return W, Q


def bilinear_ratio(Q, B=None):
    """|q^T B q| / (q^H B q) per column: 0 for isotropic vectors, for which the documented normalisation
    q^T B q = 1 does not exist; 1 for real vectors."""
    BQ = Q if B is None else np.asarray(B) @ Q
    num = np.abs(np.sum(Q * BQ, axis=0))
    den = np.abs(np.sum(Q.conj() * BQ, axis=0))
    return num / den


def match_multiset(W, Wref):
    """Largest distance in the best one-to-one matching of two equally long lists of complex numbers."""
    from scipy.optimize import linear_sum_assignment
    W = np.asarray(W, dtype=complex).ravel()
    Wref = np.asarray(Wref, dtype=complex).ravel()
    if W.size != Wref.size:
        return float('inf')
    if W.size == 0:
        return 0.0
    if not (np.all(np.isfinite(W)) and np.all(np.isfinite(Wref))):
        return float('inf')
    D = np.abs(W[:, None] - Wref[None, :])
    # bottleneck matching is what we want; for near-perfect matchings the sum-optimal assignment has the same
    # bottleneck up to rounding, and for bad ones any large number will do
    r, c = linear_sum_assignment(D)
    return float(np.max(D[r, c]))


def residual(A, B, w, q):
    """(max-norm of r = A q - w B q, scale): the scale is the largest entry of |A||q| + |w||B||q|, i.e. the size of
    the terms that cancel in r (a large penalty value on a constrained dof does not inflate it, because the
    eigenvector vanishes there).  Dense or scipy-sparse matrices."""
    aq = np.abs(q)
    Bq = q if B is None else B @ q
    r = np.asarray(A @ q - w * Bq).ravel()
    terms = np.asarray(abs(A) @ aq).ravel() + abs(w) * (aq if B is None else np.asarray(abs(B) @ aq).ravel())
    scale = float(np.max(terms)) if terms.size else 0.0
    err = float(np.max(np.abs(r))) if np.all(np.isfinite(r)) else float('inf')
    return err, scale


def bilinear_norm(B, q):
    Bq = q if B is None else B @ q
    return np.sum(q * np.asarray(Bq).ravel())


# ---------------------------------------------------------------- sparse path: which eigenvalues are requested
def nearest_to_shift(Wref, sigma, k, extra=2, relgap=1e-3):
    """The k reference eigenvalues closest to sigma plus an admissibility verdict.

    Admissible iff the k+extra nearest reference eigenvalues are simple (mutual distance >= relgap*scale), none of
    them coincides with the shift (the shifted matrix would be singular) and the k-th and (k+1)-th nearest differ in
    distance by >= relgap*scale (otherwise 'the k closest' is not unique)."""
    Wref = np.asarray(Wref, dtype=complex)
    dist = np.abs(Wref - sigma)
    order = np.argsort(dist, kind='stable')
    m = min(len(Wref), k + extra)
    near = Wref[order[:m]]
    scale = max(float(np.max(np.abs(near))), abs(sigma), 1e-300)
    tol = relgap * scale
    reason = None
    if k > len(Wref):
        reason = 'k>n'
    else:
        # simple: compare against the whole spectrum, not only among themselves
        for a in order[:m]:
            d = np.abs(Wref - Wref[a])
            d[a] = np.inf
            if np.min(d) < tol:
                reason = 'multiple_near_shift'
                break
        if reason is None and np.min(dist) < tol:
            reason = 'shift_is_eigenvalue'
        if reason is None and k < len(Wref) and dist[order[k]] - dist[order[k - 1]] < tol:
            reason = 'boundary_tie'
    return Wref[order[:k]], reason


def physical_spectrum(Wref, artificial, reltol=1e-6):
    """Reference eigenvalues that are not the artificial boundary-condition eigenvalue(s)."""
    Wref = np.asarray(Wref, dtype=complex)
    keep = np.ones(len(Wref), dtype=bool)
    for a in np.atleast_1d(artificial):
        keep &= np.abs(Wref - a) > reltol * max(abs(a), 1.0)
    return Wref[keep]


# ---------------------------------------------------------------- FE pencil variants (pure matrix algebra)
def x_table(nel, table):
    """Element densities in (0.3, 1.0], all different (breaks the mesh symmetries -> simple eigenvalues)."""
    return 0.65 + 0.35 * tab(nel, 6, table)


def chain_pencil(n, table, with_mass):
    """Real symmetric positive definite tridiagonal K (and diagonal M) with simple, well separated eigenvalues."""
    import scipy.sparse as sps
    d = 2.0 + np.arange(n) * 0.9 + 0.6 * tab(n, 3, table)
    o = -(0.5 + 0.3 * tab(n - 1, 4, table))
    K = sps.diags([o, d, o], [-1, 0, 1]).tocsc()
    M = sps.diags(1.0 + 0.4 * tab(n, 5, table)).tocsc() if with_mass else None
    return K, M


def pencil_variant(K, M, variant, table):
    """Derive general / complex pencils from a real symmetric FE pencil (scipy sparse in, scipy sparse out).

    'sym'   : unchanged (real symmetric)
    'herm'  : D K D^H, D M D^H with D a diagonal of unit phases (complex Hermitian, same spectrum)
    'csym'  : (1 + 0.05i) K, M unchanged (complex symmetric: structural damping)
    'unsym' : K diag(s), s in (0.8, 1.2) (real unsymmetric), M unchanged
    """
    import scipy.sparse as sps
    n = K.shape[0]
    if variant == 'sym':
        return K, M
    if variant == 'herm':
        ph = np.exp(1j * np.pi * tab(n, 7, table))
        D = sps.diags(ph)
        Kv = (D @ K @ D.conj()).tocsc()
        Mv = None if M is None else (D @ M @ D.conj()).tocsc()
        # make exactly Hermitian (products of unit phases carry rounding)
        Kv = ((Kv + Kv.conj().T) / 2).tocsc()
        if Mv is not None:
            Mv = ((Mv + Mv.conj().T) / 2).tocsc()
        return Kv, Mv
    if variant == 'csym':
        return ((1 + 0.05j) * K).tocsc(), M
    if variant == 'unsym':
        s = 1.0 + 0.2 * tab(n, 8, table)
        return (K @ sps.diags(s)).tocsc(), M
    raise KeyError(variant)
