"""Reference model for the linear-system modules (C07).  Never imports pymoto.

Everything here is written from the *statements*:

* LinSolve:            A x = b
* Inverse:             A B = I
* SystemOfEquations:   A x = b  with  x[p] = xp  and  b[f] = bf
* StaticCondensation:  S = A_mm - A_mf A_ff^-1 A_fm ; with x_p = 0 and b_f = 0 the main dofs of the full system
                       obey  S x_m = b_m

plus the fixed "generic" value tables (square roots of primes) and the matrix families built from them.
"""
import itertools
import math
import numpy as np

# ----------------------------------------------------------------------------------------------------------------------
# generic numbers
# ----------------------------------------------------------------------------------------------------------------------
_PRIMES = []


def _primes(n):
    k = 2
    while len(_PRIMES) < n:
        if all(k % p for p in _PRIMES if p * p <= k):
            _PRIMES.append(k)
        k += 1
    return _PRIMES


_primes(400)
TABLE_FACTORS = [1.0, 1.6180339887498949, 1.3591409142295225, 0.7853981633974483]   # 1, phi, e/2, pi/4
NTABLES = len(TABLE_FACTORS)


def g(k, t):
    """k-th generic number of table t, in [-1,-0.15] u [0.15,1] (never tiny, so a pattern never loses an entry)."""
    v = math.sqrt(_PRIMES[k % len(_PRIMES)]) * TABLE_FACTORS[t % NTABLES] * (1 + (k // len(_PRIMES)))
    f = v - math.floor(v)
    x = 2.0 * f - 1.0
    if abs(x) < 0.15:
        x = math.copysign(0.15 + abs(x), x if x != 0 else 1.0)
    return min(max(x, -1.0), 1.0)


def gmat(n, m, t, off=0):
    """(n,m) array of generic numbers; `off` selects an independent stretch of the table."""
    return np.array([[g(off + i * m + j, t) for j in range(m)] for i in range(n)], dtype=float)


def gvec(n, t, off=0):
    return np.array([g(off + i, t) for i in range(n)], dtype=float)


# ----------------------------------------------------------------------------------------------------------------------
# matrix families
# ----------------------------------------------------------------------------------------------------------------------
FAMILIES = ['gen', 'symind', 'spd', 'negdef', 'cgen', 'hpd', 'hind', 'hnegdef', 'csym', 'lower', 'upper', 'cupper',
            'bcdec', 'cbcdec', 'bcrow', 'bccol', 'diag', 'cdiag', 'gperm', 'symzd', 'hzd']
MIN_SIZE = {'gperm': 2, 'symzd': 2, 'hzd': 2}      # families that do not exist below this size


def _signs(n):
    return np.array([1.0 if i % 2 == 0 else -1.0 for i in range(n)])


def bc_dofs(n):
    """dofs that the 'boundary-condition' families decouple: first and (for n >= 4) one interior dof."""
    return [0] if n < 4 else [0, n - 2]


def family_matrix(fam, n, t):
    """Dense matrix of family `fam`, size n, from value table t."""
    R = gmat(n, n, t, off=0)
    Im = gmat(n, n, t, off=101)
    C = R + 1j * Im
    dmag = 1.5 + np.abs(gvec(n, t, off=211))            # 1.65 .. 2.5
    if fam == 'gen':
        A = R.copy()
        A[np.diag_indices(n)] = dmag * np.sign(gvec(n, t, off=223))
        return A
    if fam == 'symind':
        A = (R + R.T) / 2
        A[np.diag_indices(n)] = dmag * _signs(n) if n > 1 else -dmag
        return A
    if fam == 'spd':
        return R.T @ R + 0.5 * np.eye(n)
    if fam == 'negdef':
        return -(R.T @ R + 0.5 * np.eye(n))
    if fam == 'cgen':
        A = C.copy()
        A[np.diag_indices(n)] = dmag * np.sign(gvec(n, t, off=223)) + 1j * gvec(n, t, off=227)
        return A
    if fam == 'hpd':
        return C.conj().T @ C + 0.5 * np.eye(n)
    if fam == 'hnegdef':
        return -(C.conj().T @ C + 0.5 * np.eye(n))
    if fam == 'hind':
        A = (C + C.conj().T) / 2
        A[np.diag_indices(n)] = dmag * _signs(n) if n > 1 else -dmag
        return A
    if fam == 'csym':
        A = (C + C.T) / 2
        A[np.diag_indices(n)] = dmag * np.sign(gvec(n, t, off=223)) + 1j * gvec(n, t, off=227)
        return A
    if fam in ('lower', 'upper', 'cupper'):
        B = family_matrix('cgen' if fam == 'cupper' else 'gen', n, t)
        return np.tril(B) if fam == 'lower' else np.triu(B)
    if fam in ('bcdec', 'cbcdec'):
        A = family_matrix('hpd' if fam == 'cbcdec' else 'spd', n, t)
        for d in bc_dofs(n):
            A[d, :] = 0
            A[:, d] = 0
            A[d, d] = 1.0
        return A
    if fam in ('bcrow', 'bccol'):
        A = family_matrix('gen', n, t)
        for d in bc_dofs(n):
            if fam == 'bcrow':
                A[d, :] = 0
            else:
                A[:, d] = 0
            A[d, d] = 1.0
        return A
    if fam == 'gperm':      # rows rotated: small generic numbers on the diagonal, an LU factorization has to pivot
        return np.roll(family_matrix('gen', n, t), 1, axis=0)
    if fam == 'symzd':      # symmetric with an exactly zero diagonal: LDL needs 2x2 pivots
        A = (R + R.T) / 2
        A[np.diag_indices(n)] = 0.0
        return A
    if fam == 'hzd':        # Hermitian with a small diagonal
        A = (C + C.conj().T) / 2
        A[np.diag_indices(n)] = 0.1 * gvec(n, t, off=229)
        return A
    if fam == 'diag':
        return np.diag(dmag * np.sign(gvec(n, t, off=223)))
    if fam == 'cdiag':
        return np.diag(dmag * np.sign(gvec(n, t, off=223)) + 1j * gvec(n, t, off=227))
    raise KeyError(fam)


# n = 3 pattern families: every off-diagonal sparsity pattern, diagonally dominant values so that every pattern is
# non-singular and well conditioned
PATTERN_KINDS = ['r', 'c', 'rs', 'ri', 'ch', 'hi', 'cs']


def offdiag_positions(n):
    return [(i, j) for i in range(n) for j in range(n) if i != j]


def upper_positions(n):
    return [(i, j) for i in range(n) for j in range(i + 1, n)]


def pattern_matrix(name, t, n=3):
    """name = kind + bits; kind in PATTERN_KINDS; bits over the off-diagonal (r, c) or strictly upper positions."""
    kind = name.rstrip('01')
    bits = [int(ch) for ch in name[len(kind):]]
    R = gmat(n, n, t, off=307)
    Im = gmat(n, n, t, off=331)
    C = R + 1j * Im
    d = 1.5 * (n - 1) + 1.0 + np.abs(gvec(n, t, off=349))          # > sum of |off-diagonal| <= (n-1)*sqrt(2)
    if kind in ('r', 'c'):
        pos = offdiag_positions(n)
        assert len(bits) == len(pos)
        sg = np.sign(gvec(n, t, off=353))
        A = np.diag(d * sg).astype(float if kind == 'r' else complex)
        if kind == 'c':
            A = A + 1j * np.diag(gvec(n, t, off=359))
        V = R if kind == 'r' else C
        for b, (i, j) in zip(bits, pos):
            if b:
                A[i, j] = V[i, j]
        return A
    pos = upper_positions(n)
    assert len(bits) == len(pos)
    if kind in ('rs', 'ri'):
        A = np.diag(d * (_signs(n) if kind == 'ri' else 1.0))
        for b, (i, j) in zip(bits, pos):
            if b:
                A[i, j] = A[j, i] = R[i, j]
        return A
    if kind in ('ch', 'hi'):
        A = np.diag(d * (_signs(n) if kind == 'hi' else 1.0)).astype(complex)
        for b, (i, j) in zip(bits, pos):
            if b:
                A[i, j] = C[i, j]
                A[j, i] = np.conj(C[i, j])
        return A
    if kind == 'cs':
        A = np.diag(d + 1j * gvec(n, t, off=359)).astype(complex)
        for b, (i, j) in zip(bits, pos):
            if b:
                A[i, j] = A[j, i] = C[i, j]
        return A
    raise KeyError(name)


def pattern_names(n=3):
    names = []
    for bits in itertools.product('01', repeat=len(offdiag_positions(n))):
        s = ''.join(bits)
        names += ['r' + s, 'c' + s]
    for bits in itertools.product('01', repeat=len(upper_positions(n))):
        s = ''.join(bits)
        names += [k + s for k in ('rs', 'ri', 'ch', 'hi', 'cs')]
    names.sort(key=lambda nm: (nm.count('1'), len(nm), nm))
    return names


def matrix(name, n, t):
    """Dense matrix from a descriptor name: a family name, or 'p:<kind><bits>' for a pattern matrix."""
    if name.startswith('p:'):
        return pattern_matrix(name[2:], t, n)
    return family_matrix(name, n, t)


# ----------------------------------------------------------------------------------------------------------------------
# classification (of the *values*, by the reference)
# ----------------------------------------------------------------------------------------------------------------------
def is_symmetric(A):
    A = np.asarray(A)
    return bool(np.abs(A - A.T).max() <= 1e-13 * max(1.0, np.abs(A).max()))


def is_hermitian(A):
    A = np.asarray(A)
    return bool(np.abs(A - A.conj().T).max() <= 1e-13 * max(1.0, np.abs(A).max()))


def is_diagonal(A):
    A = np.asarray(A)
    return bool(np.all(A[~np.eye(A.shape[0], dtype=bool)] == 0))


def is_posdef(A):
    A = np.asarray(A)
    if not is_hermitian(A):
        return False
    return bool(np.linalg.eigvalsh(A).min() > 1e-8 * max(1.0, np.abs(A).max()))


def is_triangular(A):
    A = np.asarray(A)
    return bool(np.all(np.triu(A, 1) == 0) or np.all(np.tril(A, -1) == 0))


def cond(A):
    A = np.asarray(A)
    if A.size == 0:
        return 1.0
    s = np.linalg.svd(A, compute_uv=False)
    if s[-1] == 0:
        return float('inf')
    return float(s[0] / s[-1])


def classify(A):
    """dict of the facts a check needs about a matrix"""
    A = np.asarray(A)
    return {'complex': bool(np.iscomplexobj(A)), 'symmetric': is_symmetric(A), 'hermitian': is_hermitian(A),
            'diagonal': is_diagonal(A), 'posdef': is_posdef(A), 'triangular': is_triangular(A), 'cond': cond(A)}


def symmetry_label(A):
    """'symmetric' (A == A^T, the class for which A_fp^T == A_pf) or 'unsymmetric'"""
    return 'symmetric' if is_symmetric(A) else 'unsymmetric'


def onesided_decoupled(A):
    """some dof has only its row or only its column decoupled (triangular matrices, one-sided boundary conditions)"""
    B = np.asarray(A) != 0
    for i in range(B.shape[0]):
        if (B[i].sum() <= 1) != (B[:, i].sum() <= 1):
            return True
    return False


def decoupled_dofs(A):
    B = np.asarray(A) != 0
    return [i for i in range(B.shape[0]) if B[i, i] and B[i].sum() == 1 and B[:, i].sum() == 1]


# ----------------------------------------------------------------------------------------------------------------------
# right-hand sides
# ----------------------------------------------------------------------------------------------------------------------
RHS_SHAPES = ['vec', 'col', 'blk']          # (n,), (n,1), (n,k)
BLOCK_COLUMNS = 3


def rhs(n, shape, cplx, t, off=401):
    """generic right-hand side of the requested shape ('vec' (n,), 'col' (n,1), 'blk' (n,3)) and dtype"""
    k = {'vec': 1, 'col': 1, 'blk': BLOCK_COLUMNS}[shape]
    B = gmat(n, k, t, off=off) * 2.0
    if cplx:
        B = B + 1j * gmat(n, k, t, off=off + 53)
    return B[:, 0].copy() if shape == 'vec' else B


# ----------------------------------------------------------------------------------------------------------------------
# oracles
# ----------------------------------------------------------------------------------------------------------------------
def _maxabs(a):
    a = np.asarray(a)
    if a.size == 0:
        return 0.0
    v = np.max(np.abs(a))
    return float(v) if np.isfinite(v) else float('inf')


def product_err(A, X, B):
    """(err, scale) of the statement  A X = B : err = max |A X - B|, scale = max(|A| |X|, |B|) (max-norm of the
    operands of the comparison, without cancellation)."""
    A = np.asarray(A)
    X = np.asarray(X)
    B = np.asarray(B)
    if X.shape != B.shape or A.shape[1] != X.shape[0]:
        return float('inf'), 1.0
    if X.size == 0:
        return 0.0, 1.0
    Rz = A @ X - B
    if not np.all(np.isfinite(Rz)):
        return float('inf'), 1.0
    scale = max(_maxabs(np.abs(A) @ np.abs(X)), _maxabs(B))
    return _maxabs(Rz), scale


def rel_residual(A, X, B):
    """max over columns of |A x - b|_2 / |b|_2 (for iterative solvers)."""
    A = np.asarray(A)
    X = np.asarray(X)
    B = np.asarray(B)
    if X.shape != B.shape:
        return float('inf')
    Rz = A @ X - B
    if Rz.ndim == 1:
        Rz = Rz[:, None]
        B = B[:, None]
    bn = np.linalg.norm(B, axis=0)
    v = np.linalg.norm(Rz, axis=0) / np.where(bn == 0, 1.0, bn)
    return float(np.max(v)) if np.all(np.isfinite(v)) else float('inf')


def fp_partitions(n):
    """every split of range(n) into non-empty (free, prescribed); simplest (fewest prescribed) first"""
    out = []
    for mask in range(1, 2 ** n - 1):
        p = [i for i in range(n) if mask >> i & 1]
        f = [i for i in range(n) if not mask >> i & 1]
        out.append((f, p))
    out.sort(key=lambda fp: (len(fp[1]), fp[1]))
    return out


def mfp_partitions(n):
    """every assignment of range(n) to (main, free, prescribed-rest) with main and free non-empty"""
    out = []
    for lab in itertools.product('mfp', repeat=n):
        m = [i for i in range(n) if lab[i] == 'm']
        f = [i for i in range(n) if lab[i] == 'f']
        p = [i for i in range(n) if lab[i] == 'p']
        if m and f:
            out.append((m, f, p))
    out.sort(key=lambda t: (len(t[2]), len(t[0]), t))
    return out


def sub(A, rows, cols):
    return np.asarray(A)[np.ix_(list(rows), list(cols))]


def soe_reference(A, f, p, bf, xp):
    """(x, b) of the partitioned system by plain dense algebra"""
    A = np.asarray(A)
    n = A.shape[0]
    dt = np.result_type(A, bf, xp)
    x = np.zeros((n,) + np.shape(bf)[1:], dtype=dt)
    b = np.zeros_like(x)
    x[p, ...] = xp
    x[f, ...] = np.linalg.solve(sub(A, f, f), bf - sub(A, f, p) @ xp)
    b[f, ...] = bf
    b[p, ...] = sub(A, p, f) @ x[f, ...] + sub(A, p, p) @ xp
    return x, b


def schur(A, m, f):
    """A_mm - A_mf A_ff^-1 A_fm"""
    return sub(A, m, m) - sub(A, m, f) @ np.linalg.solve(sub(A, f, f), sub(A, f, m))


def full_main_response(A, m, f, bm):
    """x_m of the full system with the load bm on the main dofs, zero load on the free dofs and every other dof
    fixed to zero."""
    mf = list(m) + list(f)
    Amf = sub(A, mf, mf)
    rhs_ = np.zeros((len(mf),) + np.shape(bm)[1:], dtype=np.result_type(A, bm))
    rhs_[:len(m), ...] = bm
    return np.linalg.solve(Amf, rhs_)[:len(m), ...]


def rows_err(A, x, b, rows):
    """(err, scale) of the rows `rows` of the statement A x = b (x, b of full size)."""
    A = np.asarray(A)
    x = np.asarray(x)
    b = np.asarray(b)
    if x.shape != b.shape or A.shape[1] != x.shape[0]:
        return float('inf'), 1.0
    rows = list(rows)
    Rz = (A @ x - b)[rows, ...]
    if not np.all(np.isfinite(Rz)):
        return float('inf'), 1.0
    scale = max(_maxabs((np.abs(A) @ np.abs(x))[rows, ...]), _maxabs(b[rows, ...]))
    return _maxabs(Rz), scale
