"""Reference model for C10 (MMA).  Never imports pymoto.

Contents
* value tables ("generic" numbers from square roots of primes, selected by a table index) and the finite convex
  problem family: objectives {sepquad, coupquad, recip, linear} x constraint sets {vol, ball, two, inactive_first}
  on a box [lo, hi] given as scalar / per-signal / per-variable bounds; variable splits over signals; move limits;
  starting points; asymptote settings;
* the MMA approximation (Svanberg 1987 eq. (3)-(6); Svanberg 2007 "MMA and GCMMA" section 3):
      f~_i(x) = sum_j ( p_ij/(U_j - x_j) + q_ij/(x_j - L_j) ) + r_i ,  p_ij, q_ij >= 0,  L_j < x_j < U_j,
  which in the sub-problem form  f~_i(x) - a_i z - y_i <= 0  is handed over as  sum_j(...) - a_i z - y_i <= b_i,
  b_i = -r_i ; value and gradient of that approximation at a point;
* the sub-problem (Svanberg 2007 section 5)
      min  f~_0(x) + a0 z + sum_i ( c_i y_i + d_i y_i^2 / 2 )
      s.t. f~_i(x) - a_i z - y_i <= 0,   alfa <= x <= beta,   y >= 0,  z >= 0
  and the residuals of its KKT system for a candidate (x, y, z, lam, xsi, eta, mu, zet, s);
* a reference optimum of a family member: SLSQP start, active-set Newton polish, and an explicit verification of
  the KKT conditions of the ORIGINAL convex problem (<= 1e-10 relative) plus a uniqueness test (strict
  complementarity + positive definite reduced Hessian); only a verified point is ever used as an expectation.
"""
import numpy as np

# ----------------------------------------------------------------------------------------------- value tables
_PRIMES = [2, 3, 5, 7, 11, 13, 17, 19, 23, 29, 31, 37, 41, 43, 47, 53, 59, 61, 67, 71, 73, 79, 83, 89]
NTABLES = 3


def gen(table, salt, count):
    """count numbers in (0.05, 0.95): fractional parts of sqrt(prime)*(1+salt/7), squeezed away from 0 and 1.
    Deterministic, no RNG; 'table' shifts the prime window."""
    out = []
    for j in range(count):
        p = _PRIMES[(j + 5 * table + 3 * salt) % len(_PRIMES)]
        v = np.sqrt(p) * (1.0 + salt / 7.0)
        out.append(0.05 + 0.9 * (v - np.floor(v)))
    return np.array(out)


SPLITS = ['one_array', 'array_scalar', 'scalars', 'two_arrays']
OBJECTIVES = ['sepquad', 'coupquad', 'recip', 'linear']
CONSTRAINTS = ['vol', 'ball', 'two', 'inactive_first']
STARTS = ['lower', 'mid', 'upper', 'mixed']
KINDS = ['scalar', 'persignal', 'pervar']
VERSIONS = ['Svanberg1987', 'Svanberg2007']
# (asyinit, asyincr, asydecr, albefa)
ASY = {'default': (0.5, 1.2, 0.7, 0.1), 'tight': (0.2, 1.2, 0.65, 0.1), 'wide': (0.5, 1.1, 0.5, 0.2)}


def split_sizes(n, split):
    """Sizes of the variable signals; 0 stands for a scalar (0-d) signal, k>=1 for an array of length k.
    Returns None where the split does not exist for this n."""
    if split == 'one_array':
        return [n]
    if split == 'scalars':
        return [0] * n
    if n < 2:
        return None
    if split == 'array_scalar':
        return [n - 1, 0]
    if split == 'two_arrays':
        k = (n + 1) // 2
        return [k, n - k]
    raise KeyError(split)


def seg_lengths(sizes):
    return [max(s, 1) for s in sizes]


def cumlens(sizes):
    return np.concatenate([[0], np.cumsum(seg_lengths(sizes))]).astype(int)


def expand_per_signal(vals, sizes):
    return np.concatenate([np.full(k, v) for v, k in zip(vals, seg_lengths(sizes))])


def bounds_spec(n, sizes, kind, table):
    """(xmin_spec, xmax_spec, lo, hi): the specification as handed to the optimiser (python float, per-signal
    array, per-variable array) and the per-variable vectors it stands for."""
    nsig = len(sizes)
    if kind == 'scalar':
        lo_s, hi_s = [(0.1, 1.0), (0.2, 1.5), (0.15, 0.9)][table % NTABLES]
        return lo_s, hi_s, np.full(n, lo_s), np.full(n, hi_s)
    if kind == 'persignal':
        lo_v = 0.1 + 0.3 * gen(table, 1, nsig)
        hi_v = lo_v + 0.6 + 1.2 * gen(table, 2, nsig)
        return lo_v.copy(), hi_v.copy(), expand_per_signal(lo_v, sizes), expand_per_signal(hi_v, sizes)
    if kind == 'pervar':
        lo_v = 0.1 + 0.3 * gen(table, 3, n)
        hi_v = lo_v + 0.5 + 1.5 * gen(table, 4, n)
        return lo_v.copy(), hi_v.copy(), lo_v.copy(), hi_v.copy()
    if kind == 'wide':
        # per-variable bounds whose ranges differ by four orders of magnitude (a size variable next to densities)
        lo_v = 0.1 + 0.3 * gen(table, 3, n)
        rng = 0.5 + 1.5 * gen(table, 4, n)
        rng[0] *= 1e4
        hi_v = lo_v + rng
        return lo_v.copy(), hi_v.copy(), lo_v.copy(), hi_v.copy()
    if kind == 'small':
        # a uniformly small physical scale (thicknesses in metres): the box is about 1e-3 wide for every variable
        lo_v = 1e-3 * (0.1 + 0.3 * gen(table, 3, n))
        hi_v = lo_v + 1e-3 * (0.5 + 1.5 * gen(table, 4, n))
        return lo_v.copy(), hi_v.copy(), lo_v.copy(), hi_v.copy()
    if kind == 'zero':
        # every lower bound is exactly 0 (densities with xmin = 0): a start at the lower bound is a start at 0.0
        hi_v = 0.5 + 1.5 * gen(table, 4, n)
        return 0.0, hi_v.copy(), np.zeros(n), hi_v.copy()
    raise KeyError(kind)


def move_spec(n, sizes, kind, table):
    """(move_spec, per-variable move vector)."""
    nsig = len(sizes)
    if kind == 'scalar':
        mv = [0.2, 0.1, 0.3][table % NTABLES]
        return mv, np.full(n, mv)
    if kind == 'persignal':
        v = 0.08 + 0.3 * gen(table, 5, nsig)
        return v.copy(), expand_per_signal(v, sizes)
    if kind == 'pervar':
        v = 0.08 + 0.3 * gen(table, 6, n)
        return v.copy(), v.copy()
    raise KeyError(kind)


def start_point(n, lo, hi, start, table):
    if start == 'lower':
        return lo.copy()
    if start == 'upper':
        return hi.copy()
    if start == 'mid':
        return 0.5 * (lo + hi)
    if start == 'mixed':
        return lo + gen(table, 7, n) * (hi - lo)
    if start == 'partzero':   # every second variable exactly on its lower bound, the others inside
        x = lo + gen(table, 7, n) * (hi - lo)
        x[::2] = lo[::2]
        return x
    if start == 'int':      # integer-valued start (the harness hands it over as integer-typed states)
        return np.ones(n)
    raise KeyError(start)


# --------------------------------------------------------------------------------------------- problem family
class Problem:
    """min f0(x) s.t. g_i(x) <= 0 (i=1..m), lo <= x <= hi; all functions convex, smooth on the box (lo > 0).
    u = (x-lo)/(hi-lo) are normalised coordinates."""

    def __init__(self, n, obj, cons, lo, hi, table):
        self.n, self.obj, self.cons, self.table = n, obj, cons, table
        self.lo, self.hi = np.asarray(lo, float).copy(), np.asarray(hi, float).copy()
        self.w = self.hi - self.lo
        assert np.all(self.lo >= 0) and np.all(self.w > 0)      # (lo = 0: only for members without 1/x terms)
        g = lambda salt: gen(table, salt, n)
        self.h = 1.0 + 2.0 * g(8)
        self.t = -0.2 + 1.4 * g(9)
        sgn = np.array([1.0 if j % 2 == 0 else -1.0 for j in range(n)])
        v = sgn * (0.3 + g(10))
        self.H = np.diag(self.h) + 0.6 * np.outer(v, v)
        self.crec = 0.5 + g(11)
        sl = np.array([-1.0, 1.0, -1.0, -1.0, 1.0, -1.0, 1.0, -1.0, -1.0, 1.0])[:n]
        self.clin = sl * (0.3 + g(12))
        self.wvol = 0.5 + g(13)
        self.cball = 0.4 + 0.2 * g(14)
        self.rball = 0.3
        self.funs = [obj] + {'vol': [('vol', 0.4)], 'ball': [('ball', self.rball)],
                             'two': [('vol', 0.45), ('ball', self.rball)],
                             'inactive_first': [('vol', 0.97), ('ball', self.rball)],
                             # three reciprocal constraints (used with the min-max options a, a0 only): satisfied with
                             # margin at the upper bounds, violated at the lower bounds
                             'rec3': [('rec', 0), ('rec', 1), ('rec', 2)]}[cons]
        self.crec3 = [0.1 + 4.9 * g(20 + i) for i in range(3)]
        self.m = len(self.funs) - 1
        self.gscale = 1.0    # factor on every constraint (value scale of the constraints, e.g. stresses in MPa)
        self.shift = 0.0     # added to every constraint value (shift >= 1: no x satisfies g <= 0 without the variable z)

    def u(self, x):
        return (np.asarray(x, float) - self.lo) / self.w

    def fun(self, i, x):
        """(value, gradient, Hessian) of response i with respect to x; constraints are gscale*g(x) + shift."""
        v, g, H = self._fun(i, x)
        if i >= 1:
            return self.gscale * v + self.shift, self.gscale * g, self.gscale * H
        return v, g, H

    def _fun(self, i, x):
        x = np.asarray(x, float)
        n, u, w = self.n, self.u(x), self.w
        f = self.funs[i]
        if f == 'sepquad':
            d = u - self.t
            return 1.0 + 0.5 * np.sum(self.h * d * d), self.h * d / w, np.diag(self.h / w ** 2)
        if f == 'coupquad':
            d = u - self.t
            Hd = self.H @ d
            return 1.0 + 0.5 * d @ Hd, Hd / w, self.H / np.outer(w, w)
        if f == 'recip':
            return np.sum(self.crec / x), -self.crec / x ** 2, np.diag(2 * self.crec / x ** 3)
        if f == 'linear':
            return 2.0 + self.clin @ u, self.clin / w, np.zeros((n, n))
        if f == 'linpos':      # increasing in every variable (material cost): pushes against 'rec' constraints
            cp = np.abs(self.clin) + 0.2
            return 2.0 + cp @ u, cp / w, np.zeros((n, n))
        if f == 'lin0':        # the same cost without offset: exactly 0.0 at the lower bounds (an objective that vanishes)
            cp = np.abs(self.clin) + 0.2
            return cp @ u, cp / w, np.zeros((n, n))
        kind, par = f
        if kind == 'vol':
            den = par * np.sum(self.wvol)
            return self.wvol @ u / den - 1.0, self.wvol / w / den, np.zeros((n, n))
        if kind == 'ball':
            d = u - self.cball
            den = n * par ** 2
            return d @ d / den - 1.0, 2 * d / w / den, np.diag(2.0 / w ** 2 / den)
        if kind == 'rec':
            c = self.crec3[par]
            den = 1.3 * np.sum(c / (self.lo + 0.8 * w))
            return np.sum(c / x) / den - 1.0, -c / x ** 2 / den, np.diag(2 * c / x ** 3 / den)
        raise KeyError(f)

    def values(self, x):
        return np.array([self.fun(i, x)[0] for i in range(self.m + 1)])

    def grads(self, x):
        return np.array([self.fun(i, x)[1] for i in range(self.m + 1)])


# ---------------------------------------------------------------------------------------- MMA approximations
def approx_value(Pi, Qi, low, upp, x):
    """sum_j p_ij/(U_j-x_j) + q_ij/(x_j-L_j) and the magnitude of its terms (for the ALG scale)."""
    t1, t2 = Pi / (upp - x), Qi / (x - low)
    return float(np.sum(t1) + np.sum(t2)), float(np.sum(np.abs(t1)) + np.sum(np.abs(t2)))


def approx_gradient(Pi, Qi, low, upp, x):
    t1, t2 = Pi / (upp - x) ** 2, Qi / (x - low) ** 2
    return t1 - t2, np.abs(t1) + np.abs(t2)


def subproblem_kkt(arg, ret):
    """Residuals of the KKT system of the MMA sub-problem defined by the arguments handed to the solver
    (low, upp, alfa, beta, P, Q, a0, a, b, c, d) at the candidate ret = (x, y, z, lam, xsi, eta, mu, zet, s).

    Lagrangian  L = f~_0(x) + a0 z + sum(c y + d y^2/2) + lam.(f~(x) - a z - y - b) - xsi.(x-alfa) - eta.(beta-x)
                    - mu.y - zet z
    Returns {component: max-abs residual}; 'sign' is the largest violation of a non-negativity requirement."""
    low, upp, alfa, beta = arg['low'], arg['upp'], arg['alfa'], arg['beta']
    P, Q, a0, a, b, c, d = arg['P'], arg['Q'], arg['a0'], arg['a'], arg['b'], arg['c'], arg['d']
    x, y, z, lam, xsi, eta, mu, zet, s = [np.asarray(r, float) for r in ret]
    m = len(a)
    ux, xl = upp - x, x - low
    dfdx = P / ux ** 2 - Q / xl ** 2                      # (m+1, n) gradients of all approximations
    gx = np.array([np.sum(P[i] / ux) + np.sum(Q[i] / xl) for i in range(1, m + 1)]) if m else np.zeros(0)
    out = {
        'stat_x': dfdx[0] + lam @ dfdx[1:] - xsi + eta,
        'stat_y': c + d * y - lam - mu,
        'stat_z': np.atleast_1d(a0 - a @ lam - zet),
        'primal': gx - a * z - y - b + s,
        'comp_xsi': xsi * (x - alfa),
        'comp_eta': eta * (beta - x),
        'comp_mu': mu * y,
        'comp_zet': np.atleast_1d(zet * z),
        'comp_lam': lam * s,
    }
    res = {k: (float(np.max(np.abs(v))) if np.all(np.isfinite(v)) else float('inf')) for k, v in out.items()}
    nonneg = np.concatenate([np.atleast_1d(q) for q in (y, z, lam, xsi, eta, mu, zet, s, x - alfa, beta - x)])
    res['sign'] = float(max(0.0, -np.min(nonneg))) if np.all(np.isfinite(nonneg)) else float('inf')
    return res


# ----------------------------------------------------------------------------------------- reference optimum
def _lagr(prob, x, lam):
    vals, grads, hess = [], [], []
    for i in range(prob.m + 1):
        v, g, H = prob.fun(i, x)
        vals.append(v), grads.append(g), hess.append(H)
    gL = grads[0] + sum(lam[i] * grads[i + 1] for i in range(prob.m))
    HL = hess[0] + sum(lam[i] * hess[i + 1] for i in range(prob.m))
    return np.array(vals), np.array(grads), gL, HL


def verify_kkt(prob, x, lam, btol=1e-12):
    """Max relative KKT residual of the original problem at (x, lam) with bound multipliers taken as the
    positive/negative part of the Lagrangian gradient at variables sitting on a bound."""
    vals, grads, gL, HL = _lagr(prob, x, lam)
    scale = max(1.0, float(np.max(np.abs(grads[0]))))
    at_lo = x <= prob.lo + btol * prob.w
    at_hi = x >= prob.hi - btol * prob.w
    r_stat = np.where(at_lo, np.maximum(-gL, 0), np.where(at_hi, np.maximum(gL, 0), np.abs(gL)))
    res = max(float(np.max(r_stat)) / scale,
              float(np.max(np.maximum(vals[1:], 0))),
              float(np.max(np.maximum(prob.lo - x, 0) / prob.w)), float(np.max(np.maximum(x - prob.hi, 0) / prob.w)),
              float(np.max(np.maximum(-lam, 0))) / scale,
              float(np.max(np.abs(lam * vals[1:]))) / scale)
    return res, dict(at_lo=at_lo, at_hi=at_hi, gL=gL, HL=HL, vals=vals, grads=grads, scale=scale)


def _polish(prob, x0, tol):
    """Active-set Newton from an approximate solution: variables within tol of a bound are fixed on it,
    constraints with g > -tol are treated as equalities."""
    x = np.clip(np.asarray(x0, float), prob.lo, prob.hi)
    at_lo = x - prob.lo < tol * prob.w
    at_hi = prob.hi - x < tol * prob.w
    x[at_lo], x[at_hi] = prob.lo[at_lo], prob.hi[at_hi]
    F = np.where(~(at_lo | at_hi))[0]
    vals = prob.values(x)
    A = [i for i in range(prob.m) if vals[i + 1] > -tol]
    lam = np.zeros(prob.m)
    if A:  # least-squares multiplier estimate on the free variables (all variables if none is free)
        _, grads, _, _ = _lagr(prob, x, lam)
        idx = F if len(F) else np.arange(prob.n)
        lam[A] = np.linalg.lstsq(grads[1:][A][:, idx].T, -grads[0][idx], rcond=None)[0]
    for _ in range(60):
        vals, grads, gL, HL = _lagr(prob, x, lam)
        R = np.concatenate([gL[F], vals[1:][A]])
        if R.size == 0 or np.max(np.abs(R)) < 1e-14 * max(1.0, np.max(np.abs(grads[0]))):
            break
        J = grads[1:][A][:, F] if A else np.zeros((0, len(F)))
        K = np.block([[HL[np.ix_(F, F)], J.T], [J, np.zeros((len(A), len(A)))]])
        step = np.linalg.lstsq(K, -R, rcond=None)[0]
        x[F] += step[:len(F)]
        lam[A] += step[len(F):]
        if not np.all(np.isfinite(x)):
            return None, None
    return x, lam


def reference_optimum(prob):
    """Returns dict(x, lam, kkt, unique, active_cons, active_bounds) or None if no candidate could be verified."""
    from scipy.optimize import minimize
    cons = [{'type': 'ineq', 'fun': (lambda x, i=i: -prob.fun(i, x)[0]), 'jac': (lambda x, i=i: -prob.fun(i, x)[1])}
            for i in range(1, prob.m + 1)]
    starts = [0.5 * (prob.lo + prob.hi), prob.lo + 0.25 * prob.w, prob.lo + 0.75 * prob.w]
    for x0 in starts:
        try:
            r = minimize(lambda x: prob.fun(0, x)[0], x0, jac=lambda x: prob.fun(0, x)[1], method='SLSQP',
                         bounds=list(zip(prob.lo, prob.hi)), constraints=cons,
                         options=dict(ftol=1e-15, maxiter=1000))
        except Exception:  # noqa
            continue
        for tol in (1e-6, 1e-5, 1e-7, 1e-4):
            x, lam = _polish(prob, r.x, tol)
            if x is None:
                continue
            res, info = verify_kkt(prob, x, lam)
            if res <= 1e-10:
                return _describe(prob, x, lam, res, info)
    return None


def _describe(prob, x, lam, res, info):
    at_b = info['at_lo'] | info['at_hi']
    F = np.where(~at_b)[0]
    act = [i for i in range(prob.m) if abs(info['vals'][i + 1]) <= 1e-9]
    sc = info['scale']
    strict = all(lam[i] > 1e-7 * sc for i in act) and bool(np.all(np.abs(info['gL'][at_b]) > 1e-7 * sc))
    # second-order sufficiency on the free variables, tangent to the active constraints
    unique = strict
    if unique and len(F):
        J = info['grads'][1:][act][:, F] if act else np.zeros((0, len(F)))
        if J.shape[0]:
            U, S, Vt = np.linalg.svd(J, full_matrices=True)
            rank = int(np.sum(S > 1e-10 * max(1.0, S.max())))
            Z = Vt[rank:].T
        else:
            Z = np.eye(len(F))
        if Z.shape[1]:
            Hr = Z.T @ info['HL'][np.ix_(F, F)] @ Z
            unique = bool(np.min(np.linalg.eigvalsh(0.5 * (Hr + Hr.T))) > 1e-8 * sc)
    # 'balanced': at every free variable the objective gradient is non-zero, i.e. it is held in place by the
    # opposing pull of an active constraint.  MMA approximations are (nearly) monotone in each variable, so a
    # free variable at which the objective alone is stationary is approached only up to the smallest asymptote
    # interval (2-cycle); Svanberg's convergence discussion covers the balanced situation only.
    balanced = bool(np.all(np.abs(info['grads'][0][F]) > 1e-6 * sc)) if len(F) else True
    return dict(x=x, lam=lam, kkt=res, unique=unique, balanced=balanced, active_cons=act,
                active_bounds=int(np.sum(at_b)), f=float(info['vals'][0]))
