import numpy as np, itertools, warnings, collections, time, scipy.sparse as sps
import pymoto as pym
from pymoto.solvers import *
warnings.simplefilter('ignore')
viol=collections.Counter(); ex={}
def V(k, info=None): viol[k]+=1; ex.setdefault(k, info)
PR=np.sqrt(np.array([2,3,5,7,11,13,17,19,23,29,31,37,41,43,47,53,59,61,67,71,73,79,83,89,97,101,103,107,109,113,127,131,137,139,149,151,157,163,167,173,179,181,191,193,197,199.]))
def tab(n,seed): 
    v=PR[(np.arange(n)*5+seed*11)%len(PR)]; return (v-np.floor(v))*2-1
def mats(n):
    R=tab(n*n,1).reshape(n,n); I=tab(n*n,2).reshape(n,n); C=R+1j*I
    out={}
    out['diag_r']=np.diag(1.5+tab(n,3)); out['diag_c']=np.diag(1.5+tab(n,3)+1j*tab(n,4))
    out['spd']=R@R.T+n*np.eye(n); out['hpd']=C@C.conj().T+n*np.eye(n)
    out['sym_indef']=R+R.T+np.diag(np.where(np.arange(n)%2==0,2.,-2.)); out['herm_indef']=C+C.conj().T+np.diag(np.where(np.arange(n)%2==0,2.,-2.))
    out['csym']=C+C.T+2*np.eye(n); out['gen_r']=R+n*np.eye(n)*0.8; out['gen_c']=C+n*np.eye(n)*0.8
    out['lower']=np.tril(R)+2*np.eye(n); out['upper_c']=np.triu(C)+2*np.eye(n)
    return out
def klass(name):
    return {'diag_r':'diag','diag_c':'diag','spd':'hpd','hpd':'hpd','sym_indef':'herm','herm_indef':'herm','csym':'csym','gen_r':'gen','gen_c':'gen','lower':'gen','upper_c':'gen'}[name]
solvers = {
 'Diagonal': (lambda: SolverDiagonal(), {'diag'}),
 'QR': (lambda: SolverDenseQR(), {'diag','hpd','herm','csym','gen'}),
 'LU': (lambda: SolverDenseLU(), {'diag','hpd','herm','csym','gen'}),
 'Chol': (lambda: SolverDenseCholesky(), {'hpd','herm'}),   # herm indef -> fallback path
 'LDL': (lambda: SolverDenseLDL(), {'hpd','herm','csym'}),
 'LDLh': (lambda: SolverDenseLDL(hermitian=True), {'hpd','herm'}),
 'SpLU': (lambda: SolverSparseLU(), {'diag','hpd','herm','csym','gen'}),
 'auto': (None, {'diag','hpd','herm','csym','gen'}),
 'auto_sp': (None, {'diag','hpd','herm','csym','gen'}),
}
nsolve=0; t0=time.time()
for n in [1,2,3,5,8]:
    M=mats(n)
    b1=tab(n,7); b2=tab(n,8)
    rhss={'vec':b1,'cvec':b1+1j*b2,'col':b1.reshape(n,1),'blk':np.stack([b1,b2,b1-b2],1),'cblk':np.stack([b1+1j*b2,b2],1),'zero':np.zeros(n),'blkz':np.stack([b1,np.zeros(n)],1)}
    for mn,A in M.items():
        if np.linalg.cond(A)>1e4: V(('illcond',mn)); continue
        for sn,(fac,classes) in solvers.items():
            if klass(mn) not in classes: continue
            sparse = sn in ('SpLU','auto_sp')
            Ain = sps.csc_matrix(A) if sparse else A
            for tr in 'NTH':
                for rn,b in rhss.items():
                    if sparse and not np.iscomplexobj(A) and np.iscomplexobj(b): continue
                    try:
                        s = fac() if fac else auto_determine_solver(Ain)
                        s.update(Ain.copy()); bb=b.copy(); x=s.solve(bb,trans=tr)
                    except Exception as e:
                        V(('EXC',sn,mn,type(e).__name__,str(e)[:50]),(n,tr,rn)); continue
                    nsolve+=1
                    Mx={'N':A,'T':A.T,'H':A.conj().T}[tr]
                    if not np.array_equal(bb,b): V(('rhs mutated',sn))
                    if x.shape!=b.shape: V(('shape',sn,rn),(x.shape,b.shape)); continue
                    nb=np.linalg.norm(b)
                    r=np.linalg.norm(Mx@x-b)/(nb if nb>0 else 1)
                    if not r<1e-9: V(('resid',sn,mn,tr,rn),(n,r,type(s).__name__))
                    if np.iscomplexobj(x)!=(np.iscomplexobj(A) or np.iscomplexobj(b)): V(('kind',sn,np.iscomplexobj(A),np.iscomplexobj(b)),(mn,rn,x.dtype))
print('solves',nsolve,time.time()-t0)
for k,v in viol.most_common(40): print(v,k,ex.get(k))
