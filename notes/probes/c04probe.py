from adj import *
from pymoto.solvers import CG, SOR
warnings.simplefilter('ignore')
S = pym.Signal
def snap(mod):
    out=[]
    for s in list(mod.sig_in)+list(mod.sig_out):
        st=s.state
        if sps.issparse(st): out.append(('sp',st.shape,st.toarray().copy()))
        elif isinstance(st,pym.DyadCarrier): out.append(('dy',st.shape,st.todense()))
        else: out.append((type(st).__name__, np.shape(st), np.array(st,copy=True)))
    return out
def same(a,b):
    return all(x[0]==y[0] and x[1]==y[1] and np.array_equal(x[2],y[2]) for x,y in zip(a,b))
def gsnap(mod):
    return [None if s.sensitivity is None else to_dense(s.sensitivity).copy() for s in mod.sig_in]
def c04(name, make):
    try:
        mod=make(); s0=snap(mod); mod.response()
    except Exception as e: print(f'[{name}] EXC response {type(e).__name__}'); return
    msgs=[]
    s1=snap(mod)
    nin=len(mod.sig_in)
    if not same(s0[:nin], s1[:nin]): msgs.append('response changed input state')
    seeds=[seeds_for(s.state)[-1] for s in mod.sig_out]
    seeds2=[seeds_for(s.state)[0] for s in mod.sig_out]
    def run(ws, times=1):
        mod.reset()
        for s,w in zip(mod.sig_out,ws): s.sensitivity = copy.deepcopy(w)
        before=snap(mod)
        for _ in range(times): mod.sensitivity()
        after=snap(mod)
        g=gsnap(mod)
        if not same(before,after): msgs.append('sensitivity changed a state')
        mod.reset()
        if not same(after,snap(mod)): msgs.append('reset changed a state')
        if any(s.sensitivity is not None and np.any(to_dense(s.sensitivity)!=0) for s in list(mod.sig_in)+list(mod.sig_out)): msgs.append('reset left sensitivity')
        return g
    try:
        g1=run(seeds); g2=run(seeds2); g12=run([2*a-3*b for a,b in zip(seeds,seeds2)]); gt=run(seeds,times=2); g1b=run(seeds)
    except Exception as e: print(f'[{name}] EXC {type(e).__name__} {str(e)[:100]}'); return
    def close(a,b):
        if a is None and b is None: return True
        if a is None: a=np.zeros_like(b)
        if b is None: b=np.zeros_like(a)
        return np.allclose(a,b,rtol=1e-9,atol=1e-12*max(1,np.abs(b).max()))
    for i in range(nin):
        z1 = 0 if g1[i] is None else g1[i]; z2 = 0 if g2[i] is None else g2[i]
        if not close(g12[i], 2*z1-3*z2 if not (g1[i] is None and g2[i] is None) else None): msgs.append(f'nonlinear in seed (input {i})')
        if not close(gt[i], None if g1[i] is None else 2*g1[i]): msgs.append(f'twice != 2x (input {i})')
        if not close(g1b[i], g1[i]): msgs.append(f'repeat differs (input {i})')
    print(f'[{name}]', 'OK' if not msgs else sorted(set(msgs)))
dom2 = pym.DomainDefinition(2,2, unitx=0.5, unity=1.5); dom3=pym.DomainDefinition(2,2,2)
def xel(dom): return 0.3+0.1*np.arange(dom.nel)
def unod(dom, ndof): return np.sin(1.0+np.arange(dom.nnodes*ndof)*0.7)
bc=np.array([0,1,2])
for dn,dom in [('2d',dom2),('3d',dom3)]:
    c04(f'AssembleStiffness {dn}', lambda: pym.AssembleStiffness(S('x',xel(dom)), domain=dom, bc=bc))
    c04(f'AssembleMass {dn}', lambda: pym.AssembleMass(S('x',xel(dom)), domain=dom, bc=bc))
    c04(f'Strain {dn}', lambda: pym.Strain(S('u',unod(dom,dom.dim)), domain=dom))
    c04(f'ElementOperation nodal {dn}', lambda: pym.ElementOperation(S('u',unod(dom,2)), domain=dom, element_matrix=np.cos(np.arange(3*dom.elemnodes)).reshape(3,-1)))
    c04(f'NodalOperation {dn}', lambda: pym.NodalOperation(S('x',xel(dom)), domain=dom, element_matrix=np.cos(np.arange(2*dom.elemnodes))))
    c04(f'DensityFilter {dn}', lambda: pym.DensityFilter(S('x',xel(dom)), domain=dom, radius=1.6))
    c04(f'FilterConv {dn}', lambda: pym.FilterConv(S('x',xel(dom)), domain=dom, radius=1.6, xmin_bc=0.3, ymax_bc='wrap'))
    c04(f'Overhang {dn}', lambda: pym.OverhangFilter(S('x',np.clip(xel(dom),0,1)), domain=dom))
v = np.array([0.7,-1.2,0.4]); vc = np.array([0.7+0.2j,-1.2-0.5j,0.4+1.1j])
A = np.array([[1.,2,0.5],[0.3,-1,2],[1.5,0.2,0.9]]); Ac = A + 1j*np.array([[0.2,0,1],[1,0.5,-0.3],[0.1,0.7,0]])
c04('MakeComplex', lambda: pym.MakeComplex([S('x',v.copy()),S('y',v[::-1].copy())]))
c04('ComplexNorm', lambda: pym.ComplexNorm(S('z',vc.copy())))
c04('EinSum ij,j->i', lambda: pym.EinSum([S('A',Ac.copy()),S('v',v.copy())], expression='ij,j->i'))
c04('EinSum trace', lambda: pym.EinSum([S('A',A.copy())], expression='ii->'))
c04('Concat', lambda: pym.ConcatSignal([S('a',v.copy()),S('c',np.array([1.,2.]))]))
c04('Inverse', lambda: pym.Inverse(S('A',Ac.copy())))
c04('LinSolve dense', lambda: pym.LinSolve([S('A',A.copy()+3*np.eye(3)),S('b',v.copy())]))
c04('LinSolve dense blk cplx', lambda: pym.LinSolve([S('A',Ac.copy()+3*np.eye(3)),S('b',np.stack([v,vc],1))]))
Ks=sps.csc_matrix(A@A.T+3*np.eye(3))
c04('LinSolve sparse', lambda: pym.LinSolve([S('A',Ks.copy()),S('b',v.copy())]))
c04('LinSolve sparse CG', lambda: pym.LinSolve([S('A',Ks.copy()),S('b',v.copy())], solver=CG(preconditioner=SOR(),tol=1e-13)))
c04('SoE', lambda: pym.SystemOfEquations([S('A',Ks.copy()),S('bf',v[:2].copy()),S('xp',v[2:].copy())], free=np.array([0,2]), prescribed=np.array([1])))
c04('StaticCond', lambda: pym.StaticCondensation([S('A',Ks.copy())], main=np.array([0]), free=np.array([1,2])))
c04('Eig dense', lambda: pym.EigenSolve([S('A',A+A.T)]))
c04('Eig dense gen', lambda: pym.EigenSolve([S('A',A+A.T), S('B',A@A.T+3*np.eye(3))]))
c04('PNorm', lambda: pym.PNorm(S('x',np.abs(v)+0.1), p=4))
c04('KS act', lambda: pym.KSFunction(S('x',np.array([0.5,1.5,0.9,2.2,3.0,0.1])), rho=2.0, active_set=pym.AggActiveSet(lower_amt=0.25, upper_rel=0.9), scaling=pym.AggScaling('max',1.0)))
c04('Scaling', lambda: pym.Scaling(S('x',2.5), scaling=10.0))
