import numpy as np, base64, struct, os, glob, shutil, xml.etree.ElementTree as ET, warnings, collections, itertools
import pymoto as pym
warnings.simplefilter('ignore')
viol=collections.Counter(); ex={}
def V(k, info=None): viol[k]+=1; ex.setdefault(k, info)
def decode(path):
    root = ET.parse(path).getroot()
    assert root.tag=='VTKFile' and root.get('type')=='ImageData'
    img = root.find('ImageData'); piece = img.find('Piece')
    out = {'extent': img.get('WholeExtent'), 'origin': img.get('Origin'), 'spacing': img.get('Spacing'), 'piece': piece.get('Extent'), 'arrays': {}}
    for kind in ['PointData','CellData']:
        sec = piece.find(kind)
        if sec is None: continue
        for da in sec.findall('DataArray'):
            txt = da.text.strip()
            hdr = base64.b64decode(txt[:12]); n = struct.unpack('<Q', hdr)[0]
            data = np.frombuffer(base64.b64decode(txt[12:]), dtype='<f4')
            out['arrays'][da.get('Name')] = (kind, int(da.get('NumberOfComponents')), n, data, da.get('type'), da.get('format'))
    return out
tmp='/tmp/explore/out2'; shutil.rmtree(tmp, ignore_errors=True); os.makedirs(tmp)
ncase=0
for (nx,ny,nz) in [(2,3,0),(3,2,0),(4,3,0),(2,2,2),(3,2,2),(1,2,0)]:
    dom = pym.DomainDefinition(nx,ny,nz, unitx=0.5, unity=2.0, unitz=1.5)
    nel,nn=dom.nel,dom.nnodes
    if nel % nn==0 or nn % nel==0: print('skip grid',nx,ny,nz); continue
    def val(n): return (np.arange(n)*1.1+0.123456789)
    cases={}
    cases['cell1']=('CellData',1,val(nel)); cases['cell3']=('CellData',3,val(3*nel))
    for c in (1,2,3):
        if (c*nn)%nel!=0: cases[f'pt{c}']=('PointData',c,val(c*nn))
    for name,(kind,c,v) in list(cases.items()):
        for ncol in (3,11):
            cases[f'{name}_blk{ncol}']=(kind,c,np.stack([v*(k+1) for k in range(ncol)],axis=1))
            cases[f'{name}_blkT{ncol}']=(kind,c,np.stack([v*(k+1) for k in range(ncol)],axis=0))
    for scale in (1.0,2.5):
      for overwrite in (True,False):
        for niter in (1,3):
          for name,(kind,c,v) in cases.items():
            d=os.path.join(tmp,f'c{ncase}'); os.makedirs(d); ncase+=1
            sig=pym.Signal(name,v.copy())
            try:
                m=pym.WriteToVTI([sig],domain=dom,saveto=os.path.join(d,'out.vti'),overwrite=overwrite,scale=scale)
                for it in range(niter):
                    sig.state=v*(it+1); m.response()
            except Exception as e:
                V(('EXC',name.split('_')[0],type(e).__name__,str(e)[:60]),(nx,ny,nz,v.shape)); continue
            files=sorted(os.listdir(d))
            expfiles=['out.vti'] if overwrite else [f'out.{i:04d}.vti' for i in range(niter)]
            if files!=expfiles: V(('files',overwrite,niter),(files,expfiles)); continue
            for fi,fn in enumerate(files):
                it = niter-1 if overwrite else fi
                try: dec=decode(os.path.join(d,fn))
                except Exception as e: V(('decode',type(e).__name__,str(e)[:50])); continue
                if dec['extent']!=f'0 {nx} 0 {ny} 0 {nz}' or dec['piece']!=dec['extent']: V(('extent',))
                sp=np.array(dec['spacing'].split(),dtype=float)
                if not np.allclose(sp,np.array([0.5,2.0,1.5])*scale): V(('spacing',))
                vv=v*(it+1)
                if vv.ndim==1: cols={name:vv}
                else:
                    ax = 0 if vv.shape[0]%(nel if kind=='CellData' else nn)==0 else 1
                    ncol=vv.shape[1-ax]
                    cols={}
                    for k in range(ncol):
                        col = vv[:,k] if ax==0 else vv[k,:]
                        # name format unknown: find by order
                        cols[k]=col
                arrs=dec['arrays']
                if len(arrs)!=len(cols): V(('narrays',name.split('_')[0]),(len(arrs),len(cols))); continue
                for (an,(akind,ac,ahdr,adata,atype,afmt)),(ck,col) in zip(arrs.items(),cols.items()):
                    if akind!=kind: V(('section',name.split('_')[0]),(nx,ny,nz,akind,kind))
                    pad = (kind=='PointData' and c==2 and dom.dim==2)
                    expc = 3 if pad else c
                    if ac!=expc: V(('ncomp',name.split('_')[0]),(ac,expc))
                    e32=col.astype(np.float32)
                    if pad:
                        p=np.zeros(3*nn,np.float32); p[0::3]=e32[0::2]; p[1::3]=e32[1::2]; e32=p
                    if adata.shape!=e32.shape or not np.array_equal(adata,e32): V(('payload',name.split('_')[0]),(nx,ny,nz,adata.shape,e32.shape))
                    if ahdr < 4*e32.size: V(('hdr too small',))
            shutil.rmtree(d)
print('vti cases',ncase)
# ScalarToFile
nlog=0
for fmt in ['.10e','.3f','.5g','e']:
  for sep,fn in [('\t','log.txt'),(';','log.txt'),('\t','log.csv')]:
    for niter in (1,3):
        d=os.path.join(tmp,f'l{nlog}'); os.makedirs(d); nlog+=1
        s1=pym.Signal('f',1.5); s2=pym.Signal('g',np.float64(2.5)); s3=pym.Signal('v',np.array([1.,2.,3.])); s4=pym.Signal('m',np.arange(4.).reshape(2,2))
        try:
            m=pym.ScalarToFile([s1,s2,s3,s4],saveto=os.path.join(d,fn),fmt=fmt,separator=sep)
            vals=[]
            for it in range(niter):
                s1.state=1.5*(it+1)+0.123456789; s2.state=np.float64(-2.5e-3*(it+1)); s3.state=np.array([1.,2.,3.])*(it+1)/7; s4.state=np.arange(4.).reshape(2,2)/(it+3)
                m.response(); vals.append([s1.state,s2.state,*s3.state,*s4.state.ravel()])
        except Exception as e: V(('log EXC',type(e).__name__,str(e)[:60])); continue
        lines=open(os.path.join(d,fn)).read().split('\n')
        usep=',' if fn.endswith('.csv') else sep
        if lines[-1]!='' or len(lines)!=niter+2: V(('log lines',),(len(lines),niter)); continue
        hdr=lines[0].split(usep)
        for it in range(niter):
            row=lines[1+it].split(usep)
            if int(row[0])!=it: V(('log iter',))
            exp=[format(float(v),fmt) for v in vals[it]]
            if row[1:]!=exp: V(('log values',fmt),(row[1:],exp))
            if len(hdr)!=len(row): V(('log header cols',fn.endswith('.csv')),(hdr,))
print('log cases',nlog)
for k,v in viol.most_common(20): print(v,k,ex.get(k))
shutil.rmtree(tmp, ignore_errors=True)
