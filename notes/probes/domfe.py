import numpy as np, itertools, warnings, time, scipy.sparse as sps
import pymoto as pym
warnings.simplefilter('ignore')
LOCAL = [(-1,-1,-1),(1,-1,-1),(-1,1,-1),(1,1,-1),(-1,-1,1),(1,-1,1),(-1,1,1),(1,1,1)]
bad=[]
def chk(c, msg):
    if not c: bad.append(msg)
t0=time.time(); ngrid=0
grids = [(a,b,0) for a in range(1,7) for b in range(1,7)] + [(a,b,c) for a in range(1,5) for b in range(1,5) for c in range(1,5)]
for (nx,ny,nz) in grids:
  for size in [(1.,1.,1.),(0.5,2.5,1.5)]:
    dom = pym.DomainDefinition(nx,ny,nz,*size); ngrid+=1
    dim = 2 if nz==0 else 3
    chk(dom.dim==dim, 'dim'); chk(dom.nel==nx*ny*max(nz,1),'nel'); chk(dom.nnodes==(nx+1)*(ny+1)*(nz+1),'nnodes')
    # element numbering bijection
    I,J,K = np.meshgrid(np.arange(nx),np.arange(ny),np.arange(max(nz,1)),indexing='ij')
    el = dom.get_elemnumber(I,J,K)
    chk(sorted(el.ravel().tolist())==list(range(dom.nel)), f'elem bijection {nx,ny,nz}')
    chk(np.array_equal(dom.elements, el), 'elements table')
    NI,NJ,NK = np.meshgrid(np.arange(nx+1),np.arange(ny+1),np.arange(nz+1),indexing='ij')
    nd = dom.get_nodenumber(NI,NJ,NK)
    chk(sorted(nd.ravel().tolist())==list(range(dom.nnodes)), f'node bijection {nx,ny,nz}')
    chk(np.array_equal(dom.nodes, nd), 'nodes table')
    ijk = dom.get_node_indices(nd.ravel())
    chk(np.array_equal(ijk[0], NI.ravel()) and np.array_equal(ijk[1], NJ.ravel()) and (dim==2 or np.array_equal(ijk[2], NK.ravel())), f'node_indices inverse {nx,ny,nz}')
    pos = dom.get_node_position(nd.ravel())
    chk(np.allclose(pos[0], NI.ravel()*size[0]) and np.allclose(pos[1], NJ.ravel()*size[1]) and (dim==2 or np.allclose(pos[2], NK.ravel()*size[2])), 'positions')
    # connectivity
    for i,j,k in itertools.product(range(nx),range(ny),range(max(nz,1))):
        e = dom.get_elemnumber(i,j,k)
        exp = [dom.get_nodenumber(i+(l[0]+1)//2, j+(l[1]+1)//2, k+((l[2]+1)//2 if dim==3 else 0)) for l in LOCAL[:2**dim]]
        if not np.array_equal(dom.conn[e], exp): bad.append(f'conn {nx,ny,nz} el {i,j,k}'); break
        # independent node number formula
        exp2 = [ (k+((l[2]+1)//2 if dim==3 else 0))*(ny+1)*(nx+1) + (j+(l[1]+1)//2)*(nx+1) + i+(l[0]+1)//2 for l in LOCAL[:2**dim]]
        if exp != exp2: bad.append('nodenumber formula'); break
    for ndof in (1,2,3):
        dc = dom.get_dofconnectivity(ndof)
        exp = (dom.conn[:,:,None]*ndof + np.arange(ndof)[None,None,:]).reshape(dom.nel,-1)
        chk(np.array_equal(dc, exp), 'dofconn')
    # shape functions
    h = np.array(size)
    pts = list(itertools.product(*[np.linspace(-h[d]/2, h[d]/2, 5) for d in range(dim)]))
    for p in pts:
        p3 = np.array(list(p)+[0.0]*(3-dim))
        N = dom.eval_shape_fun(p3)
        Nref = np.array([np.prod([(0.5 + l[d]*p[d]/h[d]) for d in range(dim)]) for l in LOCAL[:2**dim]])
        chk(np.allclose(N,Nref,atol=1e-13), f'shape value'); chk(abs(N.sum()-1)<1e-13,'partition'); chk(N.min()>=-1e-15,'nonneg')
        dN = dom.eval_shape_fun_der(p3)
        dref = np.array([[ l[d]/h[d]*np.prod([(0.5 + l[q]*p[q]/h[q]) for q in range(dim) if q!=d]) for l in LOCAL[:2**dim]] for d in range(dim)])
        chk(np.allclose(dN, dref, atol=1e-13), 'shape der')
print('grids', ngrid, 'time', time.time()-t0, 'bad', len(bad), bad[:5])
