import numpy as np, warnings
import pymoto as pym
warnings.simplefilter('ignore')
S = np.array([[4.,1,0.5],[1,3,0.2],[0.5,0.2,5]]); N = np.array([[4.,1,0.5],[-0.7,3,0.2],[0.1,0.9,5]]); C = N + 1j*np.array([[0,0.3,0],[0.2,0,0.1],[0,0.5,0.4]])
b = np.array([1.,2.,-1.])
for first, second, nm in [(S,N,'spd->nonsym'),(N,S,'nonsym->spd'),(S,C,'real spd->complex gen'),(S,-S,'spd->neg def'),(S, S+np.diag([0,0,-20.]),'spd->indef')]:
    sA=pym.Signal('A',first.copy()); sb=pym.Signal('b',b.copy())
    m=pym.LinSolve([sA,sb]); m.response()
    sA.state=second.copy()
    try:
        m.response(); x=m.sig_out[0].state
        print(nm, 'resid', np.linalg.norm(second@x-b), type(m.solver.solver).__name__, m.ishermitian)
    except Exception as e: print(nm,'EXC',type(e).__name__,str(e)[:80])
