import numpy as np, warnings, time, itertools, collections
import pymoto as pym
import pymoto.common.mma as mmamod
warnings.simplefilter('ignore')
class Prob(pym.Module):
    """responses: f0 = 0.5 (x-t)^T H (x-t) ; g1 = sum(w x)/V - 1 ; optional g2 = |x-c|^2/r^2 - 1"""
    def _prepare(self, H, t, w, V, ball=None): self.H,self.t,self.w,self.V,self.ball = H,t,w,V,ball
    def cat(self, xs): return np.concatenate([np.atleast_1d(np.asarray(v,dtype=float)) for v in xs])
    def _response(self, *xs):
        x = self.cat(xs); self.x=x
        out = [0.5*(x-self.t)@self.H@(x-self.t), self.w@x/self.V - 1]
        if self.ball is not None:
            c,r = self.ball; out.append(np.sum((x-c)**2)/r**2 - 1)
        return out
    def _sensitivity(self, *dfs):
        x=self.x; g=np.zeros_like(x)
        if dfs[0] is not None: g += dfs[0]*(self.H@(x-self.t))
        if dfs[1] is not None: g += dfs[1]*self.w/self.V
        if self.ball is not None and dfs[2] is not None:
            c,r=self.ball; g += dfs[2]*2*(x-c)/r**2
        out=[]; k=0
        for s in self.sig_in:
            n=np.size(s.state); v=g[k:k+n]; k+=n
            out.append(v.copy() if np.ndim(s.state)>0 else v[0])
        return out
def kkt_res(x,y,z,lam,xsi,eta,mu,zet,s, low,upp,alfa,beta,P,Q,a0,a,b,c,d):
    ux=upp-x; xl=x-low
    plam=P[0]+lam@P[1:]; qlam=Q[0]+lam@Q[1:]
    g = P[1:]@(1/ux)+Q[1:]@(1/xl)
    r = [plam/ux**2-qlam/xl**2-xsi+eta, c+d*y-mu-lam, [a0-zet-a@lam], g-a*z-y+s-b, xsi*(x-alfa), eta*(beta-x), mu*y, [zet*z], lam*s]
    return np.max(np.abs(np.concatenate([np.atleast_1d(q) for q in r])))
rec=[]
orig=mmamod.subsolv
def spy(epsimin, low, upp, alfa, beta, P, Q, a0, a, b, c, d, x0=None):
    ret = orig(epsimin, low.copy(), upp.copy(), alfa.copy(), beta.copy(), P.copy(), Q.copy(), a0, a.copy(), b.copy(), c.copy(), d.copy(), x0=None if x0 is None else x0.copy())
    rec.append(dict(epsimin=epsimin, low=low.copy(), upp=upp.copy(), alfa=alfa.copy(), beta=beta.copy(), P=P.copy(), Q=Q.copy(), a0=a0,a=a.copy(),b=b.copy(),c=c.copy(),d=d.copy(),x0=x0.copy(), ret=[np.copy(r) for r in ret]))
    return ret
mmamod.subsolv=spy
viol=collections.Counter(); nrun=0; nit=0; t0=time.time(); conv=[]
for n in [1,2,3,5]:
  for split in ['one','arr+scalar','scalars']:
    if split=='arr+scalar' and n<2: continue
    for ver in ['Svanberg1987','Svanberg2007']:
      for move in [0.1, 0.5, 'persig','pervar']:
        for x0v in [0.2,0.5,0.9]:
          for useball in [False,True]:
            t = np.array([0.9,0.1,0.7,0.2,0.6])[:n]; H = np.diag(np.array([1.,2.,3.,4.,2.5])[:n]);
            if n>1: H = H + 0.3*(np.ones((n,n))-np.eye(n))
            w = np.ones(n); V = 0.45*n
            ball = (np.full(n,0.5), 0.45*np.sqrt(n)) if useball else None
            x0 = np.full(n,x0v)
            if split=='one': sigs=[pym.Signal('x',x0.copy())]
            elif split=='arr+scalar': sigs=[pym.Signal('xa',x0[:-1].copy()), pym.Signal('xs',float(x0[-1]))]
            else: sigs=[pym.Signal(f'x{i}',float(x0[i])) for i in range(n)]
            m = Prob(sigs, [pym.Signal('f'),pym.Signal('g1')]+([pym.Signal('g2')] if useball else []), H,t,w,V,ball)
            xmin, xmax = 0.0, 1.0
            if move=='persig': mv = np.linspace(0.1,0.3,len(sigs))
            elif move=='pervar': mv = np.linspace(0.1,0.3,n)
            else: mv = move
            mv_full = np.concatenate([np.full(np.size(s.state), (mv[i] if move=='persig' else 0)) for i,s in enumerate(sigs)]) if move=='persig' else (mv if move=='pervar' else np.full(n,mv))
            rec.clear(); xs_seen=[]
            cb = lambda: xs_seen.append(np.concatenate([np.atleast_1d(s.state) for s in sigs]).copy())
            try:
                pym.minimize_mma(pym.Network(m), sigs, m.sig_out, verbosity=0, maxit=80, move=mv if not isinstance(mv,np.ndarray) else mv.copy(), xmin=xmin, xmax=xmax, mmaversion=ver, fn_callback=cb, tolx=1e-7)
            except Exception as e:
                viol[('EXC',type(e).__name__,str(e)[:60], split, move)]+=1; continue
            nrun+=1
            for k,r in enumerate(rec):
                nit+=1
                xk = r['x0']; xn = r['ret'][0]
                if np.any(xn<xmin-1e-12) or np.any(xn>xmax+1e-12): viol['bounds']+=1
                if np.any(np.abs(xn-xk) > mv_full*(xmax-xmin)+1e-12): viol['move']+=1
                if not (np.all(r['low']<r['alfa']) and np.all(r['alfa']<=r['beta']+1e-15) and np.all(r['beta']<r['upp'])): viol['asym']+=1
                if np.any(xn<r['alfa']-1e-12) or np.any(xn>r['beta']+1e-12): viol['inalfabeta']+=1
                # approx value and gradient at xk
                ux=r['upp']-xk; xl=xk-r['low']
                gval = r['P'][1:]@(1/ux)+r['Q'][1:]@(1/xl)-r['b']
                # true g at xk
                m_x = xk
                gtrue=[w@m_x/V-1]+([np.sum((m_x-ball[0])**2)/ball[1]**2-1] if useball else [])
                if not np.allclose(gval,gtrue,atol=1e-9): viol['approx value']+=1
                grad = r['P']/ux**2 - r['Q']/xl**2
                gradtrue=[H@(m_x-t), w/V]+([2*(m_x-ball[0])/ball[1]**2] if useball else [])
                if not np.allclose(grad, np.array(gradtrue), atol=1e-8): viol['approx grad']+=1
                kr = kkt_res(*[np.asarray(q,dtype=float) for q in r['ret']], r['low'],r['upp'],r['alfa'],r['beta'],r['P'],r['Q'],r['a0'],r['a'],r['b'],r['c'],r['d'])
                if kr > 10*r['epsimin']: viol[('kkt',float(f'{kr:.1e}'))]+=1
                if k+1 < len(xs_seen) and not np.array_equal(xs_seen[k+1], xn): viol['writeback']+=1
            # convergence: compare to reference optimum via scipy
            from scipy.optimize import minimize
            cons=[{'type':'ineq','fun':lambda x: 1-w@x/V}]+([{'type':'ineq','fun':lambda x: 1-np.sum((x-ball[0])**2)/ball[1]**2}] if useball else [])
            ref = minimize(lambda x: 0.5*(x-t)@H@(x-t), x0, jac=lambda x:H@(x-t), bounds=[(0,1)]*n, constraints=cons, method='SLSQP', options=dict(ftol=1e-14,maxiter=500))
            xf = np.concatenate([np.atleast_1d(s.state) for s in sigs])
            conv.append((np.max(np.abs(xf-ref.x)), len(rec), n, split, ver, move, x0v, useball, max(m.sig_out[1].state, m.sig_out[-1].state)))
print('runs',nrun,'iterations',nit,'time',time.time()-t0)
print(viol.most_common(20))
conv.sort(key=lambda c:-c[0]); print('worst convergence', conv[:5]); print('max constraint', max(c[-1] for c in conv))
