import numpy as np, itertools, warnings, time, scipy.sparse as sps
import pymoto as pym
warnings.simplefilter('ignore')
bad=[]
def chk(c, msg):
    if not c: bad.append(msg)
LOCAL = [(-1,-1,-1),(1,-1,-1),(-1,1,-1),(1,1,-1),(-1,-1,1),(1,-1,1),(-1,1,1),(1,1,1)]
def hooke(E,nu,mode):
    if mode=='3d':
        lam=E*nu/((1+nu)*(1-2*nu)); mu=E/(2*(1+nu)); D=np.zeros((6,6)); D[:3,:3]=lam; D[np.arange(3),np.arange(3)]+=2*mu; D[np.arange(3,6),np.arange(3,6)]=mu; return D
    if mode=='stress': return E/(1-nu**2)*np.array([[1,nu,0],[nu,1,0],[0,0,(1-nu)/2]])
    lam=E*nu/((1+nu)*(1-2*nu)); mu=E/(2*(1+nu)); return np.array([[2*mu+lam,lam,0],[lam,2*mu+lam,0],[0,0,mu]])
def Bref(dim,h,p):
    nn=2**dim
    dN = np.array([[ l[d]/h[d]*np.prod([(0.5 + l[q]*p[q]/h[q]) for q in range(dim) if q!=d]) for l in LOCAL[:nn]] for d in range(dim)])
    ns = 3 if dim==2 else 6
    B=np.zeros((ns,nn*dim))
    for a in range(nn):
        if dim==2:
            B[0,2*a]=dN[0,a]; B[1,2*a+1]=dN[1,a]; B[2,2*a]=dN[1,a]; B[2,2*a+1]=dN[0,a]
        else:
            B[0,3*a]=dN[0,a]; B[1,3*a+1]=dN[1,a]; B[2,3*a+2]=dN[2,a]
            B[3,3*a+1]=dN[2,a]; B[3,3*a+2]=dN[1,a]   # yz
            B[4,3*a]=dN[2,a]; B[4,3*a+2]=dN[0,a]     # zx
            B[5,3*a]=dN[1,a]; B[5,3*a+1]=dN[0,a]     # xy
    return B
def gauss(dim,h,n=3):
    xs,ws=np.polynomial.legendre.leggauss(n)
    for idx in itertools.product(range(n),repeat=dim):
        yield np.array([xs[i]*h[d]/2 for d,i in enumerate(idx)]), np.prod([ws[i]*h[d]/2 for d,i in enumerate(idx)])
def Ke_ref(dim,h,E,nu,plane):
    D = hooke(E,nu,'3d' if dim==3 else plane)
    t = 1.0 if dim==3 else h[2]
    K=0
    for p,w in gauss(dim,h): B=Bref(dim,h,p); K = K + w*t*B.T@D@B
    return K
t0=time.time(); n=0
for (nx,ny,nz) in [(1,1,0),(2,1,0),(2,3,0),(3,2,0),(1,1,1),(2,1,2),(2,2,2)]:
  for size in [(1.,1.,1.),(0.5,2.0,1.5)]:
    dom = pym.DomainDefinition(nx,ny,nz,*size); dim=dom.dim; h=np.array(size)
    x = 0.2+0.1*np.arange(dom.nel)
    for (E,nu,plane) in [(1.0,0.3,'strain'),(2.5,0.0,'stress'),(2.5,0.45,'stress'),(1.0,0.45,'strain')]:
        mK = pym.AssembleStiffness(pym.Signal('x',x), domain=dom, e_modulus=E, poisson_ratio=nu, plane=plane); mK.response()
        K = mK.sig_out[0].state.toarray(); n+=1
        chk(np.allclose(mK.stiffness_element, Ke_ref(dim,h,E,nu,plane), atol=1e-10), f'Ke {nx,ny,nz,size,E,nu,plane}')
        chk(np.allclose(K,K.T,atol=1e-12),'K sym'); chk(np.linalg.eigvalsh(K).min()>-1e-10,'K psd')
        pos = dom.get_node_position()
        # rigid body modes
        nd = dom.nnodes
        modes=[]
        for d in range(dim):
            r=np.zeros(nd*dim); r[d::dim]=1; modes.append(r)
        if dim==2:
            r=np.zeros(nd*2); r[0::2]=-pos[1]; r[1::2]=pos[0]; modes.append(r)
        else:
            for (a,b) in [(0,1),(1,2),(2,0)]:
                r=np.zeros(nd*3); r[a::3]=-pos[b]; r[b::3]=pos[a]; modes.append(r)
        for r in modes: chk(np.abs(K@r).max()<1e-10*max(1,np.abs(K).max()), f'rigid {nx,ny,nz}')
        # scatter identity
        Kd=np.zeros_like(K); dc=dom.get_dofconnectivity(dim)
        for e in range(dom.nel): Kd[np.ix_(dc[e],dc[e])]+=x[e]*mK.stiffness_element
        chk(np.allclose(K,Kd,atol=1e-12),'scatter')
        # C12: affine fields
        if plane and (dim==3 or size[2]==1.0):
            G = np.array([[0.1,0.25,-0.05],[0.07,-0.2,0.3],[0.02,0.11,0.15]])[:dim,:dim]
            u = (G@pos).T.ravel() + 0.0
            ms = pym.Strain(pym.Signal('u',u), domain=dom); ms.response(); eps=ms.sig_out[0].state
            mt = pym.Stress(pym.Signal('u',u), domain=dom, e_modulus=E, poisson_ratio=nu, plane=plane); mt.response(); sig=mt.sig_out[0].state
            if dim==2: eref=np.array([G[0,0],G[1,1],G[0,1]+G[1,0]])
            else: eref=np.array([G[0,0],G[1,1],G[2,2],G[1,2]+G[2,1],G[0,2]+G[2,0],G[0,1]+G[1,0]])
            ratio = eps[:,0]/eref
            if not np.allclose(eps, eref[:,None], atol=1e-12): bad.append(f'strain ratio {np.round(ratio,6).tolist()}')
            V = np.prod(h[:dim])*(1.0 if dim==3 else h[2])
            en = np.sum(x*V*np.sum(sig*eps,axis=0)); uKu = u@K@u
            # energy with corrected shear
            c = np.ones(len(eref)); c[dim:] = 0.5
            en_fix = np.sum(x*V*np.sum((sig*c[:,None])*(eps*c[:,None]),axis=0))
            if not np.isclose(en, uKu, rtol=1e-9): bad.append(f'energy ratio {en/uKu:.4f} fixedshear {en_fix/uKu:.6f}')
    # mass
    for nd_ in (1,dim):
        mM = pym.AssembleMass(pym.Signal('x',x), domain=dom, material_property=2.0, ndof=nd_); mM.response(); M=mM.sig_out[0].state.toarray()
        Vel = np.prod(h) if dim==2 else np.prod(h)
        for d in range(nd_):
            r=np.zeros(dom.nnodes*nd_); r[d::nd_]=1
            chk(np.isclose(r@M@r, 2.0*Vel*x.sum(), rtol=1e-12), f'mass total {nx,ny,nz,size} {r@M@r} vs {2.0*Vel*x.sum()}')
    mP = pym.AssemblePoisson(pym.Signal('x',x), domain=dom, material_property=1.7); mP.response(); P=mP.sig_out[0].state.toarray()
    chk(np.abs(P@np.ones(dom.nnodes)).max()<1e-12,'poisson const')
    pos = dom.get_node_position(); g=np.array([0.3,-0.2,0.5])[:dim]; uu=g@pos
    Vel = np.prod(h[:dim])*(1 if dim==3 else h[2])
    chk(np.isclose(uu@P@uu, 1.7*(g@g)*Vel*x.sum(), rtol=1e-12), f'poisson energy {uu@P@uu} {1.7*(g@g)*Vel*x.sum()}')
    # ElementAverage
    lin = 0.4 + g@pos
    ma = pym.ElementAverage(pym.Signal('v',lin), domain=dom); ma.response()
    cent = np.array([0.4 + g@pos[:,dom.conn[e]].mean(axis=1) for e in range(dom.nel)])
    chk(np.allclose(ma.sig_out[0].state, cent),'elavg')
    # Thermo
    for plane in ['stress','strain']:
        E,nu,al=2.0,0.3,0.01
        mt = pym.ThermoMechanical(pym.Signal('x',x), domain=dom, e_modulus=E, poisson_ratio=nu, alpha=al, plane=plane); mt.response(); f=mt.sig_out[0].state
        for d in range(dim): chk(abs(f[d::dim].sum())<1e-12,'thermo equil')
        mK = pym.AssembleStiffness(pym.Signal('x',x), domain=dom, e_modulus=E, poisson_ratio=nu, plane=plane); mK.response(); K=mK.sig_out[0].state
        ufree = (al*pos).T.ravel()
        if dim==3 or plane=='stress':
            if not np.allclose(K@ufree, f, atol=1e-10): bad.append(f'thermo K u_free {nx,ny,nz,size,plane} ratio {np.linalg.norm(f)/np.linalg.norm(K@ufree):.4f}')
import collections
print('configs', n, 'time', time.time()-t0); 
for k,v in collections.Counter(bad).most_common(20): print(v,k)
