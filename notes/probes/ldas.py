import numpy as np, itertools, warnings, collections, sys
import pymoto as pym
from pymoto.solvers import LDAWrapper, LinearSolver
import pymoto.solvers.solvers as ss
FIX = '--fix' in sys.argv
if FIX:
    def gdi(mat):
        n = min(*mat.shape); bmat = mat != 0
        has_diag = bmat.diagonal()
        nr = np.array(bmat.sum(axis=0)).flatten()[:n]; nc = np.array(bmat.sum(axis=1)).flatten()[:n]
        return np.logical_and(has_diag, np.logical_and(nr <= 1, nc <= 1))
    ss.get_diagonal_indices = gdi
warnings.simplefilter('ignore')
class Ref(LinearSolver):
    def __init__(self): self.calls = 0
    def update(self, A): self.A = np.asarray(A)
    def solve(self, rhs, x0=None, trans='N'):
        self.calls += 1
        M = {'N': self.A, 'T': self.A.T, 'H': self.A.conj().T}[trans]
        return np.linalg.solve(M, rhs)
n = 3
# matrices: all off-diagonal sparsity patterns with fixed values
vals = np.array([[4.0, 0.7, -1.1],[0.5, 5.0, 0.9],[-0.6, 1.3, 6.0]])
valsc = vals + 1j*np.array([[0.0, 0.4, 0.3],[-0.2, 0.0, 0.8],[0.5,-0.7,0.0]])
offd = [(i,j) for i in range(n) for j in range(n) if i!=j]
mats = {}
for bits in itertools.product([0,1], repeat=len(offd)):
    for nm, V in [('r',vals),('c',valsc)]:
        A = np.diag(np.diag(V)).astype(V.dtype)
        for b,(i,j) in zip(bits,offd):
            if b: A[i,j] = V[i,j]
        mats[f'{nm}{"".join(map(str,bits))}'] = A
# symmetric / hermitian variants
for bits in itertools.product([0,1], repeat=3):
    up = [(0,1),(0,2),(1,2)]
    A = np.diag(np.diag(vals)); Ah = np.diag(np.diag(vals)).astype(complex); As = np.diag(np.diag(valsc)+0.3j)
    for b,(i,j) in zip(bits,up):
        if b:
            A[i,j]=A[j,i]=vals[i,j]; Ah[i,j]=valsc[i,j]; Ah[j,i]=valsc[i,j].conj(); As[i,j]=As[j,i]=valsc[i,j]
    mats[f'rs{"".join(map(str,bits))}']=A; mats[f'ch{"".join(map(str,bits))}']=Ah; mats[f'cs{"".join(map(str,bits))}']=As
b1 = np.array([1.0,-2.0,0.5]); b2 = np.array([0.3,0.9,-1.4]); bc = b1 + 1j*b2
rhss = {'b1':b1,'b2':b2,'2b1':2*b1,'b1+b2':b1+b2,'zero':np.zeros(3),'bc':bc,'ib1':1j*b1,'blk12':np.stack([b1,b2],1),'blkdep':np.stack([b1,2*b1,b2],1),'blkz':np.stack([b1,np.zeros(3)],1),'col':b1.reshape(3,1)}
fails = collections.Counter(); examples = {}
nrun=0
for mn, A in mats.items():
    for seq in itertools.product(itertools.product(rhss.keys(), 'NTH'), repeat=2):
        ref = Ref(); w = LDAWrapper(ref)
        try:
            w.update(A)
        except Exception as e:
            fails[('update', type(e).__name__)]+=1; examples.setdefault(('update', type(e).__name__),(mn,str(e)[:80])); break
        for (rn, tr) in seq:
            b = rhss[rn]; nrun+=1
            try:
                x = w.solve(b.copy(), trans=tr)
            except Exception as e:
                k=('exc',type(e).__name__, tr, np.iscomplexobj(A), np.iscomplexobj(b)); fails[k]+=1; examples.setdefault(k,(mn,seq,str(e)[:100])); break
            M = {'N':A,'T':A.T,'H':A.conj().T}[tr]
            r = np.linalg.norm(M@x-b)/max(np.linalg.norm(b),1e-300)
            if x.shape!=b.shape: k=('shape',); fails[k]+=1; examples.setdefault(k,(mn,seq))
            if not r < 1e-6 and np.linalg.norm(b)>0:
                k=('resid', tr, mn[:2].rstrip('01'), rn); fails[k]+=1; examples.setdefault(k,(mn,seq,r)); break
            if np.linalg.norm(b)==0 and np.linalg.norm(x)!=0: fails[('zero',)]+=1
print('runs', nrun, 'fix', FIX)
for k,v in sorted(fails.items(), key=lambda kv:-kv[1])[:40]: print(v, k, examples[k] if k in examples else '')
