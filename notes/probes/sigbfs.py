import numpy as np, itertools, collections, copy, warnings
import pymoto as pym
warnings.simplefilter('ignore')
# Reference model: S (ndarray), G (ndarray|None), keep (bool)
def mk(kind):
    if kind=='v4': return np.array([1.,2.,3.,4.])
    if kind=='m23': return np.arange(1.,7.).reshape(2,3)
    if kind=='c3': return np.array([1+1j,2-1j,0.5j])
slices = {
 'v4': {'a':np.s_[1:3], 'b':np.s_[::2], 'f':np.array([0,2]), 'i':2, 'n':('nest', np.s_[1:4], np.s_[0:2])},
 'm23': {'r':np.s_[0,:], 'c':np.s_[:,1:], 't':(slice(0,2),slice(0,2)), 'f':(np.array([0,1]),np.array([2,0])), 'e':np.s_[1,2]},
 'c3': {'a':np.s_[0:2], 'f':np.array([2,0])},
}
def getslice(sig, sl):
    if isinstance(sl, tuple) and len(sl)==3 and sl[0]=='nest': return sig[sl[1]][sl[2]]
    return sig[sl]
def refidx(sl, shape):
    """return flat index array into base corresponding to slice"""
    idx = np.arange(int(np.prod(shape))).reshape(shape)
    if isinstance(sl, tuple) and len(sl)==3 and sl[0]=='nest': return idx[sl[1]][sl[2]]
    return idx[sl]
def run(kind, ops):
    """execute ops on impl and model; return first discrepancy or None"""
    S0 = mk(kind)
    sig = pym.Signal('s', S0.copy())
    S = S0.copy(); G = None; keep=False
    live = {}  # objects passed to add_sensitivity for aliasing checks: list of (obj)
    passed = []
    for op in ops:
        try:
            t = op[0]
            if t == 'setS':   # assign state through slice
                _, sn, val = op
                tgt = getslice(sig, slices[kind][sn]); ix = refidx(slices[kind][sn], S.shape)
                tgt.state = val
                S.flat[np.ravel(ix)] = np.ravel(np.broadcast_to(val, np.shape(ix)))
            elif t == 'add':  # add_sensitivity on base or slice
                _, sn, val, reuse = op
                if sn is None:
                    ds = np.full(S.shape, val, dtype=S.dtype) + np.arange(S.size).reshape(S.shape)*0.25
                    obj = ds.copy()
                    sig.add_sensitivity(obj); passed.append(obj)
                    if reuse: sig.add_sensitivity(obj)
                    G = ds.copy()*(2 if reuse else 1) if G is None else G + ds*(2 if reuse else 1)
                else:
                    ix = refidx(slices[kind][sn], S.shape)
                    ds = np.full(np.shape(ix), val, dtype=S.dtype) + np.arange(np.size(ix)).reshape(np.shape(ix))*0.25
                    obj = ds.copy() if np.ndim(ds)>0 else ds.item()
                    tgt = getslice(sig, slices[kind][sn])
                    tgt.add_sensitivity(obj); passed.append(obj)
                    if G is None: G = np.zeros_like(S)
                    G = G.copy(); np.add.at(G.reshape(-1), np.ravel(ix), np.ravel(ds))
                # mutate passed object afterwards (aliasing)
                if isinstance(obj, np.ndarray): obj += 1000.0
            elif t == 'reset':
                _, sn, ka = op
                if sn is None:
                    sig.reset() if ka is None else sig.reset(keep_alloc=ka)
                    if G is not None:
                        k = keep if ka is None else ka
                        G = np.zeros_like(G) if k else None
                else:
                    getslice(sig, slices[kind][sn]).reset()
                    if G is not None:
                        ix = refidx(slices[kind][sn], S.shape); G = G.copy(); G.reshape(-1)[np.ravel(ix)] = 0
            elif t == 'setG':
                _, sn, val = op
                if sn is None:
                    arr = None if val is None else np.full(S.shape, val, dtype=S.dtype)
                    sig.sensitivity = arr; G = None if arr is None else arr.copy()
                else:
                    ix = refidx(slices[kind][sn], S.shape)
                    getslice(sig, slices[kind][sn]).sensitivity = val
                    if val is None:
                        if G is not None: G = G.copy(); G.reshape(-1)[np.ravel(ix)] = 0
                    else:
                        if G is None: G = np.zeros_like(S)
                        G = G.copy(); G.reshape(-1)[np.ravel(ix)] = val
        except Exception as e:
            return ('EXC', type(e).__name__, str(e)[:80])
        # compare
        if not np.array_equal(np.asarray(sig.state), S): return ('state', op)
        gi = sig.sensitivity
        if (gi is None) != (G is None): return ('sensNone', op, gi, G)
        if G is not None and not np.allclose(np.asarray(gi), G): return ('sens', op, np.asarray(gi).tolist(), G.tolist())
        for sn, sl in slices[kind].items():
            ix = refidx(sl, S.shape); ss = getslice(sig, sl)
            if not np.array_equal(np.asarray(ss.state), S.reshape(-1)[ix]): return ('slice state', sn, op)
            sg = ss.sensitivity
            if (sg is None) != (G is None): return ('slice sensNone', sn, op)
            if G is not None and not np.allclose(np.asarray(sg), G.reshape(-1)[ix]): return ('slice sens', sn, op)
    return None
fails = collections.Counter(); ex = {}
n=0
for kind in ['v4','m23','c3']:
    sns = list(slices[kind].keys())
    alphabet = []
    for sn in sns: alphabet.append(('setS', sn, 7.5))
    for sn in [None]+sns:
        alphabet.append(('add', sn, 1.0, False))
        alphabet.append(('setG', sn, None)); alphabet.append(('setG', sn, 2.0))
    alphabet.append(('add', None, 1.0, True))
    for sn in sns: alphabet.append(('reset', sn, None))
    for ka in [None, True, False]: alphabet.append(('reset', None, ka))
    for depth in [1,2,3]:
        for ops in itertools.product(alphabet, repeat=depth):
            n+=1
            r = run(kind, ops)
            if r is not None:
                k = (kind, r[0], r[1] if r[0]=='EXC' else '', tuple(o[0]+str(o[1]) for o in ops))
                kk = (kind, r[0], r[1] if r[0]=='EXC' else '', ops[-1][0], str(ops[-1][1]))
                fails[kk]+=1; ex.setdefault(kk, (ops, r))
print('sequences', n)
for k,v in sorted(fails.items(), key=lambda kv:-kv[1])[:40]: print(v, k, ex[k])
