import subprocess, shutil, os, json, sys, xml.etree.ElementTree as ET
MUTS = {
 'a_all_any': ('pymoto/core_objects.py', "if len(self.sig_out) > 0 and all([s is None for s in sens_in]):", "if len(self.sig_out) > 0 and any([s is None for s in sens_in]):", ['tests/test_core.py','tests/test_linsolve_sparse.py','tests/test_module_eigensolve.py']),
 'b_slice_reset_base': ('pymoto/core_objects.py', "        if self.sensitivity is not None:\n            self.sensitivity = None\n        return self", "        if self.sensitivity is not None:\n            self.base.sensitivity = None\n        return self", ['tests/test_core.py']),
 'c_reset_keepalloc': ('pymoto/core_objects.py', "                    self.sensitivity[...] = 0\n", "                    self.sensitivity[...] = self.sensitivity\n", ['tests/test_core.py']),
 'd_conjmode': ('pymoto/solvers/solvers.py', "conj_mode = self.symmetric and trans == 'H' or not self.symmetric and trans == 'T'", "conj_mode = self.symmetric and trans == 'T' or not self.symmetric and trans == 'T'", ['tests/test_solvers_dense.py','tests/test_solvers_sparse.py','tests/test_linsolve_sparse.py']),
 'e_qr_T': ('pymoto/solvers/dense.py', "return self.q.conj() @ spla.solve_triangular(self.r, rhs, trans='T')", "return self.q @ spla.solve_triangular(self.r, rhs, trans='T')", ['tests/test_solvers_dense.py']),
 'f_pad_edge1': ('pymoto/modules/filter.py', "        if type_edge1 == 'edge':\n            pad1b = np.pad(pad1a, pad_width, mode='edge')", "        if type_edge1 == 'edge':\n            pad1b = np.pad(pad1a, pad_width, mode='symmetric')", ['tests/test_filter.py']),
 'g_correlate': ('pymoto/modules/filter.py', "dx3d = correlate(dfdv[self.el3d_orig], self.weights, mode='full')", "dx3d = convolve(dfdv[self.el3d_orig], self.weights, mode='full')", ['tests/test_filter.py']),
 'h_rows_cols': ('pymoto/modules/assembly.py', "        self.rows = np.kron(self.dofconn, np.ones((1, domain.elemnodes*self.ndof), dtype=int)).flatten()\n        self.cols = np.kron(self.dofconn, np.ones((domain.elemnodes * self.ndof, 1), dtype=int)).flatten()", "        self.cols = np.kron(self.dofconn, np.ones((1, domain.elemnodes*self.ndof), dtype=int)).flatten()\n        self.rows = np.kron(self.dofconn, np.ones((domain.elemnodes * self.ndof, 1), dtype=int)).flatten()", ['tests/test_assembly.py','tests/test_linsolve_sparse.py','tests/test_elmatrices.py','tests/test_thermo_mech.py','tests/test_static_condenstation.py']),
 'k_dyad_imag': ('pymoto/common/dyadcarrier.py', "return DyadCarrier([*[u.real for u in self.u], *[u.imag for u in self.u]], [*[v.imag for v in self.v], *[v.real for v in self.v]], shape=self.shape)", "return DyadCarrier([*[u.real for u in self.u], *[-u.imag for u in self.u]], [*[v.imag for v in self.v], *[v.real for v in self.v]], shape=self.shape)", ['tests/test_dyadcarrier.py']),
 'l_vti_pad': ('pymoto/common/domain.py', "vec_pad[1::3] = vec_to_write[1::2]", "vec_pad[2::3] = vec_to_write[1::2]", ['tests/test_domain.py']),
 'm_bcdiag': ('pymoto/modules/assembly.py', "mat_values = np.concatenate((scaled_el[self.bcselect], self.bcdiagval*np.ones(len(self.bc))))", "mat_values = np.concatenate((scaled_el[self.bcselect], np.ones(len(self.bc))))", ['tests/test_assembly.py','tests/test_linsolve_sparse.py','tests/test_module_eigensolve.py','tests/test_static_condenstation.py']),
 'n_density_window': ('pymoto/modules/filter.py', "xupp = np.minimum(ix + delem, nx - 1)", "xupp = np.minimum(ix + delem - 1, nx - 1)", ['tests/test_filter.py','tests/test_linsolve_sparse.py']),
 'o_aggscaling': ('pymoto/modules/aggregation.py', "self.sf = self.damping * self.sf + (1 - self.damping) * scale", "self.sf = (1 - self.damping) * self.sf + self.damping * scale", ['tests/test_aggregration.py']),
 'p_eig_sign': ('pymoto/modules/linalg.py', "sgn = 1 if np.real(np.average(qi)) >= 0 else -1", "sgn = 1", ['tests/test_module_eigensolve.py']),
 'q_lda_tol_update': ('pymoto/modules/linalg.py', "        # Update solver with new matrix\n        self.solver.update(mat)\n", "        # Update solver with new matrix\n        if self.u is None:\n            self.solver.update(mat)\n", ['tests/test_linsolve_sparse.py','tests/test_solvers_dense.py','tests/test_static_condenstation.py']),
}
base=json.load(open('/root/.vp/BASELINE.json'))['stable_pass']
out={}
for name,(path,old,new,tests) in MUTS.items():
    d=f'/tmp/mut2/{name}'
    shutil.rmtree(d,ignore_errors=True)
    subprocess.run(['rsync','-a','--exclude','.git','--exclude','build','--exclude','*.egg-info','/repo/',d+'/'],check=True)
    s=open(f'{d}/{path}').read()
    if old not in s: out[name]='PATTERN NOT FOUND'; print(name,out[name]); continue
    open(f'{d}/{path}','w').write(s.replace(old,new,1))
    env=dict(os.environ, OMP_NUM_THREADS='4', OPENBLAS_NUM_THREADS='4')
    subprocess.run(['/venv/bin/python','-m','pytest','-q','-p','no:cacheprovider','--timeout=900',f'--junitxml=/tmp/mut2/{name}.xml',*tests],cwd=d,env=env,stdout=subprocess.DEVNULL,stderr=subprocess.DEVNULL)
    root=ET.parse(f'/tmp/mut2/{name}.xml').getroot(); res={}
    for tc in root.iter('testcase'):
        nm=f"{tc.get('classname')}::{tc.get('name')}"
        res[nm]='fail' if any(ch.tag in ('failure','error') for ch in tc) else 'ok'
    broken=[t for t in base if t in res and res[t]=='fail']
    out[name]=broken
    print(name,'-> pinned tests broken:',len(broken),broken[:3],flush=True)
    shutil.rmtree(d,ignore_errors=True)
json.dump(out,open('/tmp/mut2/result.json','w'),indent=1)
print('DONE')
