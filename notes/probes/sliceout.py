import numpy as np, pymoto as pym
class Sq(pym.Module):
    def _response(self,x): return x*x+x
    def _sensitivity(self,dy): return dy*(2*self.sig_in[0].state+1)
class Sum(pym.Module):
    def _response(self,x): return np.sum(x*np.arange(1,x.size+1))
    def _sensitivity(self,dy): return dy*np.arange(1.,self.sig_in[0].state.size+1)
a=pym.Signal('a',np.array([0.5,-1.0])); base=pym.Signal('base',np.zeros(4))
m1=Sq(a, base[1:3]); m2=Sum(base, pym.Signal('f'))
net=pym.Network(m1,m2); net.response(); print(base.state, m2.sig_out[0].state)
m2.sig_out[0].sensitivity=1.0; net.sensitivity(); print('da', a.sensitivity, 'expected', np.array([2.,3.])*(2*a.state+1))
net.reset(); print(base.sensitivity, a.sensitivity)
