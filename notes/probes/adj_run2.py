from adj import *
warnings.simplefilter('ignore')
S = pym.Signal
v = np.array([0.7,-1.2,0.4]); vc = np.array([0.7+0.2j,-1.2-0.5j,0.4+1.1j])
scan('MakeComplex', lambda: pym.MakeComplex([S('x',v),S('y',v[::-1].copy())]), linear=True)
scan('MakeComplex scalar', lambda: pym.MakeComplex([S('x',0.3),S('y',-0.8)]), linear=True)
scan('RealPart', lambda: pym.RealPart(S('z',vc)), linear=True)
scan('ImagPart', lambda: pym.ImagPart(S('z',vc)), linear=True)
scan('ComplexNorm', lambda: pym.ComplexNorm(S('z',vc)))
scan('ComplexNorm scalar', lambda: pym.ComplexNorm(S('z',0.3-0.4j)))
A = np.array([[1.,2,0.5],[0.3,-1,2],[1.5,0.2,0.9]]); Ac = A + 1j*np.array([[0.2,0,1],[1,0.5,-0.3],[0.1,0.7,0]])
for nm, args in [('i->',[v]),('i,i->i',[v,v*2]),('i,i->',[v,vc]),('i,j->ij',[v,vc]),('ii->',[A]),('ij,j->i',[Ac,v]),('i,ij,j->',[v,A,v*0.5]),('ij,ij->ij',[A,Ac]),('ji,jk,kl->il',[A,Ac,A]),('ij->',[A]), ('ij->ji',[Ac]), ('ij,jk->ik',[A,A.T.copy()])]:
    scan(f'EinSum {nm}', lambda: pym.EinSum([S(f'a{i}',a.copy()) for i,a in enumerate(args)], expression=nm))
scan('Concat', lambda: pym.ConcatSignal([S('a',v.copy()),S('b',2.5),S('c',np.array([1.,2.]))]), linear=True)
scan('Inverse real', lambda: pym.Inverse(S('A',A.copy())))
scan('Inverse cplx', lambda: pym.Inverse(S('A',Ac.copy())))
for p in [2,3,-2,8]:
    scan(f'PNorm p={p}', lambda: pym.PNorm(S('x',np.array([0.5,1.5,0.9,2.2])), p=p))
for a in [2.0,-3.0]:
    scan(f'SoftMinMax a={a}', lambda: pym.SoftMinMax(S('x',np.array([0.5,1.5,0.9,2.2])), alpha=a))
    scan(f'KS rho={a}', lambda: pym.KSFunction(S('x',np.array([0.5,1.5,0.9,2.2])), rho=a))
scan('KS activeset', lambda: pym.KSFunction(S('x',np.array([0.5,1.5,0.9,2.2,3.0,0.1])), rho=2.0, active_set=pym.AggActiveSet(lower_amt=0.2, upper_rel=0.9)))
scan('Scaling', lambda: pym.Scaling(S('x',2.5), scaling=10.0))
scan('Scaling min', lambda: pym.Scaling(S('x',2.5), scaling=10.0, minval=0.5), linear=True)
scan('Scaling max', lambda: pym.Scaling(S('x',2.5), scaling=10.0, maxval=0.5), linear=True)
scan('Scaling vec', lambda: pym.Scaling(S('x',v.copy()), scaling=10.0))
