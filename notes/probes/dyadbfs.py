import numpy as np, itertools, collections, warnings, scipy.sparse as sps
import pymoto as pym
from pymoto import DyadCarrier as DC
warnings.simplefilter('ignore')
n, m = 3, 2
ur = [np.array([1.,-2.,0.5]), np.array([0.,1.,3.])]; vr = [np.array([2.,1.]), np.array([-1.,0.5])]
uc = [np.array([1+1j,0.,2j])]; vc = [np.array([1.,-1j])]
def kind(a): return 'c' if np.iscomplexobj(a) else 'r'
def dense(d): return d.todense() if isinstance(d, DC) else np.asarray(d)
# initial states: (impl, ref)
def inits():
    yield 'empty', DC(shape=(n,m)), np.zeros((n,m))
    yield 'r1', DC(ur[0], vr[0]), np.outer(ur[0], vr[0])
    yield 'r2', DC(ur, vr), sum(np.outer(a,b) for a,b in zip(ur,vr))
    yield 'c1', DC(uc[0], vc[0]), np.outer(uc[0], vc[0])
    yield 'mix', DC([ur[0],uc[0]],[vc[0],vr[1]]), np.outer(ur[0],vc[0])+np.outer(uc[0],vr[1])
    yield 'blk', DC(np.stack(ur), np.stack(vr)), np.outer(ur[0]+ur[1], vr[0]+vr[1])
Pr = (DC(ur[1], vr[0]), np.outer(ur[1], vr[0])); Pc = (DC(uc[0], vr[1]), np.outer(uc[0], vr[1])); P0 = (DC(shape=(n,m)), np.zeros((n,m)))
Ml = np.array([[1.,2,0],[0,-1,1],[0.5,0,2]]); Mlc = Ml + 1j*np.eye(3); Mr = np.array([[1.,-1],[2,0.5]]); Mrect = np.array([[1.,0,2],[0,1,-1]])  # (m x 3)
ops = {
 'add_r': lambda D,R: (D+Pr[0], R+Pr[1]), 'add_c': lambda D,R: (D+Pc[0], R+Pc[1]), 'add_0': lambda D,R: (D+P0[0], R+P0[1]),
 'radd_r': lambda D,R: (Pr[0]+D, R+Pr[1]),
 'sub_c': lambda D,R: (D-Pc[0], R-Pc[1]), 'neg': lambda D,R: (-D, -R), 'pos': lambda D,R: (+D, +R),
 'iadd_r': lambda D,R: (D.__iadd__(Pr[0]), R+Pr[1]), 'isub_c': lambda D,R: (D.__isub__(Pc[0]), R-Pc[1]),
 'lmul2': lambda D,R: (2.0*D, 2*R), 'rmulj': lambda D,R: (D*1j, R*1j), 'mul0': lambda D,R: (D*0.0, R*0),
 'lmat': lambda D,R: (Ml@D, Ml@R), 'lmatc': lambda D,R: (Mlc@D, Mlc@R), 'rmat': lambda D,R: (D@Mr, R@Mr), 'rmat_rect': lambda D,R: (D@Mrect, R@Mrect),
 'T': lambda D,R: (D.T, R.T), 'conj': lambda D,R: (D.conj(), R.conj()), 'real': lambda D,R: (D.real, R.real), 'imag': lambda D,R: (D.imag, R.imag),
 'copy': lambda D,R: (D.copy(), R.copy()),
 'sl_rows': lambda D,R: (D[0:2,:], R[0:2,:]), 'sl_fancy': lambda D,R: (D[np.array([2,0]),:], R[np.array([2,0]),:]), 'sl_step': lambda D,R: (D[::2, ::-1], R[::2, ::-1]),
 'zero_row': lambda D,R: (zr(D), zr_ref(R)), 'zero_col': lambda D,R: (zc(D), zc_ref(R)),
}
def zr(D): D[np.array([0]),:] = 0.0; return D
def zr_ref(R): R = R.copy(); R[0,:] = 0; return R
def zc(D): D[:, 1:] = 0.0; return D
def zc_ref(R): R = R.copy(); R[:,1:] = 0; return R
def observe(D, R):
    out = []
    def chk(name, f_impl, f_ref):
        try: a = f_impl()
        except Exception as e: out.append((name, 'EXC '+type(e).__name__+': '+str(e)[:60])); return
        b = f_ref()
        a_ = dense(a)
        if np.shape(a_) != np.shape(b): out.append((name, f'shape {np.shape(a_)} vs {np.shape(b)}')); return
        if not np.allclose(a_, b, atol=1e-12): out.append((name, 'value')); return
        if np.iscomplexobj(a_) != np.iscomplexobj(b) : out.append((name, f'kind impl={kind(a_)} ref={kind(b)}'))
    r, c = R.shape
    chk('todense', lambda: D.todense(), lambda: R)
    chk('shape', lambda: np.array(D.shape), lambda: np.array(R.shape))
    for k in (-1,0,1): chk(f'diag{k}', lambda: D.diagonal(k), lambda: np.diagonal(R, k))
    chk('elem', lambda: D[1,0], lambda: R[1,0])
    chk('row', lambda: D[1,:], lambda: R[1,:])
    chk('col', lambda: D[:,0], lambda: R[:,0])
    chk('fancyelem', lambda: D[np.array([0,1]),np.array([1,0])], lambda: R[np.array([0,1]),np.array([1,0])])
    B = np.cos(np.arange(r*c)).reshape(r,c); Bc = B+1j*np.sin(np.arange(r*c)).reshape(r,c)
    chk('contractB', lambda: D.contract(B), lambda: np.sum(R*B))
    chk('contractBc', lambda: D.contract(Bc), lambda: np.sum(R*Bc))
    chk('contractSp', lambda: D.contract(sps.csr_matrix(B)), lambda: np.sum(R*B))
    if r==c: chk('trace', lambda: D.contract(), lambda: np.trace(R))
    Bb = np.stack([B, 2*B+1]); chk('contractBatch', lambda: D.contract(Bb), lambda: np.array([np.sum(R*B), np.sum(R*(2*B+1))]))
    rows = np.array([[0,1],[1,0]]) if r>=2 else None
    if r>=2 and c>=2:
        cols = np.array([[0,1],[1,1]]); Bs = np.arange(8.).reshape(2,2,2)
        chk('contractSliced', lambda: D.contract(Bs, rows, cols), lambda: np.array([np.sum(R[np.ix_(rows[p],cols[p])]*Bs[p]) for p in range(2)]))
    x = np.arange(1.,c+1); xc = x*(1-2j)
    chk('dot', lambda: D.dot(x), lambda: R@x); chk('dotc', lambda: D.dot(xc), lambda: R@xc)
    chk('matvec', lambda: D@x, lambda: R@x)
    y = np.arange(1.,r+1); chk('rmatvec', lambda: y@D, lambda: y@R)
    chk('add_dense', lambda: D + np.ones((r,c)), lambda: R + 1); chk('rsub_dense', lambda: np.ones((r,c)) - D, lambda: 1 - R)
    chk('iscomplex', lambda: np.array(D.iscomplex()), lambda: np.array(np.iscomplexobj(R)))
    return out
fails = collections.Counter(); ex={}; nstates=0
for depth in [0,1,2]:
    for (iname, D0, R0) in inits():
        for seq in itertools.product(ops.keys(), repeat=depth):
            # rebuild fresh
            D, R = [(d.copy(), r.copy()) for (nm,d,r) in inits() if nm==iname][0]
            ok=True
            for o in seq:
                try:
                    D, R = ops[o](D, R)
                except Exception as e:
                    # reference failure (shape mismatch) -> inadmissible; impl failure only counts if reference op works
                    try:
                        ops[o](DC(shape=R.shape) , R)  # crude: does the ref side work?
                        refok=True
                    except Exception: refok=False
                    k=('opEXC', o, type(e).__name__, str(e)[:50]); 
                    if refok: fails[k]+=1; ex.setdefault(k,(iname,seq))
                    ok=False; break
            if not ok: continue
            nstates+=1
            for (nm, what) in observe(D, R):
                k=(nm, what, seq[-1] if seq else 'init'); fails[k]+=1; ex.setdefault(k,(iname,seq))
print('states', nstates)
for k,v in sorted(fails.items(), key=lambda kv:-kv[1])[:60]: print(v, k, ex[k])
