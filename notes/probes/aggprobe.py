import numpy as np, warnings, itertools, collections, time
import pymoto as pym
warnings.simplefilter('ignore')
viol=collections.Counter(); ex={}
def V(k, info=None): viol[k]+=1; ex.setdefault(k, info)
def valid_mask(x, m, lr, ur, la, ua):
    n=x.size; xmin,xmax=x.min(),x.max()
    if xmax==xmin: return m is Ellipsis or np.all(m)
    if m is Ellipsis: m=np.ones(n,bool)
    rel=(x-xmin)/(xmax-xmin)
    band=np.ones(n,bool)
    # tolerance on band edges: skip entries within 1e-12 of the edge
    kl=int(np.floor(n*la+1e-12)); kh=int(np.floor(n*(1-ua)+1e-12))
    xs=np.sort(x)
    # L: entries strictly below kl-th smallest must be removed; ties at threshold: count
    def removed_sets(k, low=True):
        if k==0: return [frozenset()]
        order = np.argsort(x if low else -x, kind='stable')
        thr = (x if low else -x)[order[k-1]]
        key = x if low else -x
        must = [i for i in range(n) if key[i]<thr]; ties=[i for i in range(n) if key[i]==thr]
        need=k-len(must)
        return [frozenset(must)|frozenset(c) for c in itertools.combinations(ties,need)]
    for L in removed_sets(kl,True):
        for H in removed_sets(kh,False):
            exp=np.array([(lr<=0 or rel[i]>=lr) and (ur>=1 or rel[i]<=ur) and i not in L and i not in H for i in range(n)])
            if np.array_equal(exp,m): return True
    return False
t0=time.time(); n_as=0
for n in range(1,8):
    vecs=[]
    if n<=5: vecs += [np.array(v,dtype=float) for v in itertools.product([1,2,3],repeat=n)]
    vecs += [np.sqrt(np.arange(2,2+n)*(k+1.3)) % 3.1 + 0.2 for k in range(3)]
    for x in vecs:
        for lr,ur in [(0,1),(0.2,1),(0,0.8),(0.2,0.8),(0.5,0.5001)]:
            for la,ua in itertools.product([0,0.1,0.25,0.4],[0.6,0.75,0.9,1.0]):
                try:
                    a=pym.AggActiveSet(lr,ur,la,ua); m=a(x)
                except Exception as e: V(('AS EXC',type(e).__name__)); continue
                n_as+=1
                if not valid_mask(x,m,lr,ur,la,ua):
                    V(('activeset', 'upper_zero' if (ua<1 and int(n*(1-ua))==0) else 'other', la, ua), (x.tolist(), lr,ur, None if m is Ellipsis else m.tolist()))
print('active set cases', n_as, time.time()-t0)
# aggregation bounds & scaling
nagg=0
for n in range(1,7):
    for k in range(3):
        x = (np.sqrt(np.arange(2,2+n)*(k+1.3)) % 3.1) + 0.2
        for p in [2,3,8,20,-2,-8]:
            m=pym.PNorm(pym.Signal('x',x),p=p); m.response(); s=m.sig_out[0].state; nagg+=1
            if p>0 and not (x.max()-1e-12<=s<=n**(1/p)*x.max()+1e-12): V(('pnorm bound',p))
            if p<0 and not (n**(1/p)*x.min()-1e-12<=s<=x.min()+1e-12): V(('pnorm bound',p),(x,s))
        for r in [1.,5.,-1.,-5.]:
            m=pym.KSFunction(pym.Signal('x',x),rho=r); m.response(); s=m.sig_out[0].state; nagg+=1
            if r>0 and not (x.max()-1e-12<=s<=x.max()+np.log(n)/r+1e-12): V(('ks bound',r))
            if r<0 and not (x.min()+np.log(n)/r-1e-12<=s<=x.min()+1e-12): V(('ks bound',r))
            m=pym.SoftMinMax(pym.Signal('x',x),alpha=r); m.response(); s=m.sig_out[0].state
            if r>0 and not (x.mean()-1e-12<=s<=x.max()+1e-12): V(('smm bound',r))
            if r<0 and not (x.min()-1e-12<=s<=x.mean()+1e-12): V(('smm bound',r))
        for cls,kw,which in [(pym.PNorm,dict(p=4),'max'),(pym.PNorm,dict(p=-4),'min'),(pym.KSFunction,dict(rho=3.),'max'),(pym.KSFunction,dict(rho=-3.),'min'),(pym.SoftMinMax,dict(alpha=3.),'max'),(pym.SoftMinMax,dict(alpha=-3.),'min')]:
            for d in [0.0,0.3,0.7]:
                sig=pym.Signal('x',x.copy()); m=cls(sig,scaling=pym.AggScaling(which,d),**kw)
                sfs=[]; 
                for it in range(4):
                    sig.state = x*(1+0.1*it) + 0.05*it*np.arange(n)
                    m.response(); xx=sig.state
                    true = xx.max() if which=='max' else xx.min()
                    m0=cls(pym.Signal('x',xx.copy()),**kw); m0.response(); approx=m0.sig_out[0].state
                    sc=true/approx
                    sref = sc if it==0 else d*sfs[-1]+(1-d)*sc
                    sfs.append(sref)
                    if not np.isclose(m.sig_out[0].state, sref*approx, rtol=1e-12): V(('scaling recurrence',cls.__name__,d,it))
                    if d==0 and not np.isclose(m.sig_out[0].state,true,rtol=1e-12): V(('undamped exact',cls.__name__))
print('agg cases',nagg)
for k,v in viol.most_common(20): print(v,k,ex.get(k))
