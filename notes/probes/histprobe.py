import numpy as np, warnings, itertools, copy, scipy.sparse as sps
import pymoto as pym
from pymoto.solvers import CG, SOR
warnings.simplefilter('ignore')
dom = pym.DomainDefinition(3,2)
bc = np.concatenate([dom.get_nodenumber(0,np.arange(3))*2, dom.get_nodenumber(0,np.arange(3))*2+1])
f = np.zeros(dom.nnodes*2); f[dom.get_nodenumber(3,1)*2+1] = -1.0
xs = [0.3+0.1*np.arange(dom.nel), np.full(dom.nel,0.5), 1.0-0.12*np.arange(dom.nel)]
def build(kind):
    x = pym.Signal('x', xs[0].copy())
    net = pym.Network()
    if kind in ('to','to_cg','to_blk'):
        xf = net.append(pym.DensityFilter(x, domain=dom, radius=1.5))
        K = net.append(pym.AssembleStiffness(xf, domain=dom, bc=bc))
        rhs = pym.Signal('f', f.copy() if kind!='to_blk' else np.stack([f, np.roll(f,2)*0.5],axis=1))
        kw = {}
        if kind=='to_cg': kw['solver'] = CG(preconditioner=SOR(), tol=1e-10)
        u = net.append(pym.LinSolve([K, rhs], **kw))
        c = net.append(pym.EinSum([u, rhs], expression='i,i->' if kind!='to_blk' else 'ij,ij->'))
        v = net.append(pym.EinSum([xf], expression='i->'))
        outs = [c, v]
    elif kind=='eig':
        K = net.append(pym.AssembleStiffness(x, domain=dom, bc=bc))
        M = net.append(pym.AssembleMass(x, domain=dom, bc=bc, ndof=2, bcdiagval=1.0))
        lam, Q = net.append(pym.EigenSolve([K, M], nmodes=3, hermitian=True))
        l0 = net.append(pym.EinSum([lam], expression='i->'))
        q0 = net.append(pym.EinSum([Q, Q], expression='ij,ij->'))
        outs = [l0, q0]
    elif kind=='ovh':
        xo = net.append(pym.OverhangFilter(x, domain=dom, direction='y'))
        a = net.append(pym.KSFunction(xo, rho=3.0))
        b = net.append(pym.EinSum([xo, xo], expression='i,i->'))
        outs = [a, b]
    return net, x, outs
def allsigs(net):
    s=[]
    for m in net.mods:
        for q in list(m.sig_in)+list(m.sig_out):
            if q not in s: s.append(q)
    return s
def snap(net, x):
    out = {}
    for i,s in enumerate(allsigs(net)):
        st = s.state
        out[(i,'state')] = st.toarray() if sps.issparse(st) else np.array(st)
    g = x.sensitivity
    out['dx'] = None if g is None else np.array(g)
    return out
def final_cycle(net, x, outs, k, j):
    net.reset(); x.state = xs[k].copy(); net.response(); outs[j].sensitivity = 1.0; net.sensitivity()
    return snap(net, x)
def cmp(a, b, tol):
    worst=0
    for key in a:
        if a[key] is None or b[key] is None:
            if not (a[key] is None and b[key] is None): return np.inf
            continue
        d = np.max(np.abs(a[key]-b[key]))/max(1e-12, np.max(np.abs(b[key])))
        worst=max(worst,d)
    return worst
ops_alpha = ['I0','I1','I2','R','S0','S1','B','Z']
for kind in ['eig']:
    worst=0; n=0; bad=[]; wseq=None
    for depth in [1,2,3]:
        for seq in itertools.product(ops_alpha, repeat=depth):
            # protocol: B requires fresh response (R after last I)
            fresh=False; ok=True
            for o in seq:
                if o[0]=='I': fresh=False
                if o=='R': fresh=True
                if o in ('B','S0','S1') and not fresh: ok=False
            if not ok: continue
            net, x, outs = build(kind)
            try:
                for o in seq:
                    if o[0]=='I': x.state = xs[int(o[1])].copy()
                    elif o=='R': net.response()
                    elif o[0]=='S': outs[int(o[1])].sensitivity = 1.0
                    elif o=='B': net.sensitivity()
                    elif o=='Z': net.reset()
                res = final_cycle(net, x, outs, 1, 0)
            except Exception as e:
                bad.append((seq, type(e).__name__, str(e)[:80])); continue
            netf, xf_, outsf = build(kind)
            ref = final_cycle(netf, xf_, outsf, 1, 0)
            d = cmp(res, ref, 0); n+=1
            if d > worst: worst, wseq = d, seq
    print(kind, 'histories', n, 'worst rel diff', worst, wseq, 'exceptions', len(bad), bad[:2])
