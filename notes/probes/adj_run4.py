from adj import *
warnings.simplefilter('ignore')
S = pym.Signal
rng = np.random.default_rng(5)
n=5
R = rng.standard_normal((n,n))
band = (np.abs(np.subtract.outer(np.arange(n),np.arange(n)))<=2)
spd = sps.csc_matrix((R@R.T + n*np.eye(n))*band)
gen = sps.csc_matrix((R + 3*np.eye(n))*band)
free = np.array([0,2,4]); pres = np.array([1,3])
for mn,(M,cls) in {'spd':(spd,'sym'),'gen':(gen,None)}.items():
    for bn,(bf,xp) in {'vec':(rng.standard_normal(3), rng.standard_normal(2)), 'blk':(rng.standard_normal((3,2)), rng.standard_normal((2,2)))}.items():
        scan(f'SoE {mn} {bn}', lambda: pym.SystemOfEquations([S('A',M.copy()),S('bf',bf.copy()),S('xp',xp.copy())], free=free, prescribed=pres), classes=[cls,None,None], h=1e-4)
    scan(f'StaticCond {mn}', lambda: pym.StaticCondensation([S('A',M.copy())], main=np.array([0,1]), free=np.array([2,3,4])), classes=[cls], h=1e-4)
# EigenSolve dense
Rs = R+R.T
Bm = R@R.T + n*np.eye(n)
C = R + 1j*rng.standard_normal((n,n)); Ch = C + C.conj().T
#print('eigs sym', np.linalg.eigvalsh(Rs))
#scan('Eig dense rsym', lambda: pym.EigenSolve([S('A',Rs.copy())]), classes=['sym'], h=1e-4)
#scan('Eig dense rsym gen', lambda: pym.EigenSolve([S('A',Rs.copy()), S('B',Bm.copy())]), classes=['sym','sym'], h=1e-4)
Rn = np.diag([1.,2.5,4.,6.,9.]) + 0.3*R
#print('eigs nonsym', np.linalg.eigvals(Rn))
#scan('Eig dense rnonsym', lambda: pym.EigenSolve([S('A',Rn.copy())]), h=1e-4)
#scan('Eig dense cherm', lambda: pym.EigenSolve([S('A',Ch.copy())]), classes=['herm'], h=1e-4)
Cg = np.diag([1.,2.5,4.,6.,9.]) + 0.3*C
#scan('Eig dense cgen', lambda: pym.EigenSolve([S('A',Cg.copy())]), h=1e-4)
