import numpy as np, warnings, time, collections, itertools, scipy.sparse as sps
import pymoto as pym
warnings.simplefilter('ignore')
viol=collections.Counter(); ex={}
def V(k, info=None):
    viol[k]+=1; ex.setdefault(k, info)
def tab(n, seed):  # deterministic generic numbers
    pr = np.array([2,3,5,7,11,13,17,19,23,29,31,37,41,43,47,53,59,61,67,71,73,79,83,89,97,101,103,107,109,113,127,131,137,139,149,151,157,163,167,173,179,181,191,193,197,199,211,223,227,229,233,239,241,251,257,263,269,271,277,281,283,293,307,311,313,317,331,337,347,349,353,359,367,373,379,383,389,397,401,409,419,421,431,433,439,443,449,457,461,463,467,479,487,491,499,503,509,521,523,541])
    v = np.sqrt(pr[(np.arange(n)*7+seed*13) % len(pr)].astype(float))
    return (v - np.floor(v))*2-1
ncase=0
for n in [2,3,5,8]:
  for cls in ['rsym','rgen','cherm','cgen','csym']:
    for gen in [False, True]:
      for sortname, sf in [('default',None),('desc',lambda W,Q: np.argsort(-np.real(W))),('abs',lambda W,Q: np.argsort(np.abs(W)))]:
        R = tab(n*n,1).reshape(n,n); I = tab(n*n,2).reshape(n,n)
        if cls=='rsym': A = R+R.T
        elif cls=='rgen': A = np.diag(np.arange(1.,n+1)*1.7) + 0.4*R
        elif cls=='cherm': C=R+1j*I; A=C+C.conj().T
        elif cls=='cgen': A = np.diag(np.arange(1.,n+1)*1.7) + 0.4*(R+1j*I)
        else: C=R+1j*I; A=np.diag(np.arange(1.,n+1)*1.7)+0.3*(C+C.T)
        B=None
        if gen:
            S = tab(n*n,3).reshape(n,n)
            if cls in ('cherm','cgen','csym'):
                S = S + 1j*tab(n*n,4).reshape(n,n); B = S@S.conj().T + n*np.eye(n)
            else: B = S@S.T + n*np.eye(n)
        # reference
        import scipy.linalg as sl
        Wr, Qr = sl.eig(A, B)
        Bm = np.eye(n) if B is None else B
        norms = np.array([Qr[:,i]@Bm@Qr[:,i] for i in range(n)])
        if np.min(np.abs(norms))<1e-3: V(('inadmissible isotropic',cls)); continue
        sigs=[pym.Signal('A',A.copy())]+([pym.Signal('B',B.copy())] if gen else [])
        kw = {} if sf is None else dict(sorting_func=sf)
        try:
            m=pym.EigenSolve(sigs, **kw); m.response()
        except Exception as e:
            V(('EXC',cls,gen,type(e).__name__,str(e)[:60]),(n,)); continue
        ncase+=1
        W,Q=[s.state for s in m.sig_out]
        chk = np.max(np.abs(A@Q - (Bm@Q)*W[None,:]))/np.abs(A).max()
        if chk>1e-9: V(('resid',cls,gen), (n,chk))
        nb = np.array([Q[:,i]@Bm@Q[:,i] for i in range(n)])
        if not np.allclose(nb,1,atol=1e-9): V(('norm',cls,gen),(n,nb))
        if len(W)!=n: V(('count',cls))
        if not np.allclose(np.sort_complex(W.astype(complex)), np.sort_complex(Wr.astype(complex)), atol=1e-8): V(('spectrum',cls,gen),(n,))
        key = np.real(W) if sortname in('default',) else (-np.real(W) if sortname=='desc' else np.abs(W))
        if sortname=='default' and np.iscomplexobj(W) and np.max(np.abs(W.imag))>1e-9:
            pass # complex ordering by np.argsort on complex: lexicographic
        elif np.any(np.diff(key)< -1e-9): V(('order',cls,sortname),(n,W))
        if cls=='rsym':
            if np.iscomplexobj(Q): V(('rsym complex vectors',gen))
            if np.any(Q.mean(axis=0)< -1e-12): V(('sign',gen))
# sparse
for (nx,ny,nz) in [(3,2,0),(4,3,0),(2,2,2)]:
    dom=pym.DomainDefinition(nx,ny,nz); dim=dom.dim
    bcn = dom.nodes[0].ravel(); bc=(bcn[:,None]*dim+np.arange(dim)).ravel()
    x=pym.Signal('x',0.4+0.05*np.arange(dom.nel))
    mK=pym.AssembleStiffness(x,domain=dom,bc=bc); mK.response(); mM=pym.AssembleMass(x,domain=dom,bc=bc,ndof=dim,bcdiagval=1.0); mM.response()
    K,M=mK.sig_out[0].state, mM.sig_out[0].state
    Wr = np.sort(np.real(sl.eigh(K.toarray(), M.toarray(), eigvals_only=True)))
    Wr_std = np.sort(np.linalg.eigvalsh(K.toarray()))
    for gen in [True,False]:
      for nmodes in [1,3,6]:
        for sigma in [0.0, 'inside', 'above']:
          for herm in [None, True]:
            ref = Wr if gen else Wr_std
            sg = 0.0 if sigma==0.0 else (0.5*(ref[3]+ref[4])+1e-3 if sigma=='inside' else ref[-1]*1.1)
            sigs=[pym.Signal('K',K.copy())]+([pym.Signal('M',M.copy())] if gen else [])
            try:
                m=pym.EigenSolve(sigs, nmodes=nmodes, sigma=sg, hermitian=herm); m.response()
            except Exception as e:
                V(('sparse EXC',gen,sigma,type(e).__name__,str(e)[:60]),(nx,ny,nz,nmodes)); continue
            ncase+=1
            W,Q=[s.state for s in m.sig_out]
            Bm = M if gen else sps.eye(K.shape[0])
            if np.max(np.abs(K@Q-(Bm@Q)*W[None,:]))/abs(K).max()>1e-8: V(('sparse resid',gen,sigma))
            nb=np.array([Q[:,i]@(Bm@Q[:,i]) for i in range(len(W))])
            if not np.allclose(nb,1,atol=1e-8): V(('sparse norm',gen,sigma))
            if len(W)!=nmodes: V(('sparse count',))
            exp = ref[np.argsort(np.abs(ref-sg))[:nmodes]]
            if not np.allclose(np.sort(np.real(W)), np.sort(exp), rtol=1e-7, atol=1e-9): V(('sparse closest',gen,sigma,nmodes),(nx,ny,nz,np.sort(np.real(W)),np.sort(exp)))
            if np.any(np.diff(np.real(W))<-1e-9): V(('sparse order',gen,sigma))
            if np.any(np.real(Q).mean(axis=0)<-1e-12): V(('sparse sign',gen,sigma))
print('eig cases',ncase); 
for k,v in viol.most_common(30): print(v,k,ex.get(k))
