import numpy as np, itertools, time, warnings, collections
import pymoto as pym
from e7 import ref_conv, ext_index
warnings.simplefilter('ignore')
viol=collections.Counter(); ex={}
def V(k, info=None): viol[k]+=1; ex.setdefault(k, info)
def ref_density(dom, r, x):
    nx,ny,nz=dom.nelx,dom.nely,max(dom.nelz,1); y=np.zeros(dom.nel)
    for i,j,k in itertools.product(range(nx),range(ny),range(nz)):
        num=0; den=0
        for a,b,c in itertools.product(range(nx),range(ny),range(nz)):
            w=max(0.0, r-np.sqrt((i-a)**2+(j-b)**2+(k-c)**2)); num+=w*x[dom.get_elemnumber(a,b,c)]; den+=w
        y[dom.get_elemnumber(i,j,k)]=num/den
    return y
t0=time.time(); n=0
for (nx,ny,nz) in [(1,1,0),(1,3,0),(3,1,0),(2,2,0),(4,3,0),(1,1,1),(2,1,3),(3,3,2)]:
    dom=pym.DomainDefinition(nx,ny,nz, unitx=0.5, unity=2.0, unitz=1.5)
    for r in [0.5,1.0,1.5,2.0,2.5,3.7,9.0]:
        fields=[np.eye(dom.nel)[e] for e in range(dom.nel)]+[np.full(dom.nel,0.37), 0.1+np.arange(dom.nel)*0.07]
        for x in fields:
            try:
                m=pym.DensityFilter(pym.Signal('x',x.copy()),domain=dom,radius=r); m.response(); y=m.sig_out[0].state
            except Exception as e: V(('DF EXC',r,type(e).__name__,str(e)[:60]),(nx,ny,nz)); break
            n+=1
            yr=ref_density(dom,r,x)
            if not np.allclose(y,yr,atol=1e-12): V(('DF value',r),(nx,ny,nz,np.abs(y-yr).max()))
            if y.min()<x.min()-1e-12 or y.max()>x.max()+1e-12: V(('DF range',r))
        # FilterConv radius kernel with relative/absolute units vs reference kernel
        for rel in [True,False]:
            for modes in [('symmetric',)*6, ('edge','wrap','symmetric','edge','wrap','symmetric'), ('wrap',)*6, ('edge',)*6]:
                x=0.1+np.arange(dom.nel)*0.07
                kw=dict(zip(['xmin_bc','xmax_bc','ymin_bc','ymax_bc','zmin_bc','zmax_bc'],modes))
                try:
                    m=pym.FilterConv(pym.Signal('x',x.copy()),domain=dom,radius=r,relative_units=rel,**kw); m.response(); y=m.sig_out[0].state
                except Exception as e: V(('FC EXC',r,rel,type(e).__name__,str(e)[:60]),(nx,ny,nz,modes)); continue
                n+=1
                # reference kernel from the statement: cone weights max(0,r-d) normalised, d in units (relative: elements; absolute: physical)
                h=np.array([1.,1.,1.]) if rel else dom.element_size
                de=[min(s,int((r-1e-10*hh)/hh)) for s,hh in zip([nx,ny,dom.nelz],h)]
                rng=[np.arange(-d,d+1)*hh for d,hh in zip(de,h)]
                X,Y,Z=np.meshgrid(*rng,indexing='ij'); w=np.maximum(0,r-np.sqrt(X**2+Y**2+Z**2)); w/=w.sum()
                yr=ref_conv(dom,w,x,list(modes))
                if not np.allclose(y,yr,atol=1e-12): V(('FC value',rel,modes[:2]),(nx,ny,nz,r,np.abs(y-yr).max()))
                if y.min()<x.min()-1e-12 or y.max()>x.max()+1e-12: V(('FC range',))
                if modes==('symmetric',)*6 and abs(y.sum()-x.sum())>1e-10: V(('FC volume',r,rel),(nx,ny,nz,y.sum()-x.sum()))
                c=np.full(dom.nel,0.37); m=pym.FilterConv(pym.Signal('x',c),domain=dom,radius=r,relative_units=rel,**kw); m.response()
                if not np.allclose(m.sig_out[0].state,0.37): V(('FC const',))
print('cases',n,time.time()-t0)
for k,v in viol.most_common(20): print(v,k,ex.get(k))
