from adj import *
import itertools, io, contextlib
warnings.simplefilter('ignore')
S = pym.Signal
dom = pym.DomainDefinition(3,2)
x0 = 0.3+0.1*np.arange(dom.nel)
w = np.cos(np.arange(9.)).reshape(3,3)+0.2
modes_all = ['symmetric','edge','wrap',0.0,0.7]
bad=0; n=0
buf=io.StringIO()
for modes in itertools.product(modes_all, repeat=4):
    with contextlib.redirect_stdout(buf):
        scan(f'FC {modes}', lambda: pym.FilterConv(S('x',x0.copy()), domain=dom, weights=w, xmin_bc=modes[0], xmax_bc=modes[1], ymin_bc=modes[2], ymax_bc=modes[3]), linear=True)
    n+=1
out=buf.getvalue()
print('FilterConv mode tuples', n, 'mismatch lines', out.count('MISMATCH'), 'EXC', out.count('EXC'))
worst=max(float(l.split('worst_rel=')[1].split()[0]) for l in out.splitlines() if 'worst_rel' in l); print('worst', worst)
# 3D kernel & wide kernel
dom3=pym.DomainDefinition(2,2,2); x3=0.3+0.05*np.arange(dom3.nel); w3=np.cos(np.arange(27.)).reshape(3,3,3)+0.2
for modes in [('symmetric',)*6, ('edge','wrap',0.3,'symmetric','wrap','edge'), (0.0,1.0,'edge','edge','wrap',0.0)]:
    kw=dict(zip(['xmin_bc','xmax_bc','ymin_bc','ymax_bc','zmin_bc','zmax_bc'],modes))
    scan(f'FC3D {modes}', lambda: pym.FilterConv(S('x',x3.copy()), domain=dom3, weights=w3, **kw), linear=True)
scan('DensityFilter nonpadding', lambda: pym.DensityFilter(S('x',x0.copy()), domain=dom, radius=1.5, nonpadding=np.array([0,1,2])), linear=True)
# AssembleGeneral dyad seeds: handled via seeds_for? (dense seeds only) -> custom
em = np.cos(np.arange(64.)).reshape(8,8)
m = pym.AssembleGeneral(S('x',x0.copy()), domain=dom, element_matrix=em, bc=np.array([0,5])); m.response()
K0 = m.sig_out[0].state.toarray()
n_ = K0.shape[0]
u1=np.cos(np.arange(n_)); v1=np.sin(1+np.arange(n_)); u2=u1[::-1]*1j; v2=v1*0.5
for nm, D in [('dyad1', pym.DyadCarrier(u1,v1)), ('dyad2c', pym.DyadCarrier([u1,u2],[v1,v2])), ('dense', np.outer(u1,v1))]:
    m.reset(); m.sig_out[0].sensitivity = D; m.sensitivity(); g = m.sig_in[0].sensitivity.copy(); m.reset()
    W = D.todense() if isinstance(D,pym.DyadCarrier) else D
    gn = np.zeros(dom.nel)
    for e in range(dom.nel):
        xe=x0.copy(); xe[e]+=1; m.sig_in[0].state=xe; m.response(); gn[e]=np.real(np.sum(W*(m.sig_out[0].state.toarray()-K0)))
    m.sig_in[0].state=x0.copy(); m.response()
    print('AssembleGeneral seed', nm, 'max err', np.abs(g-gn).max(), g.dtype)
