import numpy as np, scipy.sparse as sps, warnings, traceback
import pymoto as pym
from pymoto.solvers import CG, DampedJacobi, SOR, ILU, GeometricMultigrid, Preconditioner
np.set_printoptions(precision=5, suppress=True, linewidth=200)
warnings.simplefilter('always')
dom = pym.DomainDefinition(4,4)
x = pym.Signal('x', np.linspace(0.3,1,dom.nel))
bc = np.concatenate([dom.get_nodenumber(0, np.arange(5))*2, dom.get_nodenumber(0, np.arange(5))*2+1])
mK = pym.AssembleStiffness(x, domain=dom, bc=bc); mK.response()
K = mK.sig_out[0].state
n = K.shape[0]
rng = np.random.default_rng(0)
# complex hermitian PD: K + i*S where S is antisymmetric real, small
S = sps.csc_matrix(np.triu(rng.standard_normal((n,n))*0.01*(K.toarray()!=0),1)); S = S - S.T
Kh = (K + 1j*S).tocsc()
print('herm?', abs(Kh-Kh.conj().T).max(), 'mineig', np.linalg.eigvalsh(Kh.toarray()).min())
def res(A,x,b,tr):
    M = {'N':A,'T':A.T,'H':A.conj().T}[tr]
    return np.linalg.norm(M@x-b)/np.linalg.norm(b)
for Aname, A in [('real', K), ('herm', Kh)]:
    for pname, mk in [('id', lambda: Preconditioner()), ('jac', lambda: DampedJacobi(w=0.8)), ('sor', lambda: SOR(w=1.2)), ('ilu', lambda: ILU()), ('mg', lambda: GeometricMultigrid(dom))]:
        for tr in 'NTH':
            for bshape in ['vec','blk','blkdep','cplx']:
                b = rng.standard_normal(n)
                if bshape=='blk': b = rng.standard_normal((n,2))
                if bshape=='blkdep': b = np.stack([b, 2*b, rng.standard_normal(n)],axis=1)
                if bshape=='cplx': b = b + 1j*rng.standard_normal(n)
                try:
                    with warnings.catch_warnings(record=True) as wl:
                        warnings.simplefilter('always')
                        s = CG(A, preconditioner=mk(), maxit=2000)
                        xs = s.solve(b, trans=tr)
                    r = res(A,xs,b,tr)
                    flag = '' if np.max(r)<1e-6 else '  <<<<< BAD'
                    wmsg = [str(w.message)[:60] for w in wl]
                    if flag or wmsg: print(Aname,pname,tr,bshape,'res',np.max(r),xs.shape==b.shape, xs.dtype, flag, wmsg[:1])
                except Exception as e:
                    print(Aname,pname,tr,bshape,'EXC',type(e).__name__,str(e)[:120])
print('done')
