import numpy as np, itertools, warnings
from pymoto.solvers import LDAWrapper, SolverDenseLU
warnings.simplefilter('ignore')
A1=np.array([[4.,0.7,-1.1],[0.5,5.,0.9],[-0.6,1.3,6.]]); A2=A1.T*1.3+np.diag([1,2,3.])
b=np.array([1.,-2.,0.5]); bad=0; n=0
for t1,t2 in itertools.product('NTH',repeat=2):
    w=LDAWrapper(SolverDenseLU()); w.update(A1); w.solve(b,trans=t1); w.update(A2); x=w.solve(b,trans=t2); n+=1
    M={'N':A2,'T':A2.T,'H':A2.conj().T}[t2]; r=np.linalg.norm(M@x-b)/np.linalg.norm(b)
    if r>1e-6: bad+=1; print('stale store used:', t1,t2,'resid',r)
print('histories',n,'bad',bad)
