import numpy as np, warnings, io, contextlib, itertools
import pymoto as pym
warnings.simplefilter('ignore')
class Cube(pym.Module):
    def _prepare(self): self.seeds=[]
    def _response(self, x): return x**3 + 2*x
    def _sensitivity(self, dy): self.seeds.append(np.array(dy,copy=True)); return dy*(3*self.sig_in[0].state**2+2)
worst=0
for dx, rel, rnd, kz, x0 in itertools.product([1e-4,1e-6,1e-8],[False,True],[False,True],[True,False],[np.array([0.3,0.0,-1.2,2.5]), np.array([[0.5,1.5],[0.0,-0.7]])]):
    x=pym.Signal('x',x0.copy()); m=Cube(x,pym.Signal('y'))
    got=[]; np.random.seed(1)
    with contextlib.redirect_stdout(io.StringIO()):
        pym.finite_difference(m, dx=dx, relative_dx=rel, random=rnd, keep_zero_structure=kz, test_fn=lambda a,b,c,d: got.append((a,b,c,d)))
    w=m.seeds[0]
    idxs=[i for i in np.ndindex(x0.shape) if not (kz and x0[i]==0)]
    assert len(got)==len(idxs), (len(got),len(idxs))
    for (xv,dxx,an,fd),i in zip(got,idxs):
        sf = abs(x0[i]) if (rel and x0[i]!=0) else 1.0
        h=dx*sf
        true = w[i]*(3*x0[i]**2+2)
        assert abs(an-true)<1e-12*max(1,abs(true)), ('an',an,true)
        # forward difference error: w*(3x h + h^2) ; rounding: eps*|f|*|w|/h
        bound = abs(w[i])*(3*abs(x0[i])*h+h*h)*1.01 + 4e-16*abs(w[i])*(abs(x0[i])**3+2*abs(x0[i])+1)/h*4
        err=abs(fd-true)
        worst=max(worst, err/bound)
        if err>bound: print('BOUND exceeded', dx,rel,rnd,kz,i,err,bound)
    assert np.array_equal(x.state,x0) and x.sensitivity is None
print('worst err/bound', worst)
