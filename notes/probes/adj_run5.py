from adj import *
warnings.simplefilter('ignore')
S = pym.Signal
v = np.array([0.7,1.2,0.4]); vc = np.array([0.7+0.2j,1.2-0.5j,0.4+1.1j])
scan('Math x*y scalars', lambda: pym.MathGeneral([S('x',1.3),S('y',4.8)], expression='inp0*inp1'))
scan('Math sin(x)*y vec,scalar', lambda: pym.MathGeneral([S('x',v.copy()),S('y',4.8)], expression='sin(x)*y'))
scan('Math x^2+y vec,vec', lambda: pym.MathGeneral([S('x',v.copy()),S('y',v[::-1].copy())], expression='x^2+y'))
scan('Math exp(x)/y cplx', lambda: pym.MathGeneral([S('x',vc.copy()),S('y',v.copy())], expression='exp(x)/y'))
scan('Math bcast (3,1)*(3,)', lambda: pym.MathGeneral([S('x',v.reshape(3,1).copy()),S('y',v[::-1].copy())], expression='x*y+x'))
scan('Math npscalar', lambda: pym.MathGeneral([S('x',np.float64(1.3)),S('y',v.copy())], expression='x*y'))
scan('Math cplx scalar real in', lambda: pym.MathGeneral([S('x',1.3),S('y',vc.copy())], expression='x*y'))
scan('Math const', lambda: pym.MathGeneral([S('x',v.copy())], expression='x*0+3'))
