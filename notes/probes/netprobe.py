import numpy as np, itertools, warnings, collections, time
import pymoto as pym
warnings.simplefilter('ignore')
# typed module alphabet. type tags: 'v3','v2','s'
M32 = np.array([[1.,-2.,0.5],[0.3,0.7,-1.1]]); M23 = M32.T.copy()*0.9
class Sq(pym.Module):
    def _response(self,x): return x*x+x
    def _sensitivity(self,dy): return dy*(2*self.sig_in[0].state+1)
class Lin(pym.Module):
    def _prepare(self,M): self.M=M
    def _response(self,x): return self.M@x
    def _sensitivity(self,dy): return self.M.T@dy
class Mul(pym.Module):
    def _response(self,a,b): return a*b
    def _sensitivity(self,dy): return dy*self.sig_in[1].state, dy*self.sig_in[0].state
class Fan(pym.Module):
    def _response(self,x): return 2*x, np.sum(x)
    def _sensitivity(self,d1,d2):
        g=np.zeros_like(self.sig_in[0].state)
        if d1 is not None: g=g+2*d1
        if d2 is not None: g=g+d2
        return g
# module specs: name -> (in types, out types, factory(ins, outs), jac(invals)-> list over outs of list over ins of Jacobian matrices)
def J_sq(x): return [[np.diag(np.atleast_1d(2*x+1))]]
specs = {
 'Sq3':(['v3'],['v3'],lambda i,o:Sq(i,o), lambda x:[[np.diag(2*x+1)]]),
 'Sq2':(['v2'],['v2'],lambda i,o:Sq(i,o), lambda x:[[np.diag(2*x+1)]]),
 'L32':(['v3'],['v2'],lambda i,o:Lin(i,o,M32), lambda x:[[M32]]),
 'L23':(['v2'],['v3'],lambda i,o:Lin(i,o,M23), lambda x:[[M23]]),
 'Mul3':(['v3','v3'],['v3'],lambda i,o:Mul(i,o), lambda a,b:[[np.diag(b),np.diag(a)]]),
 'Mul2':(['v2','v2'],['v2'],lambda i,o:Mul(i,o), lambda a,b:[[np.diag(b),np.diag(a)]]),
 'Fan3':(['v3'],['v3','s'],lambda i,o:Fan(i,o), lambda x:[[2*np.eye(3)],[np.ones((1,3))]]),
 'Dot3':(['v3','v3'],['s'],lambda i,o:pym.EinSum(i,o,expression='i,i->'), lambda a,b:[[b[None,:],a[None,:]]]),
 'Sl':(['v3'],['v2'],None,None),  # slice x[0:2] then Sq2  (SignalSlice input)
}
size={'v3':3,'v2':2,'s':1}
a0=np.array([0.7,-1.2,0.4]); b0=np.array([1.5,0.3])
def programs(k):
    """yield list of (modname, input signal ids); signals: 0='a'(v3), 1='b'(v2), then outputs appended"""
    def rec(prog, types):
        if len(prog)==k: yield list(prog); return
        for mn,(it,ot,_,_) in specs.items():
            choices=[[i for i,t in enumerate(types) if t==need] for need in it]
            for ins in itertools.product(*choices):
                yield from rec(prog+[(mn,ins)], types+ot)
    yield from rec([], ['v3','v2'])
def run(prog, seeds, nested=None):
    sigs=[pym.Signal('a',a0.copy()), pym.Signal('b',b0.copy())]; types=['v3','v2']; mods=[]
    for mn,ins in prog:
        it,ot,fac,_=specs[mn]
        outs=[pym.Signal(f's{len(sigs)+j}') for j in range(len(ot))]
        if mn=='Sl': mod=Sq(sigs[ins[0]][0:2], outs)
        else: mod=fac([sigs[i] for i in ins], outs)
        mods.append(mod); sigs+=outs; types+=ot
    if nested is not None and len(mods)>=2:
        i,j=nested
        inner=pym.Network(mods[i:j]); net=pym.Network(mods[:i]+[inner]+mods[j:])
    else: net=pym.Network(mods)
    net.response()
    for (si,w) in seeds: sigs[si].sensitivity = w.copy() if isinstance(w,np.ndarray) else w
    net.sensitivity()
    return sigs, types, net
def reference(prog, seeds):
    vals=[a0.copy(), b0.copy()]; types=['v3','v2']
    # J[sig] = d sig / d (a,b)  shape (size, 5)
    J=[np.hstack([np.eye(3),np.zeros((3,2))]), np.hstack([np.zeros((2,3)),np.eye(2)])]
    for mn,ins in prog:
        it,ot,_,jac=specs[mn]
        if mn=='Sl':
            x=vals[ins[0]][0:2]; y=x*x+x; vals.append(y); J.append(np.diag(2*x+1)@J[ins[0]][0:2,:]); types+=ot; continue
        xs=[vals[i] for i in ins]
        if mn.startswith('Sq'): ys=[xs[0]**2+xs[0]]
        elif mn=='L32': ys=[M32@xs[0]]
        elif mn=='L23': ys=[M23@xs[0]]
        elif mn.startswith('Mul'): ys=[xs[0]*xs[1]]
        elif mn=='Fan3': ys=[2*xs[0], np.sum(xs[0])]
        elif mn=='Dot3': ys=[xs[0]@xs[1]]
        Js=jac(*xs)
        for o,y in enumerate(ys):
            vals.append(np.asarray(y)); J.append(sum(np.atleast_2d(Js[o][q])@J[ins[q]] for q in range(len(ins))))
        types+=ot
    g=np.zeros(5)
    for (si,w) in seeds: g+= np.atleast_1d(w)@J[si]
    return vals, g
viol=collections.Counter(); ex={}; n=0; t0=time.time()
for k in [1,2,3]:
    for prog in programs(k):
        nsig = 2+sum(len(specs[m][1]) for m,_ in prog)
        types=['v3','v2']+[t for m,_ in prog for t in specs[m][1]]
        produced=list(range(2,nsig))
        seedsets=[[s] for s in produced]+[list(c) for c in itertools.combinations(produced,2)]
        for ss in seedsets:
            seeds=[(s, (np.cos(1.0+np.arange(size[types[s]])*(s+1)) if types[s]!='s' else 0.7+0.1*s)) for s in ss]
            for nested in [None]+[(i,j) for i in range(k) for j in range(i+2,k+1)]:
                try:
                    sigs,_,net=run(prog,seeds,nested)
                except Exception as e:
                    kk=('EXC',type(e).__name__,str(e)[:50]); viol[kk]+=1; ex.setdefault(kk,(prog,ss)); continue
                vals,g=reference(prog,seeds); n+=1
                ga=sigs[0].sensitivity; gb=sigs[1].sensitivity
                got=np.concatenate([np.zeros(3) if ga is None else ga, np.zeros(2) if gb is None else gb])
                if not np.allclose(got,g,atol=1e-10*max(1,np.abs(g).max())):
                    kk=('grad',); viol[kk]+=1; ex.setdefault(kk,(prog,ss,nested,got,g))
                for s,v in zip(sigs,vals):
                    if not np.allclose(s.state,v): viol[('state',)]+=1
print('programs*seedsets*nestings',n,time.time()-t0)
for kk,v in viol.most_common(10): print(v,kk,ex[kk])
