import subprocess, shutil, os, json, sys, xml.etree.ElementTree as ET
MUTS = {
 'r_ovh_start': ('pymoto/modules/filter.py', "ind_layer = 1 if dx_layer >= 0 else size[dir_layer]-2  # Starting index", "ind_layer = 1 if dx_layer >= 0 else size[dir_layer]-1  # Starting index", ['tests/test_filter.py']),
 's_mma_move': ('pymoto/common/mma.py', "zzl2 = xval - self.move * self.dx", "zzl2 = xval - 2 * self.move * self.dx", ['tests/test_core.py']),
 't_oc_clip': ('pymoto/routines.py', "np.minimum(xmax, xval+move))", "np.minimum(xmax, xval+2*move))", ['tests/test_core.py']),
 'u_ldl_H': ('pymoto/solvers/dense.py', "                u1 = spla.solve_triangular(self.lp, rhs[self.p].conj(), lower=True, unit_diagonal=True).conj()\n            else:\n                u1 = spla.solve_triangular(self.lp, rhs[self.p], lower=True, unit_diagonal=True)\n            u2 = self.dinvH(u1)", "                u1 = spla.solve_triangular(self.lp, rhs[self.p], lower=True, unit_diagonal=True)\n            else:\n                u1 = spla.solve_triangular(self.lp, rhs[self.p], lower=True, unit_diagonal=True)\n            u2 = self.dinvH(u1)", ['tests/test_solvers_dense.py']),
 'v_cg_restart': ('pymoto/solvers/iterative.py', "if i % self.restart == 0:  # Explicit restart", "if False:  # Explicit restart", ['tests/test_solvers_sparse.py','tests/test_solvers_iterative.py']),
 'w_fd_norestore': ('pymoto/routines.py', "                # Restore original state\n                if is_iterable:\n                    it[0] = x0\n                else:\n                    Sin.state = x0\n\n            # Go to the next entry", "                # Restore original state\n                if not is_iterable:\n                    Sin.state = x0\n\n            # Go to the next entry", ['tests/test_complex.py','tests/test_module_einsum.py','tests/test_solvers_dense.py','tests/test_linsolve_sparse.py']),
 'x_activeset_ge': ('pymoto/modules/aggregation.py', "sel = np.logical_and(sel, xrel >= self.lower_rel)", "sel = np.logical_and(sel, xrel > self.lower_rel)", ['tests/test_aggregration.py']),
 'y_dyad_conj': ('pymoto/common/dyadcarrier.py', "return DyadCarrier([u.conj() for u in self.u], [v.conj() for v in self.v], shape=self.shape)", "return DyadCarrier([u.conj() for u in self.u], [v for v in self.v], shape=self.shape)", ['tests/test_dyadcarrier.py','tests/test_linsolve_sparse.py']),
 'z_log_iter': ('pymoto/modules/io.py', "        dat = [self.iter.__format__('d')]", "        dat = [(self.iter+1).__format__('d')]", ['tests/test_core.py']),
 'aa_eig_sort': ('pymoto/modules/linalg.py', "        W = W[isort]\n        Q = Q[:, isort]", "        W = W\n        Q = Q", ['tests/test_module_eigensolve.py']),
 'ac_nodeidx': ('pymoto/common/domain.py', "nodk = nod_idx // ((self.nelx + 1)*(self.nely + 1))", "nodk = nod_idx // ((self.nelx + 1)*(self.nelx + 1))", ['tests/test_domain.py','tests/test_thermo_mech.py','tests/test_element_operations.py']),
 'ad_chol_T': ('pymoto/solvers/dense.py', "return spla.solve_triangular(self.U, spla.solve_triangular(self.U, rhs, trans='T').conj()).conj()", "return spla.solve_triangular(self.U, spla.solve_triangular(self.U, rhs, trans='T'))", ['tests/test_solvers_dense.py']),
 'ae_sor_T': ('pymoto/solvers/iterative.py', "            u1 = self.U.solve(rhs, trans='T')\n            u1 *= self.Dw[:, None]\n            u2 = self.L.solve(u1, trans='T')", "            u1 = self.L.solve(rhs, trans='T')\n            u1 *= self.Dw[:, None]\n            u2 = self.U.solve(u1, trans='T')", ['tests/test_solvers_sparse.py','tests/test_solvers_iterative.py']),
 'af_ldas_conj_ns': ('pymoto/solvers/solvers.py', "return ret.conj() if conj_mode else ret", "return ret", ['tests/test_solvers_dense.py','tests/test_solvers_sparse.py','tests/test_linsolve_sparse.py']),
 'ag_soe_bp': ('pymoto/modules/linalg.py', "b[self.p, ...] = self.Afp.T * xf + self.App * xp", "b[self.p, ...] = self.Afp.T * xf", ['tests/test_linsolve_sparse.py']),
 'ah_mass_ndof': ('pymoto/modules/assembly.py', "material_property *= np.prod(siz[domain.dim:])", "material_property *= 1.0", ['tests/test_elmatrices.py','tests/test_module_eigensolve.py','tests/test_linsolve_sparse.py']),
}
base=json.load(open('/root/.vp/BASELINE.json'))['stable_pass']
out={}
for name,(path,old,new,tests) in MUTS.items():
    d=f'/tmp/mut2/{name}'
    shutil.rmtree(d,ignore_errors=True)
    subprocess.run(['rsync','-a','--exclude','.git','--exclude','build','--exclude','*.egg-info','/repo/',d+'/'],check=True)
    s=open(f'{d}/{path}').read()
    if old not in s: out[name]='PATTERN NOT FOUND'; print(name,out[name]); continue
    open(f'{d}/{path}','w').write(s.replace(old,new,1))
    env=dict(os.environ, OMP_NUM_THREADS='4', OPENBLAS_NUM_THREADS='4')
    subprocess.run(['/venv/bin/python','-m','pytest','-q','-p','no:cacheprovider','--timeout=900',f'--junitxml=/tmp/mut2/{name}.xml',*tests],cwd=d,env=env,stdout=subprocess.DEVNULL,stderr=subprocess.DEVNULL)
    root=ET.parse(f'/tmp/mut2/{name}.xml').getroot(); res={}
    for tc in root.iter('testcase'):
        nm=f"{tc.get('classname')}::{tc.get('name')}"
        res[nm]='fail' if any(ch.tag in ('failure','error') for ch in tc) else 'ok'
    broken=[t for t in base if t in res and res[t]=='fail']
    out[name]=broken
    print(name,'-> pinned tests broken:',len(broken),broken[:3],flush=True)
    shutil.rmtree(d,ignore_errors=True)
json.dump(out,open('/tmp/mut2/result2.json','w'),indent=1)
print('DONE')
