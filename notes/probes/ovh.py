import numpy as np, itertools, warnings, time
import pymoto as pym
warnings.simplefilter('ignore')
OFFS = [(-1,0),(0,0),(1,0),(0,-1),(0,1),(-1,-1),(-1,1),(1,-1),(1,1)]
def ref_overhang(shape, x3, axis, sgn, ns, xi0, p, eps):
    """x3: 3-D array [i,j,k]; print along `axis` in direction sgn. Paper formulas, no shift."""
    q = p + np.log(ns)/np.log(xi0)
    y = x3.copy()
    n = shape[axis]
    o1, o2 = (axis+1)%3, (axis+2)%3
    dim2 = shape[2]==1
    if o1 == 2 and dim2: o1, o2 = o2, o1
    layers = range(1, n) if sgn>0 else range(n-2, -1, -1)
    for L in layers:
        for a in range(shape[o1]):
            for b in range(shape[o2]):
                acc = 0.0
                for (da, db) in OFFS[:ns]:
                    aa, bb = a+da, b+db
                    if 0 <= aa < shape[o1] and 0 <= bb < shape[o2]:
                        idx = [0,0,0]; idx[axis] = L-sgn; idx[o1]=aa; idx[o2]=bb
                        acc += max(y[tuple(idx)],0.0)**p
                s = acc**(1/q)
                idx = [0,0,0]; idx[axis]=L; idx[o1]=a; idx[o2]=b
                xv = x3[tuple(idx)]
                y[tuple(idx)] = 0.5*(xv + s - np.sqrt((xv-s)**2+eps) + np.sqrt(eps))
    return y
def to3(dom, x):
    nz = max(dom.nelz,1)
    return x[dom.elements]  # elements[i,j,k] -> number
def run(dom, x, direction, ns=None, xi0=0.5, p=40., eps=1e-4):
    m = pym.OverhangFilter(pym.Signal('x', x.copy()), domain=dom, direction=direction, nsampling=ns, xi_0=xi0, p=p, eps=eps)
    m.response()
    return m.sig_out[0].state, m
worst = 0; n=0; t0=time.time()
dirs2 = {'+x':(0,1),(-1,0):(0,-1),'y':(1,1), (1.0,0.0):(0,1), (0,-2):(1,-1), (0,-2,0):(1,-1)}
dirs3 = dict(dirs2); del dirs3[(0,-2)]; del dirs3[(1.0,0.0)]; dirs3.update({'z':(2,1),'Z+':(2,1),(0,0,-1):(2,-1)})
for (nx,ny,nz) in [(1,1,0),(2,1,0),(1,3,0),(3,2,0),(2,3,0),(3,3,0),(4,3,0),(1,1,1),(2,1,2),(2,2,2),(3,2,2),(2,3,3)]:
    dom = pym.DomainDefinition(nx,ny,nz)
    shape = (nx,ny,max(nz,1))
    fields = []
    if dom.nel <= 9:
        for bits in itertools.product([0.,1.], repeat=dom.nel): fields.append(np.array(bits))
    else:
        for k in range(40): fields.append(((np.arange(dom.nel)*7+k*3) % 5 < 2).astype(float))
    for k in range(3): fields.append(np.abs(np.sin(1.0+np.arange(dom.nel)*(0.9+k))))
    for d, (ax, sg) in (dirs2 if nz==0 else dirs3).items():
        for ns in ([3] if nz==0 else [5,9]):
            for (xi0,p,eps) in [(0.5,40.,1e-4),(0.3,20.,1e-3),(0.5,10.,1e-2)]:
                for x in fields:
                    try:
                        y, m = run(dom, x, d, ns, xi0, p, eps)
                    except Exception as e:
                        print('EXC', (nx,ny,nz), d, type(e).__name__, str(e)[:100]); break
                    yr = ref_overhang(shape, to3(dom,x), ax, sg, ns, xi0, p, eps)
                    err = np.max(np.abs(to3(dom,y)-yr)); n+=1
                    if err>worst: worst=err; winfo=((nx,ny,nz),d,ns,(xi0,p,eps),x.tolist())
                    over = np.max(y - x)
                    if over > np.sqrt(eps)/2+1e-12: print('OVERSHOOT', over, np.sqrt(eps)/2, (nx,ny,nz), d)
                    exp_dir = np.zeros(3); exp_dir[ax]=sg
                    if not np.allclose(m.direction, exp_dir): print('DIR', d, m.direction)
print('cases', n, 'worst abs diff vs paper-formula reference', worst, winfo, time.time()-t0)
