from adj import *
from pymoto.solvers import CG, SOR, DampedJacobi
warnings.simplefilter('ignore')
S = pym.Signal
dom = pym.DomainDefinition(3,2)
dim=2
bcn = dom.nodes[0].ravel(); bc=(bcn[:,None]*dim+np.arange(dim)).ravel()
x0 = 0.4+0.05*np.arange(dom.nel)
mK=pym.AssembleStiffness(S('x',x0),domain=dom,bc=bc,bcdiagval=1e3); mK.response(); mM=pym.AssembleMass(S('x',x0),domain=dom,bc=bc,ndof=dim,bcdiagval=1.0); mM.response()
K,M=mK.sig_out[0].state.copy(), mM.sig_out[0].state.copy()
import scipy.linalg as sl
print('ref eig', np.round(sl.eigh(K.toarray(),M.toarray(),eigvals_only=True)[:8],4))
scan('Eig sparse gen nm3', lambda: pym.EigenSolve([S('K',K.copy()),S('M',M.copy())], nmodes=3, hermitian=True), classes=['sym','sym'], h=1e-4, verbose=True)
scan('Eig sparse std nm3', lambda: pym.EigenSolve([S('K',K.copy())], nmodes=3), classes=['sym'], h=1e-4, verbose=True)
scan('Eig sparse gen sigma', lambda: pym.EigenSolve([S('K',K.copy()),S('M',M.copy())], nmodes=2, sigma=0.3), classes=['sym','sym'], h=1e-4, verbose=True)
f = np.zeros(K.shape[0]); f[-1]=-1; f[-4]=0.5
scan('LinSolve sparse CG', lambda: pym.LinSolve([S('K',K.copy()),S('f',f.copy())], solver=CG(preconditioner=SOR(), tol=1e-10)), classes=['sym',None], h=1e-4, verbose=True)
scan('LinSolve sparse CG default tol', lambda: pym.LinSolve([S('K',K.copy()),S('f',f.copy())], solver=CG(preconditioner=DampedJacobi())), classes=['sym',None], h=1e-4, verbose=True)
