import numpy as np, warnings, time, collections
import pymoto as pym
warnings.simplefilter('ignore')
class Comp(pym.Module):
    def _prepare(self, c, log): self.c=c; self.log=log
    def _response(self, *xs):
        x=np.concatenate([np.atleast_1d(v) for v in xs]); self.x=x; self.log.append(x.copy()); return np.sum(self.c/x)
    def _sensitivity(self, df):
        g=-df*self.c/self.x**2; out=[]; k=0
        for s in self.sig_in:
            n=np.size(s.state); out.append(g[k:k+n].copy()); k+=n
        return out
def oc_ref(x, dfdx, xmin, xmax, move, maxvol, lam):
    return np.clip(x*np.sqrt(-dfdx/lam), np.maximum(xmin,x-move), np.minimum(xmax,x+move))
def vol_band(x, dfdx, xmin, xmax, move, maxvol, tol):
    # bisection in high precision for root lambda*
    lo, hi = 1e-300, 1e5
    f=lambda l: oc_ref(x,dfdx,xmin,xmax,move,maxvol,l).sum()-maxvol
    if f(lo) < 0 or f(hi) > 0: return None
    for _ in range(200):
        mid=0.5*(lo+hi)
        if f(mid)>0: lo=mid
        else: hi=mid
    ls=0.5*(lo+hi)
    return oc_ref(x,dfdx,xmin,xmax,move,maxvol,max(ls-tol,1e-300)).sum()-maxvol, oc_ref(x,dfdx,xmin,xmax,move,maxvol,ls+tol).sum()-maxvol, ls
viol=collections.Counter(); nrun=0; nit=0; t0=time.time(); worstconv=0
for n in [1,2,3,6]:
  for split in ['one','two']:
    if split=='two' and n<2: continue
    for move in [0.05,0.2,1.0]:
      for vf in [None, 0.3, 0.6]:
        for xminv, xmaxv in [(0.01,1.0), ('vec','vec')]:
          for x0v in [0.3, 0.5]:
            for tol in [1e-4, 1e-8]:
                c = np.array([1.,2.,3.,4.,5.,0.5])[:n]; x0=np.full(n,x0v)
                xmin = np.linspace(0.01,0.1,n) if xminv=='vec' else xminv
                xmax = np.linspace(0.8,1.0,n) if xmaxv=='vec' else xmaxv
                maxvol = None if vf is None else vf*n
                log=[]
                sigs=[pym.Signal('x',x0.copy())] if split=='one' else [pym.Signal('a',x0[:1].copy()), pym.Signal('b',x0[1:].copy())]
                m=Comp(sigs, pym.Signal('f'), c, log)
                try:
                    pym.minimize_oc(pym.Network(m), sigs, m.sig_out[0], verbosity=0, maxit=60, move=move, xmin=xmin, xmax=xmax, maxvol=maxvol, l1l2tol=tol, tolx=1e-10, tolf=1e-14)
                except Exception as e:
                    viol[('EXC',type(e).__name__,str(e)[:80])]+=1; continue
                nrun+=1
                mv = x0.sum() if maxvol is None else maxvol
                for k in range(1,len(log)):
                    nit+=1
                    xp, xn = log[k-1], log[k]
                    if np.any(xn<np.asarray(xmin)-1e-15) or np.any(xn>np.asarray(xmax)+1e-15): viol['bounds']+=1
                    if np.any(np.abs(xn-xp)>move+1e-12): viol['move']+=1
                    dfdx=-c/xp**2
                    band = vol_band(xp,dfdx,xmin,xmax,move,mv,tol)
                    if band is not None:
                        hi, lo, ls = band
                        dv = xn.sum()-mv
                        if not (lo-1e-9 <= dv <= hi+1e-9): viol[('volume', float(f'{dv:.1e}'), float(f'{lo:.1e}'), float(f'{hi:.1e}'))]+=1
                        xr = oc_ref(xp,dfdx,xmin,xmax,move,mv,ls)
                        # per-variable band
                        xlo = oc_ref(xp,dfdx,xmin,xmax,move,mv,ls+tol); xhi = oc_ref(xp,dfdx,xmin,xmax,move,mv,max(ls-tol,1e-300))
                        if np.any(xn<xlo-1e-9) or np.any(xn>xhi+1e-9): viol['update vs ref']+=1
                # convergence to analytic optimum (only if volume reachable & enough iterations)
print('runs',nrun,'iters',nit,time.time()-t0); print(viol.most_common(10))
