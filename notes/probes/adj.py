"""Prototype adjoint scanner (exploration only)."""
import numpy as np, scipy.sparse as sps, copy, warnings, itertools, traceback
import pymoto as pym

def to_dense(v):
    if v is None: return None
    if sps.issparse(v): return v.toarray()
    if isinstance(v, pym.DyadCarrier): return v.todense()
    return np.asarray(v)

def phi(mod, seeds):
    """Re sum(w*y) for current output states"""
    tot = 0.0
    for s, w in zip(mod.sig_out, seeds):
        if w is None: continue
        y = to_dense(s.state)
        tot += np.real(np.sum(to_dense(w)*y))
    return tot

def set_state(sig, base, direction, t):
    """state = base + t*direction (direction given as dense array same shape; preserves sparse type)"""
    if sps.issparse(base):
        sig.state = type(base)(base + t*sps.csr_matrix(direction))
    elif np.isscalar(base) or np.ndim(base)==0:
        sig.state = base + t*direction
    else:
        sig.state = base + t*direction

def dirs_for(base, cls=None):
    """basis directions for a state"""
    out = []
    if sps.issparse(base):
        coo = base.tocoo()
        pat = set(zip(coo.row.tolist(), coo.col.tolist()))
        for (i,j) in sorted(pat):
            if cls in ('sym','herm') and j < i: continue
            d = np.zeros(base.shape, dtype=complex if np.iscomplexobj(base) else float)
            d[i,j] = 1
            if cls in ('sym','herm') and i != j: d[j,i] = 1
            out.append(d)
            if np.iscomplexobj(base):
                d2 = d*1j
                if cls == 'herm':
                    if i == j: continue
                    d2 = np.zeros(base.shape, dtype=complex); d2[i,j]=1j; d2[j,i]=-1j
                out.append(d2)
        return out
    b = np.asarray(base)
    if b.ndim == 0:
        out.append(np.array(1.0).reshape(()) if False else 1.0)
        if np.iscomplexobj(b): out.append(1j)
        return out
    for idx in np.ndindex(b.shape):
        if cls in ('sym','herm') and b.ndim==2 and idx[1] < idx[0]: continue
        d = np.zeros(b.shape, dtype=b.dtype if np.iscomplexobj(b) else float)
        d[idx] = 1
        if cls in ('sym','herm') and b.ndim==2 and idx[0]!=idx[1]: d[idx[::-1]] = 1
        out.append(d)
        if np.iscomplexobj(b):
            if cls == 'herm':
                if idx[0]==idx[1]: continue
                d2 = np.zeros(b.shape, dtype=complex); d2[idx]=1j; d2[idx[::-1]]=-1j
            else:
                d2 = d*1j
            out.append(d2)
    return out

def seeds_for(y, maxn=6):
    """basis-ish seeds for an output state"""
    yd = to_dense(y)
    out = []
    if yd.ndim == 0:
        out.append(1.0)
        if np.iscomplexobj(yd): out.append(1j); out.append(0.3-0.7j)
        return out
    idxs = list(np.ndindex(yd.shape))
    step = max(1, len(idxs)//maxn)
    for idx in idxs[::step]:
        w = np.zeros(yd.shape, dtype=complex if np.iscomplexobj(yd) else float)
        w[idx] = 1
        out.append(w)
        if np.iscomplexobj(yd): out.append(w*1j)
    # a full generic seed
    k = np.arange(yd.size).reshape(yd.shape)
    w = np.cos(1.0+k*1.7)
    if np.iscomplexobj(yd): w = w + 1j*np.sin(0.3+k*2.1)
    out.append(w)
    return out

def scan(name, make, classes=None, h=1e-5, linear=False, tol=2e-6, verbose=False):
    """make() -> module. classes: list per input of None/'sym'/'herm'"""
    try:
        mod = make()
        bases = [copy.deepcopy(s.state) for s in mod.sig_in]
        mod.response()
        for s_, b_ in zip(mod.sig_in, bases):
            a1, a2 = to_dense(s_.state), to_dense(b_)
            if a1.shape != a2.shape or not np.array_equal(a1, a2): print(f"[{name}] !!! response() changed input state of {s_.tag}")
    except Exception as e:
        print(f"[{name}] EXC in response: {type(e).__name__}: {str(e)[:200]}"); return
    nout = len(mod.sig_out)
    worst = 0.0; worst_info=None; ncmp=0
    # seed combos: each output alone + all together
    seed_sets = []
    for o in range(nout):
        for w in seeds_for(mod.sig_out[o].state):
            ss = [None]*nout; ss[o] = w; seed_sets.append(ss)
    if nout > 1:
        seed_sets.append([seeds_for(s.state)[-1] for s in mod.sig_out])
    for ss in seed_sets:
        # analytic
        try:
            mod.reset()
            for s, b in zip(mod.sig_in, bases): s.state = copy.deepcopy(b)
            mod.response()
            for s, w in zip(mod.sig_out, ss):
                if w is not None: s.sensitivity = copy.deepcopy(w)
            mod.sensitivity()
            g = [copy.deepcopy(s.sensitivity) for s in mod.sig_in]
            mod.reset()
        except Exception as e:
            print(f"[{name}] EXC in sensitivity: {type(e).__name__}: {str(e)[:300]}"); return
        for ii, (sig, base) in enumerate(zip(mod.sig_in, bases)):
            cls = classes[ii] if classes else None
            if cls == 'skip': continue
            for d in dirs_for(base, cls):
                gd = to_dense(g[ii])
                an = 0.0 if gd is None else np.real(np.sum(gd*d))
                def f(t):
                    for s_, b_ in zip(mod.sig_in, bases): s_.state = copy.deepcopy(b_)
                    set_state(sig, base, d, t); mod.response(); return phi(mod, ss)
                if linear:
                    f0 = f(0.0); num = f(1.0)-f0
                    err_est = 0
                else:
                    D1 = (f(h)-f(-h))/(2*h); D2 = (f(h/2)-f(-h/2))/h
                    num = (4*D2-D1)/3; err_est = abs(D2-D1)
                sig.state = copy.deepcopy(base)
                scale = max(abs(an), abs(num), 1e-3)
                err = abs(an-num)/scale
                ncmp+=1
                if err > worst: worst, worst_info = err, (ii, np.argwhere(np.asarray(d)!=0)[:2].tolist() if np.ndim(d)>0 else d, an, num, err_est)
    flag = '' if worst < tol else '   <<<<<<<<<< MISMATCH'
    print(f"[{name}] cmp={ncmp} worst_rel={worst:.2e} {worst_info if flag or verbose else ''}{flag}")
