import numpy as np, itertools, time
import pymoto as pym
from numbers import Number
def ext_index(i, n, lo, hi):
    """map padded coordinate i (may be <0 or >=n) to (index or ('c',value)) per rule on that side"""
    if 0 <= i < n: return i
    mode = lo if i < 0 else hi
    if isinstance(mode, Number): return ('c', mode)
    if mode == 'edge': return 0 if i < 0 else n-1
    if mode == 'wrap': return i % n
    if mode == 'symmetric':
        # reflect about the edge (edge value repeated)
        if i < 0: j = -i-1
        else: j = 2*n-1-i
        return j
    raise ValueError(mode)
def ref_conv(dom, w, x, modes):
    nx, ny, nz = dom.nelx, dom.nely, max(dom.nelz,1)
    w3 = w
    while w3.ndim<3: w3 = w3[...,None]
    px,py,pz = [s//2 for s in w3.shape]
    y = np.zeros(dom.nel)
    for i in range(nx):
      for j in range(ny):
        for k in range(nz):
          acc=0.0
          for a in range(-px,px+1):
            for b in range(-py,py+1):
              for c in range(-pz,pz+1):
                # convolution: y[i] = sum_a w[a] x[i-a]
                ii,jj,kk = i-a, j-b, k-c
                ri = ext_index(ii,nx,modes[0],modes[1]); rj = ext_index(jj,ny,modes[2],modes[3]); rk = ext_index(kk,nz,modes[4],modes[5]) if dom.nelz>0 else kk
                const=None
                # later axis wins
                for r in (ri,rj,rk):
                    if isinstance(r,tuple): const=r[1]
                if const is not None: val=const
                else: val = x[dom.get_elemnumber(ri,rj,rk)]
                acc += w3[a+px,b+py,c+pz]*val
          y[dom.get_elemnumber(i,j,k)] = acc
    return y
rng = np.random.default_rng(1)
modes_all = ['symmetric','edge','wrap',0.0,0.7]
dom = pym.DomainDefinition(3,2)
x = rng.random(dom.nel)
w = rng.random((3,3))  # asymmetric kernel
bad=0; n=0; t0=time.time()
for modes in itertools.product(modes_all, repeat=4):
    m = pym.FilterConv(pym.Signal('x',x), domain=dom, weights=w, xmin_bc=modes[0], xmax_bc=modes[1], ymin_bc=modes[2], ymax_bc=modes[3])
    m.response()
    yr = ref_conv(dom, w, x, list(modes)+['symmetric','symmetric'])
    n+=1
    if not np.allclose(m.sig_out[0].state, yr, atol=1e-12):
        bad+=1
        if bad<=8: print('MISMATCH', modes, np.abs(m.sig_out[0].state-yr).max())
print('2D done', n, 'bad', bad, time.time()-t0)
# wider kernel pad == n
w = rng.random((5,3))
dom = pym.DomainDefinition(2,2); x = rng.random(dom.nel); bad=0
for modes in itertools.product(modes_all, repeat=4):
    try:
        m = pym.FilterConv(pym.Signal('x',x), domain=dom, weights=w, xmin_bc=modes[0], xmax_bc=modes[1], ymin_bc=modes[2], ymax_bc=modes[3]); m.response()
    except Exception as e:
        print('EXC', modes, type(e).__name__, str(e)[:100]); bad+=1; continue
    yr = ref_conv(dom, w, x, list(modes)+['symmetric','symmetric'])
    if not np.allclose(m.sig_out[0].state, yr, atol=1e-12):
        bad+=1
        if bad<=8: print('MISMATCH pad=n', modes, np.abs(m.sig_out[0].state-yr).max())
print('pad==n done bad', bad)
