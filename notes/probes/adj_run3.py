from adj import *
warnings.simplefilter('ignore')
S = pym.Signal
rng = np.random.default_rng(3)
n=4
R = rng.standard_normal((n,n)); C = R + 1j*rng.standard_normal((n,n))
mats = {
 'gen': (R + 3*np.eye(n), None),
 'sym_indef': (R+R.T, 'sym'),
 'spd': (R@R.T + n*np.eye(n), 'sym'),
 'cgen': (C + 3*np.eye(n), None),
 'cherm': (C+C.conj().T + 2*n*np.eye(n), 'herm'),
 'cherm_indef': (C+C.conj().T, 'herm'),
 'csym': (C+C.T, 'sym'),
 'uptri': (np.triu(R)+3*np.eye(n), 'skip'),
}
b = rng.standard_normal(n); B = rng.standard_normal((n,2)); bc = b + 1j*rng.standard_normal(n)
for mn,(M,cls) in mats.items():
    for bn, rhs in [('vec',b),('blk',B),('cvec',bc)]:
        scan(f'LinSolve dense {mn} {bn}', lambda: pym.LinSolve([S('A',M.copy()),S('b',rhs.copy())]), classes=[cls,None], h=1e-4)
    # sparse
    Ms = sps.csc_matrix(M * (np.abs(np.subtract.outer(np.arange(n),np.arange(n)))<=1))
    for bn, rhs in [('vec',b),('blk',B)] + ([('cvec',bc)] if np.iscomplexobj(M) else []):
        scan(f'LinSolve sparse-tridiag {mn} {bn}', lambda: pym.LinSolve([S('A',Ms.copy()),S('b',rhs.copy())]), classes=[cls,None], h=1e-4)
