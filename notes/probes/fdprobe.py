import numpy as np, warnings, io, contextlib, copy, scipy.sparse as sps
import pymoto as pym
warnings.simplefilter('ignore')
class Lin(pym.Module):
    """y = A x (+ optionally wrong adjoint)"""
    def _prepare(self, A, wrong=None): self.A, self.wrong = A, wrong; self.seeds=[]
    def _response(self, x): return self.A @ x
    def _sensitivity(self, dy):
        self.seeds.append(np.array(dy, copy=True))
        g = self.A.T @ dy
        if self.wrong == 'scale': g = g*1.1
        if self.wrong == 'entry': g = g.copy(); g[0] += 0.5
        return g if np.iscomplexobj(self.sig_in[0].state) else np.real(g)
class Sq(pym.Module):
    def _response(self, x): return x*x
    def _sensitivity(self, dy): return 2*self.sig_in[0].state*dy
class Conj(pym.Module):
    """non-holomorphic y = z*conj(z) + z  (complex out)"""
    def _response(self, z): return z*np.conj(z) + z
    def _sensitivity(self, dy):
        z = self.sig_in[0].state
        # Re sum(g v) = d Re sum(w y): y = |z|^2 + z ; dy = 2 Re(conj(z) v) + v ; Re(w*(2Re(conj z v)+v)) = Re( (2 Re(w) conj(z) + w) v )
        return 2*np.real(dy)*np.conj(z) + dy
def run(mod, **kw):
    got=[]
    ins = [s for s in (kw.get('fromsig') or mod.sig_in)] if not isinstance(kw.get('fromsig'), pym.Signal) else [kw['fromsig']]
    before = [copy.deepcopy(s.state) for s in ins]
    with contextlib.redirect_stdout(io.StringIO()):
        pym.finite_difference(mod, test_fn=lambda x0,dx,an,fd: got.append((x0,dx,an,fd)), **kw)
    after = [s.state for s in ins]
    restored = all(np.array_equal(np.asarray(a), np.asarray(b)) and type(a)==type(b) for a,b in zip(before, after))
    allsig = set(ins)
    for m in (mod.mods if isinstance(mod, pym.Network) else [mod]): allsig.update(m.sig_in); allsig.update(m.sig_out)
    sensleft = [s.tag for s in allsig if s.sensitivity is not None and np.any(np.asarray(s.sensitivity)!=0)]
    return got, restored, sensleft
A = np.array([[1.,2,0],[0.5,-1,3]])
x = pym.Signal('x', np.array([0.3,0.0,-1.2]))
for wrong in [None,'scale','entry']:
    m = Lin(x, pym.Signal('y'), A, wrong)
    got, rest, sl = run(m, dx=1e-6)
    print('Lin wrong=',wrong,'n',len(got),'maxdiff',max(abs(a-f) for _,_,a,f in got),'restored',rest,'sensleft',sl)
got, rest, sl = run(Lin(x, pym.Signal('y'), A), dx=1e-6, keep_zero_structure=False); print('keepzero False n', len(got))
# scalar python float
xs = pym.Signal('xs', 1.5); m = Sq(xs, pym.Signal('y'))
got, rest, sl = run(m, dx=1e-6); print('scalar float', got, rest, sl, type(xs.state))
# complex vector, non-holomorphic
z = pym.Signal('z', np.array([0.5+1j, -1-0.3j])); m = Conj(z, pym.Signal('y'))
got, rest, sl = run(m, dx=1e-6, random=False); print('conj', [(round(a,5),round(f,5)) for _,_,a,f in got], rest, sl)
# complex python scalar
zs = pym.Signal('zs', 0.5+1j); m = Conj(zs, pym.Signal('y'))
try:
    got, rest, sl = run(m, dx=1e-6); print('conj scalar', [(round(a,5),round(f,5)) for _,_,a,f in got], rest, sl, type(zs.state))
except Exception as e: print('conj scalar EXC', type(e).__name__, str(e)[:100])
# slice as fromsig
xb = pym.Signal('xb', np.array([0.3,0.7,-1.2,2.0])); m = Sq(xb[1:3], pym.Signal('y'))
got, rest, sl = run(m, dx=1e-6); print('slice in', [(round(a,5),round(f,5)) for _,_,a,f in got], rest, sl, xb.state)
m = Sq(xb[np.array([3,0])], pym.Signal('y'))
got, rest, sl = run(m, dx=1e-6); print('fancy slice in', [(round(a,5),round(f,5)) for _,_,a,f in got], rest, sl, xb.state)
zb = pym.Signal('zb', np.array([0.5+1j, -1-0.3j, 2+2j])); m = Conj(zb[np.array([2,0])], pym.Signal('y'))
got, rest, sl = run(m, dx=1e-6, random=False); print('fancy cplx slice', [(round(a,5),round(f,5)) for _,_,a,f in got], rest, sl)
# network with fromsig/tosig
x1 = pym.Signal('x1', np.array([0.3,0.5,-1.2])); m1 = Lin(x1, pym.Signal('y1'), A); m2 = Sq(m1.sig_out[0], pym.Signal('y2')); m3 = Lin(m2.sig_out[0], pym.Signal('y3'), np.array([[1.,-2.]]))
net = pym.Network(m1,m2,m3)
got, rest, sl = run(net, fromsig=[m1.sig_out[0]], tosig=[m3.sig_out[0]], dx=1e-6); print('subnet', [(round(a,5),round(f,5)) for _,_,a,f in got], rest, sl)
got, rest, sl = run(net, fromsig=[x1], tosig=[m2.sig_out[0]], dx=1e-6, relative_dx=True); print('subnet2 n', len(got), max(abs(a-f) for _,_,a,f in got), rest, sl)
# use_df
got, rest, sl = run(Lin(x1, pym.Signal('y'), A), use_df=[np.array([2.0,-1.0])], dx=1e-6); print('use_df', [(round(a,5),round(f,5)) for _,_,a,f in got])
# sparse output
class SpOut(pym.Module):
    def _response(self, x): return sps.csr_matrix(np.diag(x*x))
    def _sensitivity(self, dY): return 2*self.sig_in[0].state*np.diag(np.asarray(dY))
got, rest, sl = run(SpOut(x1, pym.Signal('Y')), dx=1e-6); print('sparse out', [(round(a,5),round(f,5)) for _,_,a,f in got], rest, sl)
