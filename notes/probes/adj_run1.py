from adj import *
warnings.simplefilter('ignore')
S = pym.Signal
dom2 = pym.DomainDefinition(2,2, unitx=0.5, unity=1.5, unitz=0.8)
dom3 = pym.DomainDefinition(2,1,2, unitx=0.5, unity=1.5, unitz=0.8)
def xel(dom): return 0.3+0.1*np.arange(dom.nel)
def unod(dom, ndof): return np.sin(1.0+np.arange(dom.nnodes*ndof)*0.7)
for dn, dom in [('2d',dom2),('3d',dom3)]:
    bc = np.array([0,1,2])
    scan(f'AssembleStiffness {dn}', lambda: pym.AssembleStiffness(S('x',xel(dom)), domain=dom, bc=bc), linear=True)
    scan(f'AssembleMass {dn}', lambda: pym.AssembleMass(S('x',xel(dom)), domain=dom, ndof=dom.dim, bc=bc, bcdiagval=1.0), linear=True)
    scan(f'AssemblePoisson {dn}', lambda: pym.AssemblePoisson(S('x',xel(dom)), domain=dom), linear=True)
    em = np.cos(np.arange((dom.elemnodes*2)**2)).reshape(dom.elemnodes*2,-1)
    scan(f'AssembleGeneral nonsym {dn}', lambda: pym.AssembleGeneral(S('x',xel(dom)), domain=dom, element_matrix=em, bc=bc, add_constant=sps.eye(2*dom.nnodes, format='csc')), linear=True)
    scan(f'Strain {dn}', lambda: pym.Strain(S('u',unod(dom,dom.dim)), domain=dom), linear=True)
    scan(f'Stress {dn}', lambda: pym.Stress(S('u',unod(dom,dom.dim)), domain=dom, plane='stress'), linear=True)
    scan(f'ElementAverage {dn}', lambda: pym.ElementAverage(S('u',unod(dom,2)), domain=dom), linear=True)
    scan(f'ElementOperation {dn}', lambda: pym.ElementOperation(S('u',unod(dom,1)), domain=dom, element_matrix=np.cos(np.arange(3*dom.elemnodes)).reshape(3,-1)), linear=True)
    scan(f'NodalOperation {dn}', lambda: pym.NodalOperation(S('x',xel(dom)), domain=dom, element_matrix=np.cos(np.arange(2*dom.elemnodes))), linear=True)
    scan(f'ThermoMech {dn}', lambda: pym.ThermoMechanical(S('x',xel(dom)), domain=dom, alpha=0.1), linear=True)
    scan(f'DensityFilter {dn}', lambda: pym.DensityFilter(S('x',xel(dom)), domain=dom, radius=1.6), linear=True)
    scan(f'FilterConv {dn}', lambda: pym.FilterConv(S('x',xel(dom)), domain=dom, radius=1.6, xmin_bc='edge', xmax_bc=0.5, ymin_bc='wrap'), linear=True)
    for d in (['+x','-x','+y','-y'] if dom.dim==2 else ['+x','-x','+y','-y','+z','-z']):
        scan(f'Overhang {dn} {d}', lambda: pym.OverhangFilter(S('x',np.clip(xel(dom),0,1)), domain=dom, direction=d), h=1e-4)
    if dom.dim==3:
        scan(f'Overhang {dn} ns9', lambda: pym.OverhangFilter(S('x',np.clip(xel(dom),0,1)), domain=dom, direction='z', nsampling=9), h=1e-4)
