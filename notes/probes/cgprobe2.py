import numpy as np, scipy.sparse as sps, warnings, collections, itertools, time
import pymoto as pym
from pymoto.solvers import CG, DampedJacobi, SOR, ILU, GeometricMultigrid, Preconditioner
warnings.simplefilter('ignore')
viol=collections.Counter(); ex={}
def V(k,i=None): viol[k]+=1; ex.setdefault(k,i)
def fe(dom, cplx):
    dim=dom.dim
    bcn=dom.nodes[0].ravel(); bc=(bcn[:,None]*dim+np.arange(dim)).ravel()
    x=pym.Signal('x',0.3+0.6*np.abs(np.sin(1+np.arange(dom.nel))))
    m=pym.AssembleStiffness(x,domain=dom,bc=bc); m.response(); K=m.sig_out[0].state
    if not cplx: return K
    n=K.shape[0]; pat=(abs(K)>0).toarray()
    S=np.triu(np.sin(np.arange(n*n)).reshape(n,n)*0.01*pat,1); S=S-S.T
    return (K+1j*sps.csc_matrix(S)).tocsc()
t0=time.time(); n=0
for (nx,ny,nz) in [(2,2,0),(4,2,0),(4,4,0),(2,2,2)]:
    dom=pym.DomainDefinition(nx,ny,nz)
    for cplx in [False,True]:
        A=fe(dom,cplx); N=A.shape[0]; Ad=A.toarray()
        precs={'id':lambda:Preconditioner(),'jac1':lambda:DampedJacobi(w=1.0),'jac05':lambda:DampedJacobi(w=0.5),'sor1':lambda:SOR(w=1.0),'sor15':lambda:SOR(w=1.5),'ilu':lambda:ILU(),
               'mgV':lambda:GeometricMultigrid(dom),'mgW':lambda:GeometricMultigrid(dom,cycle='W'),'mg_sor':lambda:GeometricMultigrid(dom,smoother=SOR(w=1.0),smooth_steps=2)}
        if nx%4==0 and ny%4==0: precs['mg2']=lambda:GeometricMultigrid(dom,inner_level=GeometricMultigrid(pym.DomainDefinition(nx//2,ny//2,nz//2,2.,2.,2.)))
        b1=np.cos(1+np.arange(N)*0.9); b2=np.sin(np.arange(N)*1.3)
        rhss={'vec':b1,'col':b1.reshape(N,1),'blk':np.stack([b1,b2],1),'blkdep':np.stack([b1,2*b1,b2],1)}
        if cplx: rhss['cvec']=b1+1j*b2
        for pn,mk in precs.items():
            for tr in 'NTH':
                M={'N':Ad,'T':Ad.T,'H':Ad.conj().T}[tr]
                for rn,b in rhss.items():
                    xe=np.linalg.solve(M,b)
                    for x0n,x0 in [('none',None),('zero',np.zeros(b.shape,dtype=xe.dtype)),('exact',xe.copy()),('pert',xe*(1+0.1))]:
                        try:
                            s=CG(A,preconditioner=mk(),tol=1e-9,maxit=3000); bb=b.copy(); x=s.solve(bb,x0=None if x0 is None else x0.copy(),trans=tr)
                        except Exception as e:
                            V(('EXC',pn,cplx,rn,x0n,type(e).__name__,str(e)[:50]),(nx,ny,nz,tr)); continue
                        n+=1
                        r=np.linalg.norm(M@x-b,axis=0)/np.linalg.norm(b,axis=0)
                        if x.shape!=b.shape: V(('shape',pn,rn,x0n),(x.shape,b.shape))
                        elif not np.all(r<1e-8): V(('resid',pn,cplx,tr,rn,x0n),(nx,ny,nz,float(np.max(r))))
                        if not np.array_equal(bb,b): V(('rhs mutated',pn))
print('solves',n,time.time()-t0)
for k,v in viol.most_common(25): print(v,k,ex[k])
