#!/bin/bash
# setup_cmd: offline install of sympy/mpmath/jsonschema into /verif/_deps (never into /venv)
HERE="$(cd "$(dirname "${BASH_SOURCE[0]}")" && pwd)"
cd "$HERE" || exit 2
if [ ! -d _deps/sympy ] || [ ! -d _deps/jsonschema ]; then
  PIP_NO_INDEX=1 /venv/bin/python -m pip install --quiet --no-index --find-links /opt/veriftools/wheels \
     --target "$HERE/_deps" sympy mpmath jsonschema || echo "setup: optional deps not installable (MathGeneral sub-lattice will be reported skipped)"
fi
mkdir -p evidence replays
exit 0
