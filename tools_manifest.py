#!/usr/bin/env python3
"""Regenerates MANIFEST.json from the table below (kept valid at all times)."""
import json, os, sys
HERE = os.path.dirname(os.path.abspath(__file__))
BASE = "cd /repo && /venv/bin/python -m pytest -ra -q -p no:cacheprovider --timeout=900 --continue-on-collection-errors"
TRUST = ("trusted base: the Python reference models in pmc/refs (written from the property statements), numpy/scipy "
         "kernels used by the references (linalg.solve/eig/lstsq), the tolerance classes of DESIGN.md 3.2, the stated bounds")
CHECKS = {
 # id: (technique, text, section)
}
def load_checks():
    import importlib.util
    p = os.path.join(HERE, 'manifest_table.json')
    return json.load(open(p))
def main():
    table = load_checks()
    props = [json.loads(l) for l in open(os.path.join(HERE, 'properties.jsonl'))]
    checks, na = [], []
    for p in props:
        pid = p['id']
        if pid in table['claimed']:
            t = table['claimed'][pid]
            checks.append({
                "property_id": pid,
                "quick_cmd": f"./check {pid} --tier quick",
                "thorough_cmd": f"./check {pid} --tier thorough",
                "evidence_file": f"/verif/evidence/{pid}.json",
                "replay_cmd_template": f"./check {pid} --replay {{path}}",
                "engine": "pmc",
                "level_claimed": {"category": "model_checking", "text": t['text'], "design_ref": f"DESIGN.md section 4, {pid}"},
                "level_note": t.get('note', TRUST),
                "technique": t['technique'],
            })
        else:
            na.append({"property_id": pid, "reason": table['not_claimed'].get(pid, "check not built yet in this session (design exists in DESIGN.md section 4); not claimed until its explorer runs")})
    m = {
        "version": 1,
        "setup_cmd": "./setup.sh",
        "hooks": {"guard": "PYMOTO_VERIF", "enable": "not used: every observation point is reachable from outside (DESIGN.md 2.3); no hook commits in /repo",
                  "baseline_off_cmd": BASE, "source_commits": [], "add_only": True},
        "engines": [{"name": "pmc", "path": "/verif/pmc", "serves_properties": sorted(table['claimed']),
                     "kind_free_text": "hand-written bounded exhaustive explorer (lattice / sequence / explicit-state BFS) running the real pyMOTO code in lock-step with Python reference models"}],
        "checks": checks,
        "notes": table.get('notes', ''),
        "not_applicable": na,
    }
    json.dump(m, open(os.path.join(HERE, 'MANIFEST.json'), 'w'), indent=1)
    try:
        sys.path.insert(0, os.path.join(HERE, '_deps'))
        import jsonschema
        jsonschema.validate(m, json.load(open('/root/.vp/MANIFEST.schema.json')))
        print("MANIFEST.json valid;", len(checks), "claimed,", len(na), "not claimed")
    except ImportError:
        print("written (jsonschema unavailable)")
main()
